#!/usr/bin/env python3
"""Evaluate a seeded change against the checks.

  tools/seed_eval.py <patch.diff> <Cxx> [<Cyy> ...] [--tier quick|thorough] [--seed N]

Applies the patch to a scratch worktree of /repo (HEAD), verifies it builds, runs the
given checks against it (private build dir), prints one JSON line per check, and removes
the worktree and build dir."""
import sys, os, subprocess, json, re, shutil, tempfile, time

def sh(cmd, **kw):
    return subprocess.run(cmd, shell=isinstance(cmd, str), stdout=subprocess.PIPE, stderr=subprocess.STDOUT, text=True, **kw)

def main():
    a = sys.argv[1:]
    tier, seed = "quick", "1"
    if "--tier" in a:
        i = a.index("--tier"); tier = a[i+1]; del a[i:i+2]
    if "--seed" in a:
        i = a.index("--seed"); seed = a[i+1]; del a[i:i+2]
    patch, pids = os.path.abspath(a[0]), a[1:]
    tag = f"{os.getpid()}"
    wt, vb = f"/tmp/se-wt-{tag}", f"/tmp/se-vb-{tag}"
    env = dict(os.environ, GOFLAGS="-mod=mod", GOPROXY="off", GOSUMDB="off", GOTOOLCHAIN="local")
    r = sh(["git", "-C", "/repo", "worktree", "add", "--detach", wt, "HEAD"])
    try:
        r = sh(["git", "-C", wt, "apply", patch])
        if r.returncode != 0:
            print(json.dumps({"error": "patch does not apply", "out": r.stdout[-500:]})); return 2
        r = sh(["go", "build", "./..."], cwd=wt, env=env)
        if r.returncode != 0:
            print(json.dumps({"error": "does not build", "out": r.stdout[-800:]})); return 2
        for pid in pids:
            t = time.time()
            r = sh(["./check", pid, tier], cwd=os.path.dirname(os.path.dirname(os.path.abspath(__file__))), env=dict(os.environ, VERIF_REPO=wt, VERIF_BUILD=vb, VERIF_SEED=seed))
            out = r.stdout
            sigs = sorted(set(re.findall(r"violation sig=(\S+?):? ", out)) | set(re.findall(r"violation sig=(\S+):", out)))
            broken = re.findall(r"\[check\] broken (\w+): (.{0,200})", out)
            last = [l for l in out.splitlines() if l.startswith("[check] " + pid)][-1:] or [""]
            print(json.dumps({"check": pid, "tier": tier, "exit": r.returncode,
                              "violation_lines": [l for l in out.splitlines() if l.startswith("VIOLATION")][:3],
                              "sigs": sigs, "broken": broken[:3], "summary": last[0], "secs": round(time.time()-t)}))
    finally:
        sh(["git", "-C", "/repo", "worktree", "remove", "--force", wt])
        shutil.rmtree(vb, ignore_errors=True)
        sh(["git", "-C", "/repo", "worktree", "prune"])
    return 0

if __name__ == "__main__":
    sys.exit(main())

#!/usr/bin/env python3
"""tools/mkext.py Cxx minutes -> prompt for the extension round of one property."""
import json, sys, os
V = os.path.dirname(os.path.dirname(os.path.abspath(__file__)))
pid, mins = sys.argv[1], sys.argv[2]
t = open(os.path.join(V, "tools/prompts/extension_round_TEMPLATE.txt")).read()
h = json.load(open(os.path.join(V, "tools/prompts/extension_hints.json")))[pid]
print(t.replace("@ID@", pid).replace("@LID@", pid.lower()).replace("@HINTS@", h["hints"]).replace("@SEEDED@", h["seeded"] or "none recorded").replace("@MINUTES@", mins))

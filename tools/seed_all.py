#!/usr/bin/env python3
"""Re-evaluate every seeded change under /verif/seeded against the checks recorded in its
meta.json (tools/seed_eval.py per change, 4 at a time). Prints one line per (change, check)
and exits 1 if some change is no longer detected by any of its checks."""
import os, sys, json, glob, subprocess, concurrent.futures as cf
V = os.path.dirname(os.path.dirname(os.path.abspath(__file__)))
def one(d):
    sid = os.path.basename(d)
    try:
        meta = json.load(open(os.path.join(d, "meta.json")))
        pids = [c["check"] for c in meta.get("checks", [])] or [sid[:3]]
    except Exception:
        pids = [sid[:3]]
    r = subprocess.run([os.path.join(V, "tools/seed_eval.py"), os.path.join(d, "patch.diff")] + pids,
                       stdout=subprocess.PIPE, stderr=subprocess.STDOUT, text=True)
    res = []
    for line in r.stdout.splitlines():
        try:
            j = json.loads(line)
        except Exception:
            continue
        if "check" in j:
            res.append((j["check"], j.get("exit") == 1 and bool(j.get("violation_lines")), j.get("sigs"), [b[0] if isinstance(b, list) else str(b)[:40] for b in j.get("broken", [])]))
        elif "error" in j:
            res.append(("?", False, [j["error"]], []))
    # record the re-evaluation in the change's meta.json (the first evaluation stays under "checks")
    try:
        mp = os.path.join(d, "meta.json")
        meta = json.load(open(mp))
        head = subprocess.run(["git", "-C", V, "log", "--format=%h", "-1"], stdout=subprocess.PIPE, text=True).stdout.strip()
        meta["latest_evaluation"] = {"verif_commit": head,
                                     "repo_commit": subprocess.run(["git", "-C", "/repo", "log", "--format=%h", "-1"], stdout=subprocess.PIPE, text=True).stdout.strip(),
                                     "results": [{"check": c, "detected": det, "monitor_sigs": sigs, "broken_obligations": br} for (c, det, sigs, br) in res]}
        json.dump(meta, open(mp, "w"), indent=1)
    except Exception as e:
        print(f"{sid}: meta.json not updated: {e}", flush=True)
    return sid, res
dirs = sorted(d for d in glob.glob(os.path.join(V, "seeded", "C*")) if os.path.isdir(d))
if len(sys.argv) > 1:
    dirs = [d for d in dirs if os.path.basename(d) in sys.argv[1:] or os.path.basename(d)[:3] in sys.argv[1:]]
bad = 0
with cf.ThreadPoolExecutor(int(os.environ.get('SEED_PAR', '4'))) as ex:
    for sid, res in ex.map(one, dirs):
        for (c, det, sigs, br) in res:
            print(f"{sid} {c} detected={det} monitors={sigs} broken={br}", flush=True)
        if not any(det for (_, det, _, _) in res):
            bad += 1
            print(f"{sid} NOT DETECTED", flush=True)
sys.exit(1 if bad else 0)

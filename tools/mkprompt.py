#!/usr/bin/env python3
"""Print the prompt given to a fresh agent that writes independently seeded breaking changes
for one property (round 4). Usage: tools/mkprompt.py C07 [round-tag]
Only the property text and the mechanisms of EARLIER seeded changes (so that they are not
repeated) go into the prompt; nothing about /verif's checks."""
import json, sys, re, os
V = os.path.dirname(os.path.dirname(os.path.abspath(__file__)))
pid = sys.argv[1]; tag = sys.argv[2] if len(sys.argv) > 2 else "mut4"
p = [json.loads(l) for l in open(os.path.join(V, "properties.jsonl")) if l.strip()]
p = [x for x in p if x["id"] == pid][0]
prev = []
for line in open(os.path.join(V, "seeded", "README.md")):
    m = re.match(r"\| (C\d\d-\d+) \| ([^|]*) \| ([^|]*) \|", line)
    if m and m.group(1).startswith(pid):
        prev.append(f"   - {m.group(2).strip()}: {m.group(3).strip()}")
anch = p["anchors"]
files = anch["files"] if isinstance(anch, dict) else sorted({a["file"] if isinstance(a, dict) else str(a) for a in anch})
wt = f"/tmp/{tag}-{pid}"
n = int(os.environ.get("MUTANTS", "2"))
AIM = (f"Aim for TWO different mutants (different mechanism / different clause of the property), each as its own directory {wt}/MUTANT1 and {wt}/MUTANT2" if n == 2
       else f"Produce ONE mutant (you have about 20 minutes: pick the most promising idea quickly), as the directory {wt}/MUTANT1")
print(f"""You are given a scratch git worktree of the crossplane/crossplane repository and the text of one semantic property of that code base. Create your worktree first:  git -C /repo worktree add --detach {wt} HEAD   and work ONLY inside {wt}. Do not modify /repo itself. Do not read, list or use anything under /verif (it is off limits for this task).

Environment: no network. Use  export GOFLAGS=-mod=mod GOPROXY=off GOSUMDB=off GOTOOLCHAIN=local  in every shell. The repository builds and its unit tests pass offline. Other people run builds on this machine: keep to at most 4 parallel build/test jobs (go test -p 4).

PROPERTY {pid}: {p['title']}
Statement: {p['statement']}
Quantifier: {p['quantifier']['text']}
Code anchors (files): {', '.join(files)}

TASK: produce realistic changes ("mutants") to the crossplane source (non-test .go files only) that BREAK this property while
 (1) the tree still compiles (go build ./...),
 (2) the existing unit tests still pass, unedited (run at least the tests of every package you touched and of the packages that import them; say exactly what you ran),
 (3) the breakage needs something specific to manifest — a particular interleaving, a crash or API error at a particular point, a multi-step sequence of operations, an unusual input, or two cooperating sites that each look fine alone — NOT something ordinary use would expose at once. Think like a plausible but subtly wrong refactor or optimisation a maintainer could merge.
{AIM} containing:
  - patch.diff : `git diff` of the source change only (relative to the worktree HEAD), applying cleanly with `git apply` on a clean checkout of HEAD;
  - a demonstration: a new Go test file (copy it into the MUTANT dir as demo_test.go and say into which package directory it must be placed; its test function names must start with TestDemo) or a small program, which FAILS with the change applied and PASSES without it; it may use its own fakes/mocks; it must run offline; verify both directions yourself;
  - README.md : which clause of the property breaks, the mechanism, exactly what is needed for it to manifest, and the commands you ran (build, unit tests, demo with/without the patch) with their outcomes.
Leave the worktree in the clean HEAD state at the end (patches only inside the MUTANT dirs) and do not remove it. Your final message: a short summary of what you produced. Never use `git stash` (the stash is shared between all worktrees of /repo and other people work in theirs); use `git diff > file` and `git checkout -- .` instead.

ADDITIONAL GUIDANCE FOR THIS ROUND. Earlier rounds already produced the following changes for this property (clause broken: what it needed to manifest). Do NOT repeat these mechanisms or near variants of them:
{chr(10).join(prev) if prev else '   (none)'}
Also avoid the two most obvious families: dropping/weakening a single guard on the main path, and swapping two adjacent API calls. Prefer: a clause of the property none of the earlier changes touched; code in the anchored files (or helpers they call, including shared helpers in other packages of this repository) that the earlier changes did not touch; mechanisms such as a cache or memoisation that goes stale, an "optimisation" that skips work when something looks unchanged, a retry/conflict-handling path that keeps an earlier decision, error wrapping/classification that turns a failure into a success (or the reverse) only for a rare error class, state that leaks between loop iterations or between calls on one long-lived object, aliasing of maps/slices, a comparison or lookup key that drops a component (namespace, group, version, UID) or merges things that differ, an off-by-one at a boundary value, defaulting that differs between two code paths, or a deep-copy that is no longer deep. The change must be one a reviewer could plausibly approve.""")

#!/bin/bash
# usage: tools/sweep.sh "<seeds>" [props...]  -- runs quick checks on /repo for several seeds, prints non-passing ones
cd "$(dirname "$0")/.."
seeds=${1:-"1 2 3"}; shift
props=${@:-$(python3 -c "
import json,glob
for p in sorted(glob.glob('props/C*.json')):
    if json.load(open(p)).get('enabled'): print(p[6:9])
")}
for p in $props; do for s in $seeds; do
  out=$(VERIF_SEED=$s ./check $p quick 2>&1); rc=$?
  echo "$out" | tail -1 | cut -c1-250
  if [ $rc -ne 0 ]; then echo "$out" | grep -E "broken|VIOLATION" | head -5 | cut -c1-600; fi
done; done

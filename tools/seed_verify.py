#!/usr/bin/env python3
"""Verify an independently written breaking change and evaluate the checks on it.

  tools/seed_verify.py <mutant dir> <pkg dir for demo_test.go> <seeded id> <Cxx> [<Cyy> ...]

Steps (scratch worktree of /repo HEAD, removed afterwards):
  1. demo passes WITHOUT the patch, 2. patch applies and `go build ./...` works,
  3. existing unit tests of the demo package pass WITH the patch (demo absent),
  4. demo FAILS with the patch, 5. ./check <Cxx> quick on the patched tree.
Writes /verif/seeded/<seeded id>/{patch.diff, demo_test.go, README.md, meta.json}."""
import sys, os, subprocess, json, re, shutil, time, glob

V = os.path.dirname(os.path.dirname(os.path.abspath(__file__)))

def sh(cmd, **kw):
    return subprocess.run(cmd, stdout=subprocess.PIPE, stderr=subprocess.STDOUT, text=True, **kw)

def main():
    mdir, pkg, sid, pids = sys.argv[1], sys.argv[2], sys.argv[3], sys.argv[4:]
    env = dict(os.environ, GOFLAGS="-mod=mod", GOPROXY="off", GOSUMDB="off", GOTOOLCHAIN="local")
    tag = str(os.getpid())
    wt, vb = f"/tmp/sv-wt-{tag}", f"/tmp/sv-vb-{tag}"
    sh(["git", "-C", "/repo", "worktree", "add", "--detach", wt, "HEAD"])
    meta = {"seeded_id": sid, "source": mdir, "demo_package": pkg, "base_commit": sh(["git", "-C", "/repo", "log", "--format=%h", "-1"]).stdout.strip(), "ran": []}
    try:
        demos = sorted(glob.glob(os.path.join(mdir, "*_test.go")))
        def place():
            for d in demos:
                shutil.copy(d, os.path.join(wt, pkg, "zz_seeded_" + os.path.basename(d)))
        def unplace():
            for f in glob.glob(os.path.join(wt, pkg, "zz_seeded_*")):
                os.remove(f)
        names = []
        for d in demos:
            names += re.findall(r"^func (Test\w+)\(", open(d).read(), re.M)
        runpat = "^(" + "|".join(names) + ")$"
        place()
        r = sh(["go", "test", "-vet=off", "-count=1", "-run", runpat, "./" + pkg], cwd=wt, env=env)
        meta["demo_without_patch"] = "pass" if r.returncode == 0 else "FAIL"
        meta["ran"].append(f"go test -run '{runpat}' ./{pkg}  (clean HEAD) -> rc {r.returncode}")
        unplace()
        r = sh(["git", "-C", wt, "apply", os.path.join(mdir, "patch.diff")])
        meta["patch_applies"] = r.returncode == 0
        r = sh(["go", "build", "./..."], cwd=wt, env=env)
        meta["builds"] = r.returncode == 0
        changed = sh(["git", "-C", wt, "diff", "--name-only"]).stdout.split()
        pkgs = sorted({"./" + os.path.dirname(f) for f in changed if f.endswith(".go")} | {"./" + pkg})
        r = sh(["go", "test", "-vet=off", "-count=1"] + pkgs, cwd=wt, env=env)
        meta["unit_tests_with_patch"] = "pass" if r.returncode == 0 else "FAIL"
        meta["ran"].append(f"go test {' '.join(pkgs)}  (patched, demo absent) -> rc {r.returncode}")
        if r.returncode != 0:
            meta["unit_test_output"] = r.stdout[-1500:]
        place()
        r = sh(["go", "test", "-vet=off", "-count=1", "-run", runpat, "./" + pkg], cwd=wt, env=env)
        meta["demo_with_patch"] = "fail (as intended)" if r.returncode != 0 else "PASSES (demo does not show the break)"
        meta["ran"].append(f"go test -run '{runpat}' ./{pkg}  (patched) -> rc {r.returncode}")
        unplace()
        meta["checks"] = []
        for pid in pids:
            t = time.time()
            r = sh(["./check", pid, "quick"], cwd=V, env=dict(os.environ, VERIF_REPO=wt, VERIF_BUILD=vb, VERIF_SEED="1"))
            out = r.stdout
            sigs = sorted(set(re.findall(r"violation sig=([^\s:]+:[^\s:]+)", out)))
            broken = [list(x) for x in re.findall(r"\[check\] broken (\w+): (.{0,160})", out)][:3]
            last = [l for l in out.splitlines() if l.startswith("[check] " + pid)][-1:] or [""]
            meta["checks"].append({"check": pid, "exit": r.returncode, "detected": r.returncode != 0, "monitor_sigs": sigs,
                                   "broken_obligations": broken, "summary": last[0], "secs": round(time.time() - t)})
            meta["ran"].append(f"VERIF_REPO=<patched tree> ./check {pid} quick -> exit {r.returncode}")
    finally:
        sh(["git", "-C", "/repo", "worktree", "remove", "--force", wt])
        shutil.rmtree(vb, ignore_errors=True)
        sh(["git", "-C", "/repo", "worktree", "prune"])
    out = os.path.join(V, "seeded", sid)
    os.makedirs(out, exist_ok=True)
    for f in ["patch.diff", "README.md"] + [os.path.basename(d) for d in glob.glob(os.path.join(mdir, "*_test.go"))]:
        if os.path.exists(os.path.join(mdir, f)):
            shutil.copy(os.path.join(mdir, f), os.path.join(out, f))
    json.dump(meta, open(os.path.join(out, "meta.json"), "w"), indent=1)
    print(json.dumps({k: meta[k] for k in ("seeded_id", "demo_without_patch", "builds", "unit_tests_with_patch", "demo_with_patch")}))
    for c in meta["checks"]:
        print(json.dumps(c))

if __name__ == "__main__":
    main()

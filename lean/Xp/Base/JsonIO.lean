import Lean.Data.Json
import Xp.Base.Json
/-
Driver-side glue only (never used in a theorem): conversion between `Lean.Json`
and the model's `J`, canonical printing, and the stdin/stdout line loop.
-/
namespace Xp
open Lean (Json)

partial def J.ofJson : Json → J
  | .null => .null
  | .bool b => .bool b
  | .num n => if n.exponent == 0 then .num n.mantissa else .str s!"float:{n}"
  | .str s => .str s
  | .arr a => .arr (a.toList.map J.ofJson)
  | .obj o => .obj (o.toList.map fun (k, v) => (k, J.ofJson v))

partial def J.toJson : J → Json
  | .null => .null
  | .bool b => .bool b
  | .num i => .num (Lean.JsonNumber.fromInt i)
  | .str s => .str s
  | .arr a => .arr (a.map J.toJson).toArray
  | .obj o => Json.mkObj (o.map fun (k, v) => (k, J.toJson v))

namespace IOx

def str (j : Json) (k : String) : String := (j.getObjValAs? String k).toOption.getD ""
def nat (j : Json) (k : String) : Nat := (j.getObjValAs? Nat k).toOption.getD 0
def int (j : Json) (k : String) : Int := (j.getObjValAs? Int k).toOption.getD 0
def bool (j : Json) (k : String) : Bool := (j.getObjValAs? Bool k).toOption.getD false
def arr (j : Json) (k : String) : List Json :=
  match j.getObjVal? k with
  | .ok (.arr a) => a.toList
  | _ => []
def obj (j : Json) (k : String) : Json := (j.getObjVal? k).toOption.getD Json.null
def has (j : Json) (k : String) : Bool := match j.getObjVal? k with | .ok .null => false | .ok _ => true | _ => false
def strs (j : Json) (k : String) : List String := (arr j k).filterMap fun x => x.getStr?.toOption
def nats (j : Json) (k : String) : List Nat := (arr j k).filterMap fun x => x.getNat?.toOption
def optStr (j : Json) (k : String) : Option String := (j.getObjValAs? String k).toOption
def optBool (j : Json) (k : String) : Option Bool := (j.getObjValAs? Bool k).toOption
def optNat (j : Json) (k : String) : Option Nat := (j.getObjValAs? Nat k).toOption
def kvs (j : Json) (k : String) : List (String × Json) :=
  match j.getObjVal? k with
  | .ok (.obj o) => o.toList
  | _ => []

/-- Handler: scenario JSON → (observation JSON, property verdict, reason). -/
abbrev Handler := Json → Except String (Json × Bool × String)

partial def loop (h : IO.FS.Stream) (out : IO.FS.Stream) (f : Handler) : IO Unit := do
  let line ← h.getLine
  if line.isEmpty then return ()
  let t := line.trimAscii.toString
  if t.isEmpty then loop h out f else
  match Json.parse t with
  | .error e => out.putStrLn (Json.mkObj [("skip", .str s!"parse: {e}")]).compress
  | .ok j =>
    let i := (j.getObjVal? "i").toOption.getD Json.null
    match f (obj j "scn") with
    | .error e => out.putStrLn (Json.mkObj [("i", i), ("skip", .str e)]).compress
    | .ok (o, p, why) =>
      out.putStrLn (Json.mkObj [("i", i), ("out", o), ("prop", .bool p), ("why", .str why)]).compress
  loop h out f

end IOx
end Xp

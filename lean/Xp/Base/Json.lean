/-
A small JSON value type for models (no floats: numbers are integers; anything
else is carried as an opaque tagged string by the harness).
Objects are association lists; `get`/`set`/`erase` act on the first binding.
-/
namespace Xp

inductive J where
  | null
  | bool (b : Bool)
  | num (i : Int)
  | str (s : String)
  | arr (l : List J)
  | obj (l : List (String × J))
  deriving Repr, Inhabited

namespace J

mutual
def beq : J → J → Bool
  | .null, .null => true
  | .bool a, .bool b => a == b
  | .num a, .num b => a == b
  | .str a, .str b => a == b
  | .arr a, .arr b => beqList a b
  | .obj a, .obj b => beqFields a b
  | _, _ => false
def beqList : List J → List J → Bool
  | [], [] => true
  | x :: xs, y :: ys => beq x y && beqList xs ys
  | _, _ => false
def beqFields : List (String × J) → List (String × J) → Bool
  | [], [] => true
  | (k, x) :: xs, (k', y) :: ys => k == k' && beq x y && beqFields xs ys
  | _, _ => false
end

instance : BEq J := ⟨beq⟩

/-- association-list lookup -/
def lookup (k : String) : List (String × J) → Option J
  | [] => none
  | (k', v) :: rest => if k' = k then some v else lookup k rest

def eraseKey (k : String) : List (String × J) → List (String × J)
  | [] => []
  | (k', v) :: rest => if k' = k then eraseKey k rest else (k', v) :: eraseKey k rest

def setKey (k : String) (v : J) : List (String × J) → List (String × J)
  | [] => [(k, v)]
  | (k', v') :: rest => if k' = k then (k, v) :: rest else (k', v') :: setKey k v rest

def keys (l : List (String × J)) : List String := l.map (·.1)

def get? (j : J) (k : String) : Option J :=
  match j with
  | .obj l => lookup k l
  | _ => none

def fields : J → List (String × J)
  | .obj l => l
  | _ => []

def getStr? : J → Option String
  | .str s => some s
  | _ => none

def getNum? : J → Option Int
  | .num s => some s
  | _ => none

def getBool? : J → Option Bool
  | .bool s => some s
  | _ => none

def getArr : J → List J
  | .arr s => s
  | _ => []

theorem lookup_eraseKey_self (k : String) (l : List (String × J)) : lookup k (eraseKey k l) = none := by
  induction l with
  | nil => rfl
  | cons x xs ih =>
    obtain ⟨k', v⟩ := x
    unfold eraseKey
    split
    · exact ih
    · simp [lookup, *]

theorem lookup_eraseKey_ne (k k2 : String) (h : k2 ≠ k) (l : List (String × J)) :
    lookup k2 (eraseKey k l) = lookup k2 l := by
  induction l with
  | nil => rfl
  | cons x xs ih =>
    obtain ⟨k', v⟩ := x
    unfold eraseKey
    split
    · rename_i h'; subst h'; simp [lookup, ih, Ne.symm h]
    · simp [lookup, ih]

theorem lookup_setKey_self (k : String) (v : J) (l : List (String × J)) : lookup k (setKey k v l) = some v := by
  induction l with
  | nil => simp [setKey, lookup]
  | cons x xs ih =>
    obtain ⟨k', v'⟩ := x
    unfold setKey
    split
    · simp [lookup]
    · simp [lookup, *]

theorem lookup_setKey_ne (k k2 : String) (v : J) (h : k2 ≠ k) (l : List (String × J)) :
    lookup k2 (setKey k v l) = lookup k2 l := by
  induction l with
  | nil => simp [setKey, lookup, Ne.symm h]
  | cons x xs ih =>
    obtain ⟨k', v'⟩ := x
    unfold setKey
    split
    · rename_i h'; subst h'; simp [lookup, Ne.symm h]
    · simp [lookup, ih]

end J
end Xp

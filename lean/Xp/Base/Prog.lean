/-
Fault-plan semantics shared by every reconciler model.

A reconcile is a tree of API calls (`Prog`).  Running it under a *fault plan*
(`Nat → Outcome`, indexed by API-call number) yields the final store, the list of
every store visible at any instant (`reach`), and the optional result (none = the
process crashed).  Theorems quantify over the plan, which is what "for every call
index k and every outcome" means.
-/
namespace Xp

inductive Outcome where
  | ok          -- the call is applied and its reply delivered
  | fail        -- server error / timeout: not applied, controller sees an error
  | conflict    -- optimistic-concurrency conflict: not applied, controller sees Conflict
  | crashBefore -- process dies before the call takes effect
  | crashAfter  -- the call takes effect, the process dies before the reply
  deriving DecidableEq, Repr, Inhabited

abbrev Plan := Nat → Outcome

def Plan.allOk : Plan := fun _ => .ok

/-- fault at exactly call `k` -/
def Plan.at (k : Nat) (o : Outcome) : Plan := fun i => if i = k then o else .ok

inductive Prog (Req Resp α : Type) where
  | ret  : α → Prog Req Resp α
  | call : Req → (Resp → Prog Req Resp α) → Prog Req Resp α

namespace Prog
variable {Req Resp α β : Type}

def bind : Prog Req Resp α → (α → Prog Req Resp β) → Prog Req Resp β
  | .ret a, f => f a
  | .call r k, f => .call r (fun x => bind (k x) f)

instance : Monad (Prog Req Resp) where
  pure := .ret
  bind := bind

def api (r : Req) : Prog Req Resp Resp := .call r .ret

end Prog

/-- Semantics of the API server as seen by one program. -/
structure Sem (S Req Resp : Type) where
  exec : S → Req → S × Resp
  /-- reply the controller sees when the call was *not* applied -/
  errResp : Outcome → Req → Resp

variable {S Req Resp α : Type}

/-- Final store and result (`none` = crashed). -/
def run (sem : Sem S Req Resp) (plan : Plan) : Nat → Prog Req Resp α → S → S × Option α
  | _, .ret a, s => (s, some a)
  | k, .call r c, s =>
    match plan k with
    | .ok => run sem plan (k+1) (c (sem.exec s r).2) (sem.exec s r).1
    | .fail => run sem plan (k+1) (c (sem.errResp .fail r)) s
    | .conflict => run sem plan (k+1) (c (sem.errResp .conflict r)) s
    | .crashBefore => (s, none)
    | .crashAfter => ((sem.exec s r).1, none)

/-- Every store visible at some instant of the run, oldest first (includes the start). -/
def reach (sem : Sem S Req Resp) (plan : Plan) : Nat → Prog Req Resp α → S → List S
  | _, .ret _, s => [s]
  | k, .call r c, s =>
    match plan k with
    | .ok => s :: reach sem plan (k+1) (c (sem.exec s r).2) (sem.exec s r).1
    | .fail => reach sem plan (k+1) (c (sem.errResp .fail r)) s
    | .conflict => reach sem plan (k+1) (c (sem.errResp .conflict r)) s
    | .crashBefore => [s]
    | .crashAfter => [s, (sem.exec s r).1]

/-- The requests that were *applied* during the run, in order. -/
def applied (sem : Sem S Req Resp) (plan : Plan) : Nat → Prog Req Resp α → S → List Req
  | _, .ret _, _ => []
  | k, .call r c, s =>
    match plan k with
    | .ok => r :: applied sem plan (k+1) (c (sem.exec s r).2) (sem.exec s r).1
    | .fail => applied sem plan (k+1) (c (sem.errResp .fail r)) s
    | .conflict => applied sem plan (k+1) (c (sem.errResp .conflict r)) s
    | .crashBefore => []
    | .crashAfter => [r]

/-- number of API calls issued (attempted) -/
def calls (sem : Sem S Req Resp) (plan : Plan) : Nat → Prog Req Resp α → S → Nat
  | _, .ret _, _ => 0
  | k, .call r c, s =>
    match plan k with
    | .ok => 1 + calls sem plan (k+1) (c (sem.exec s r).2) (sem.exec s r).1
    | .fail => 1 + calls sem plan (k+1) (c (sem.errResp .fail r)) s
    | .conflict => 1 + calls sem plan (k+1) (c (sem.errResp .conflict r)) s
    | .crashBefore => 1
    | .crashAfter => 1

/-- One log entry per attempted call: the request, the plan's outcome and the reply
the controller saw (`none` when the process crashed). Used by the drivers to compare
the model's call sequence with the implementation's. -/
def callLog (sem : Sem S Req Resp) (plan : Plan) : Nat → Prog Req Resp α → S → List (Req × Outcome × Option Resp)
  | _, .ret _, _ => []
  | k, .call r c, s =>
    match plan k with
    | .ok => (r, .ok, some (sem.exec s r).2) :: callLog sem plan (k+1) (c (sem.exec s r).2) (sem.exec s r).1
    | .fail => (r, .fail, some (sem.errResp .fail r)) :: callLog sem plan (k+1) (c (sem.errResp .fail r)) s
    | .conflict => (r, .conflict, some (sem.errResp .conflict r)) :: callLog sem plan (k+1) (c (sem.errResp .conflict r)) s
    | .crashBefore => [(r, .crashBefore, none)]
    | .crashAfter => [(r, .crashAfter, none)]

theorem start_mem_reach (sem : Sem S Req Resp) (plan : Plan) (k : Nat) (p : Prog Req Resp α) (s : S) :
    ∃ l, reach sem plan k p s = s :: l := by
  induction p generalizing k s with
  | ret a => exact ⟨[], rfl⟩
  | call r c ih =>
    unfold reach
    split
    · exact ⟨_, rfl⟩
    · exact ih _ _ _
    · exact ih _ _ _
    · exact ⟨[], rfl⟩
    · exact ⟨_, rfl⟩

/-- The final store is the last reachable store. -/
theorem run_mem_reach (sem : Sem S Req Resp) (plan : Plan) (k : Nat) (p : Prog Req Resp α) (s : S) :
    (run sem plan k p s).1 ∈ reach sem plan k p s := by
  induction p generalizing k s with
  | ret a => simp [run, reach]
  | call r c ih =>
    unfold run reach
    split
    · exact List.mem_cons_of_mem _ (ih _ _ _)
    · exact ih _ _ _
    · exact ih _ _ _
    · simp
    · simp

/-- `Issues Q p`: every request `p` can ever issue satisfies `Q`. -/
inductive Issues (Q : Req → Prop) : Prog Req Resp α → Prop where
  | ret (a : α) : Issues Q (.ret a)
  | call (r : Req) (c : Resp → Prog Req Resp α) : Q r → (∀ x, Issues Q (c x)) → Issues Q (.call r c)

/-- Generic invariant lemma: if every request of class `Q` preserves `Inv`, then a
program that only issues `Q`-requests keeps `Inv` at every instant under every plan. -/
theorem reach_inv (sem : Sem S Req Resp) (Inv : S → Prop) (Q : Req → Prop)
    (hstep : ∀ s r, Inv s → Q r → Inv (sem.exec s r).1)
    (plan : Plan) (k : Nat) (p : Prog Req Resp α) (hp : Issues Q p) (s : S) (hs : Inv s) :
    ∀ s' ∈ reach sem plan k p s, Inv s' := by
  induction hp generalizing k s with
  | ret a => intro s' h; simp [reach] at h; subst h; exact hs
  | call r c hq _ ih =>
    intro s' h
    unfold reach at h
    split at h
    · cases List.mem_cons.mp h with
      | inl e => subst e; exact hs
      | inr h' => exact ih _ _ _ (hstep s r hs hq) s' h'
    · exact ih _ _ _ hs s' h
    · exact ih _ _ _ hs s' h
    · simp at h; subst h; exact hs
    · simp at h; rcases h with h | h
      · subst h; exact hs
      · subst h; exact hstep s r hs hq

/-- State-dependent form: `Safe p s` says "running `p` from `s` only ever applies
requests that preserve `Inv`", defined by recursion so that knowledge gathered
from earlier replies can be used. -/
def Safe (sem : Sem S Req Resp) (Inv : S → Prop) : Prog Req Resp α → S → Prop
  | .ret _, _ => True
  | .call r c, s =>
      Inv (sem.exec s r).1 ∧ Safe sem Inv (c (sem.exec s r).2) (sem.exec s r).1 ∧
      Safe sem Inv (c (sem.errResp .fail r)) s ∧ Safe sem Inv (c (sem.errResp .conflict r)) s

theorem reach_safe (sem : Sem S Req Resp) (Inv : S → Prop)
    (plan : Plan) (k : Nat) (p : Prog Req Resp α) (s : S) (hs : Inv s) (hp : Safe sem Inv p s) :
    ∀ s' ∈ reach sem plan k p s, Inv s' := by
  induction p generalizing k s with
  | ret a => intro s' h; simp [reach] at h; subst h; exact hs
  | call r c ih =>
    obtain ⟨h1, h2, h3, h4⟩ := hp
    intro s' h
    unfold reach at h
    split at h
    · cases List.mem_cons.mp h with
      | inl e => subst e; exact hs
      | inr h' => exact ih _ _ _ h1 h2 s' h'
    · exact ih _ _ _ hs h3 s' h
    · exact ih _ _ _ hs h4 s' h
    · simp at h; subst h; exact hs
    · simp at h; rcases h with h | h
      · subst h; exact hs
      · subst h; exact h1

/-- A history is a list of (plan, program) pairs run one after the other on the
store; controller-local state is lost between them (restart / requeue). -/
def runHistory (sem : Sem S Req Resp) : List (Plan × Prog Req Resp α) → S → S
  | [], s => s
  | (pl, p) :: rest, s => runHistory sem rest (run sem pl 0 p s).1

def reachHistory (sem : Sem S Req Resp) : List (Plan × Prog Req Resp α) → S → List S
  | [], s => [s]
  | (pl, p) :: rest, s => reach sem pl 0 p s ++ reachHistory sem rest (run sem pl 0 p s).1

theorem reachHistory_inv (sem : Sem S Req Resp) (Inv : S → Prop)
    (hrec : ∀ (pl : Plan) (p : Prog Req Resp α) (s : S), Inv s → ∀ s' ∈ reach sem pl 0 p s, Inv s')
    (h : List (Plan × Prog Req Resp α)) (s : S) (hs : Inv s) :
    ∀ s' ∈ reachHistory sem h s, Inv s' := by
  induction h generalizing s with
  | nil => intro s' hm; simp [reachHistory] at hm; subst hm; exact hs
  | cons x rest ih =>
    obtain ⟨pl, p⟩ := x
    intro s' hm
    simp only [reachHistory, List.mem_append] at hm
    rcases hm with hm | hm
    · exact hrec pl p s hs s' hm
    · exact ih _ (hrec pl p s hs _ (run_mem_reach sem pl 0 p s)) s' hm

/-! ### Interference by other clients of the API server (rely / guarantee)

`Env` is what OTHER clients do to the store right before API call `k` of the program
(a concurrent replica of the same controller, another controller, an operator). `runE`
is `run` with that interference; `run` is the special case `Env.none` (`runE_none`).
`ownE` lists the program's own applied calls together with the store at the moment
each was applied, so that guarantees can be stated about the program's own writes.
Nothing above this line depends on anything below. -/

abbrev Env (S : Type) := Nat → S → S

/-- no interference -/
def Env.none : Env S := fun _ s => s

/-- Final store and result under interference `env` and fault plan `plan`. -/
def runE (sem : Sem S Req Resp) (env : Env S) (plan : Plan) : Nat → Prog Req Resp α → S → S × Option α
  | _, .ret a, s => (s, some a)
  | k, .call r c, s =>
    match plan k with
    | .ok => runE sem env plan (k+1) (c (sem.exec (env k s) r).2) (sem.exec (env k s) r).1
    | .fail => runE sem env plan (k+1) (c (sem.errResp .fail r)) (env k s)
    | .conflict => runE sem env plan (k+1) (c (sem.errResp .conflict r)) (env k s)
    | .crashBefore => (env k s, none)
    | .crashAfter => ((sem.exec (env k s) r).1, none)

/-- The program's own applied calls: (store at the moment of the call, request), in order. -/
def ownE (sem : Sem S Req Resp) (env : Env S) (plan : Plan) : Nat → Prog Req Resp α → S → List (S × Req)
  | _, .ret _, _ => []
  | k, .call r c, s =>
    match plan k with
    | .ok => (env k s, r) :: ownE sem env plan (k+1) (c (sem.exec (env k s) r).2) (sem.exec (env k s) r).1
    | .fail => ownE sem env plan (k+1) (c (sem.errResp .fail r)) (env k s)
    | .conflict => ownE sem env plan (k+1) (c (sem.errResp .conflict r)) (env k s)
    | .crashBefore => []
    | .crashAfter => [(env k s, r)]

/-- One log entry per attempted call under interference (request, outcome, reply). -/
def callLogE (sem : Sem S Req Resp) (env : Env S) (plan : Plan) : Nat → Prog Req Resp α → S → List (Req × Outcome × Option Resp)
  | _, .ret _, _ => []
  | k, .call r c, s =>
    match plan k with
    | .ok => (r, .ok, some (sem.exec (env k s) r).2) :: callLogE sem env plan (k+1) (c (sem.exec (env k s) r).2) (sem.exec (env k s) r).1
    | .fail => (r, .fail, some (sem.errResp .fail r)) :: callLogE sem env plan (k+1) (c (sem.errResp .fail r)) (env k s)
    | .conflict => (r, .conflict, some (sem.errResp .conflict r)) :: callLogE sem env plan (k+1) (c (sem.errResp .conflict r)) (env k s)
    | .crashBefore => [(r, .crashBefore, none)]
    | .crashAfter => [(r, .crashAfter, none)]

section envEqns
variable (sem : Sem S Req Resp) (env : Env S) (plan : Plan) (k : Nat) (r : Req) (c : Resp → Prog Req Resp α) (s : S)

theorem runE_ok (h : plan k = .ok) : runE sem env plan k (.call r c) s =
    runE sem env plan (k+1) (c (sem.exec (env k s) r).2) (sem.exec (env k s) r).1 := by simp [runE, h]
theorem runE_fail (h : plan k = .fail) : runE sem env plan k (.call r c) s =
    runE sem env plan (k+1) (c (sem.errResp .fail r)) (env k s) := by simp [runE, h]
theorem runE_conflict (h : plan k = .conflict) : runE sem env plan k (.call r c) s =
    runE sem env plan (k+1) (c (sem.errResp .conflict r)) (env k s) := by simp [runE, h]
theorem runE_crashBefore (h : plan k = .crashBefore) : runE sem env plan k (.call r c) s = (env k s, none) := by
  simp [runE, h]
theorem runE_crashAfter (h : plan k = .crashAfter) : runE sem env plan k (.call r c) s =
    ((sem.exec (env k s) r).1, none) := by simp [runE, h]

theorem ownE_ok (h : plan k = .ok) : ownE sem env plan k (.call r c) s =
    (env k s, r) :: ownE sem env plan (k+1) (c (sem.exec (env k s) r).2) (sem.exec (env k s) r).1 := by simp [ownE, h]
theorem ownE_fail (h : plan k = .fail) : ownE sem env plan k (.call r c) s =
    ownE sem env plan (k+1) (c (sem.errResp .fail r)) (env k s) := by simp [ownE, h]
theorem ownE_conflict (h : plan k = .conflict) : ownE sem env plan k (.call r c) s =
    ownE sem env plan (k+1) (c (sem.errResp .conflict r)) (env k s) := by simp [ownE, h]
theorem ownE_crashBefore (h : plan k = .crashBefore) : ownE sem env plan k (.call r c) s = [] := by
  simp [ownE, h]
theorem ownE_crashAfter (h : plan k = .crashAfter) : ownE sem env plan k (.call r c) s = [(env k s, r)] := by
  simp [ownE, h]
end envEqns

/-- Without interference `runE` is `run`: every statement about `run` is the `Env.none` case. -/
theorem runE_none (sem : Sem S Req Resp) (plan : Plan) (k : Nat) (p : Prog Req Resp α) (s : S) :
    runE sem Env.none plan k p s = run sem plan k p s := by
  induction p generalizing k s with
  | ret a => rfl
  | call r c ih =>
    cases hk : plan k <;> simp [runE, run, hk, Env.none, ih] <;> exact ih _ _ _

/-- Without interference the own applied calls are exactly `applied`. -/
theorem ownE_none (sem : Sem S Req Resp) (plan : Plan) (k : Nat) (p : Prog Req Resp α) (s : S) :
    (ownE sem Env.none plan k p s).map (·.2) = applied sem plan k p s := by
  induction p generalizing k s with
  | ret a => rfl
  | call r c ih =>
    cases hk : plan k <;> simp [ownE, applied, hk, Env.none, ih] <;> exact ih _ _ _

/-- Every own applied call of a program that only issues `Q`-requests is a `Q`-request,
whatever the environment does. -/
theorem ownE_issues (sem : Sem S Req Resp) (Q : Req → Prop) (env : Env S) (plan : Plan) (k : Nat)
    (p : Prog Req Resp α) (hp : Issues Q p) (s : S) : ∀ x ∈ ownE sem env plan k p s, Q x.2 := by
  induction hp generalizing k s with
  | ret a => intro x h; simp [ownE] at h
  | call r c hq _ ih =>
    intro x h
    cases hk : plan k with
    | ok =>
      rw [ownE_ok sem env plan k r c s hk] at h
      cases List.mem_cons.mp h with
      | inl e => subst e; exact hq
      | inr h' => exact ih _ _ _ x h'
    | fail => rw [ownE_fail sem env plan k r c s hk] at h; exact ih _ _ _ x h
    | conflict => rw [ownE_conflict sem env plan k r c s hk] at h; exact ih _ _ _ x h
    | crashBefore => rw [ownE_crashBefore sem env plan k r c s hk] at h; simp at h
    | crashAfter =>
      rw [ownE_crashAfter sem env plan k r c s hk] at h
      simp at h; subst h; exact hq

/-- Rely/guarantee for a preorder `Rel` on stores: if every own `Q`-request moves the store along
`Rel` (guarantee) and so does every action of the environment (rely), then the final store is
`Rel`-above the start, above the store at the moment of every own call, and above its result. -/
theorem runE_rel (sem : Sem S Req Resp) (Rel : S → S → Prop) (hrefl : ∀ s, Rel s s)
    (htrans : ∀ a b c, Rel a b → Rel b c → Rel a c)
    (Q : Req → Prop) (hstep : ∀ s r, Q r → Rel s (sem.exec s r).1)
    (env : Env S) (henv : ∀ k s, Rel s (env k s))
    (plan : Plan) (k : Nat) (p : Prog Req Resp α) (hp : Issues Q p) (s : S) :
    Rel s (runE sem env plan k p s).1 ∧
    ∀ x ∈ ownE sem env plan k p s, Rel s x.1 ∧ Rel (sem.exec x.1 x.2).1 (runE sem env plan k p s).1 := by
  induction hp generalizing k s with
  | ret a => exact ⟨hrefl s, by intro x h; simp [ownE] at h⟩
  | call r c hq _ ih =>
    cases hk : plan k with
    | ok =>
      rw [runE_ok sem env plan k r c s hk, ownE_ok sem env plan k r c s hk]
      obtain ⟨h1, h2⟩ := ih (sem.exec (env k s) r).2 (k+1) (sem.exec (env k s) r).1
      have hs : Rel s (sem.exec (env k s) r).1 := htrans _ _ _ (henv k s) (hstep _ r hq)
      refine ⟨htrans _ _ _ hs h1, ?_⟩
      intro x hx
      cases List.mem_cons.mp hx with
      | inl e => subst e; exact ⟨henv k s, h1⟩
      | inr hx' => exact ⟨htrans _ _ _ hs (h2 x hx').1, (h2 x hx').2⟩
    | fail =>
      rw [runE_fail sem env plan k r c s hk, ownE_fail sem env plan k r c s hk]
      obtain ⟨h1, h2⟩ := ih (sem.errResp .fail r) (k+1) (env k s)
      exact ⟨htrans _ _ _ (henv k s) h1, fun x hx => ⟨htrans _ _ _ (henv k s) (h2 x hx).1, (h2 x hx).2⟩⟩
    | conflict =>
      rw [runE_conflict sem env plan k r c s hk, ownE_conflict sem env plan k r c s hk]
      obtain ⟨h1, h2⟩ := ih (sem.errResp .conflict r) (k+1) (env k s)
      exact ⟨htrans _ _ _ (henv k s) h1, fun x hx => ⟨htrans _ _ _ (henv k s) (h2 x hx).1, (h2 x hx).2⟩⟩
    | crashBefore =>
      rw [runE_crashBefore sem env plan k r c s hk, ownE_crashBefore sem env plan k r c s hk]
      exact ⟨henv k s, by intro x h; simp at h⟩
    | crashAfter =>
      rw [runE_crashAfter sem env plan k r c s hk, ownE_crashAfter sem env plan k r c s hk]
      refine ⟨htrans _ _ _ (henv k s) (hstep _ r hq), ?_⟩
      intro x hx
      simp at hx; subst hx
      exact ⟨henv k s, hrefl _⟩

/-- Invariant form: kept by own `Q`-requests and by the environment, hence true of the final store. -/
theorem runE_inv (sem : Sem S Req Resp) (Inv : S → Prop) (Q : Req → Prop)
    (hstep : ∀ s r, Inv s → Q r → Inv (sem.exec s r).1)
    (env : Env S) (henv : ∀ k s, Inv s → Inv (env k s))
    (plan : Plan) (k : Nat) (p : Prog Req Resp α) (hp : Issues Q p) (s : S) (hs : Inv s) :
    Inv (runE sem env plan k p s).1 := by
  induction hp generalizing k s with
  | ret a => exact hs
  | call r c hq _ ih =>
    cases hk : plan k with
    | ok => rw [runE_ok sem env plan k r c s hk]; exact ih _ _ _ (hstep _ r (henv k s hs) hq)
    | fail => rw [runE_fail sem env plan k r c s hk]; exact ih _ _ _ (henv k s hs)
    | conflict => rw [runE_conflict sem env plan k r c s hk]; exact ih _ _ _ (henv k s hs)
    | crashBefore => rw [runE_crashBefore sem env plan k r c s hk]; exact henv k s hs
    | crashAfter => rw [runE_crashAfter sem env plan k r c s hk]; exact hstep _ r (henv k s hs) hq

/-- Rely/guarantee weakest precondition. `WpE sem R G p Q s`: from `s`, whatever an environment
obeying the rely `R` does before each call and whatever the fault plan, every own call of `p`
satisfies the guarantee `G` (store at that moment, request) and a returned result satisfies `Q`. -/
def WpE (sem : Sem S Req Resp) (R : S → S → Prop) (G : S → Req → Prop) :
    Prog Req Resp α → (S → α → Prop) → S → Prop
  | .ret a, Q, s => Q s a
  | .call r c, Q, s => ∀ s', R s s' →
      G s' r ∧ WpE sem R G (c (sem.exec s' r).2) Q (sem.exec s' r).1 ∧
      WpE sem R G (c (sem.errResp .fail r)) Q s' ∧ WpE sem R G (c (sem.errResp .conflict r)) Q s'

theorem wpE_sound (sem : Sem S Req Resp) (R : S → S → Prop) (G : S → Req → Prop)
    (env : Env S) (henv : ∀ k s, R s (env k s)) (plan : Plan) (k : Nat)
    (p : Prog Req Resp α) (Q : S → α → Prop) (s : S) (h : WpE sem R G p Q s) :
    (∀ x ∈ ownE sem env plan k p s, G x.1 x.2) ∧
    (∀ a, (runE sem env plan k p s).2 = some a → Q (runE sem env plan k p s).1 a) := by
  induction p generalizing k s with
  | ret a =>
    refine ⟨by intro x hx; simp [ownE] at hx, ?_⟩
    intro b hb
    simp [runE] at hb ⊢
    subst hb; exact h
  | call r c ih =>
    obtain ⟨hg, h1, h2, h3⟩ := h (env k s) (henv k s)
    cases hk : plan k with
    | ok =>
      rw [runE_ok sem env plan k r c s hk, ownE_ok sem env plan k r c s hk]
      obtain ⟨i1, i2⟩ := ih _ (k+1) _ h1
      refine ⟨?_, i2⟩
      intro x hx
      cases List.mem_cons.mp hx with
      | inl e => subst e; exact hg
      | inr hx' => exact i1 x hx'
    | fail =>
      rw [runE_fail sem env plan k r c s hk, ownE_fail sem env plan k r c s hk]
      exact ih _ (k+1) _ h2
    | conflict =>
      rw [runE_conflict sem env plan k r c s hk, ownE_conflict sem env plan k r c s hk]
      exact ih _ (k+1) _ h3
    | crashBefore =>
      rw [runE_crashBefore sem env plan k r c s hk, ownE_crashBefore sem env plan k r c s hk]
      exact ⟨by intro x hx; simp at hx, by intro a ha; simp at ha⟩
    | crashAfter =>
      rw [runE_crashAfter sem env plan k r c s hk, ownE_crashAfter sem env plan k r c s hk]
      refine ⟨?_, by intro a ha; simp at ha⟩
      intro x hx
      simp at hx; subst hx; exact hg

theorem wpE_mono (sem : Sem S Req Resp) (R : S → S → Prop) (G G' : S → Req → Prop)
    (hG : ∀ s r, G s r → G' s r) (p : Prog Req Resp α) (Q Q' : S → α → Prop)
    (hQ : ∀ s a, Q s a → Q' s a) (s : S) (h : WpE sem R G p Q s) : WpE sem R G' p Q' s := by
  induction p generalizing s with
  | ret a => exact hQ _ _ h
  | call r c ih =>
    intro s' hr
    obtain ⟨hg, h1, h2, h3⟩ := h s' hr
    exact ⟨hG _ _ hg, ih _ _ h1, ih _ _ h2, ih _ _ h3⟩

theorem wpE_bind {β : Type} (sem : Sem S Req Resp) (R : S → S → Prop) (G : S → Req → Prop)
    (p : Prog Req Resp α) (f : α → Prog Req Resp β) (Q : S → β → Prop) (s : S)
    (h : WpE sem R G p (fun s a => WpE sem R G (f a) Q s) s) : WpE sem R G (Prog.bind p f) Q s := by
  induction p generalizing s with
  | ret a => exact h
  | call r c ih =>
    intro s' hr
    obtain ⟨hg, h1, h2, h3⟩ := h s' hr
    exact ⟨hg, ih _ _ h1, ih _ _ h2, ih _ _ h3⟩

/-- A program that only issues `Qr`-requests keeps every invariant that `Qr`-requests and the
rely keep; at every own call the invariant holds of the store at that moment. -/
theorem wpE_of_issues (sem : Sem S Req Resp) (R : S → S → Prop) (Inv : S → Prop) (Qr : Req → Prop)
    (hstep : ∀ s r, Inv s → Qr r → Inv (sem.exec s r).1) (hrely : ∀ s s', Inv s → R s s' → Inv s')
    (p : Prog Req Resp α) (hp : Issues Qr p) (s : S) (hs : Inv s) :
    WpE sem R (fun s r => Inv s ∧ Qr r) p (fun s _ => Inv s) s := by
  induction hp generalizing s with
  | ret a => exact hs
  | call r c hq _ ih =>
    intro s' hr
    have hs' := hrely s s' hs hr
    exact ⟨⟨hs', hq⟩, ih _ _ (hstep _ r hs' hq), ih _ _ hs', ih _ _ hs'⟩

end Xp

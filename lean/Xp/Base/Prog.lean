/-
Fault-plan semantics shared by every reconciler model.

A reconcile is a tree of API calls (`Prog`).  Running it under a *fault plan*
(`Nat → Outcome`, indexed by API-call number) yields the final store, the list of
every store visible at any instant (`reach`), and the optional result (none = the
process crashed).  Theorems quantify over the plan, which is what "for every call
index k and every outcome" means.
-/
namespace Xp

inductive Outcome where
  | ok          -- the call is applied and its reply delivered
  | fail        -- server error / timeout: not applied, controller sees an error
  | conflict    -- optimistic-concurrency conflict: not applied, controller sees Conflict
  | crashBefore -- process dies before the call takes effect
  | crashAfter  -- the call takes effect, the process dies before the reply
  deriving DecidableEq, Repr, Inhabited

abbrev Plan := Nat → Outcome

def Plan.allOk : Plan := fun _ => .ok

/-- fault at exactly call `k` -/
def Plan.at (k : Nat) (o : Outcome) : Plan := fun i => if i = k then o else .ok

inductive Prog (Req Resp α : Type) where
  | ret  : α → Prog Req Resp α
  | call : Req → (Resp → Prog Req Resp α) → Prog Req Resp α

namespace Prog
variable {Req Resp α β : Type}

def bind : Prog Req Resp α → (α → Prog Req Resp β) → Prog Req Resp β
  | .ret a, f => f a
  | .call r k, f => .call r (fun x => bind (k x) f)

instance : Monad (Prog Req Resp) where
  pure := .ret
  bind := bind

def api (r : Req) : Prog Req Resp Resp := .call r .ret

end Prog

/-- Semantics of the API server as seen by one program. -/
structure Sem (S Req Resp : Type) where
  exec : S → Req → S × Resp
  /-- reply the controller sees when the call was *not* applied -/
  errResp : Outcome → Req → Resp

variable {S Req Resp α : Type}

/-- Final store and result (`none` = crashed). -/
def run (sem : Sem S Req Resp) (plan : Plan) : Nat → Prog Req Resp α → S → S × Option α
  | _, .ret a, s => (s, some a)
  | k, .call r c, s =>
    match plan k with
    | .ok => run sem plan (k+1) (c (sem.exec s r).2) (sem.exec s r).1
    | .fail => run sem plan (k+1) (c (sem.errResp .fail r)) s
    | .conflict => run sem plan (k+1) (c (sem.errResp .conflict r)) s
    | .crashBefore => (s, none)
    | .crashAfter => ((sem.exec s r).1, none)

/-- Every store visible at some instant of the run, oldest first (includes the start). -/
def reach (sem : Sem S Req Resp) (plan : Plan) : Nat → Prog Req Resp α → S → List S
  | _, .ret _, s => [s]
  | k, .call r c, s =>
    match plan k with
    | .ok => s :: reach sem plan (k+1) (c (sem.exec s r).2) (sem.exec s r).1
    | .fail => reach sem plan (k+1) (c (sem.errResp .fail r)) s
    | .conflict => reach sem plan (k+1) (c (sem.errResp .conflict r)) s
    | .crashBefore => [s]
    | .crashAfter => [s, (sem.exec s r).1]

/-- The requests that were *applied* during the run, in order. -/
def applied (sem : Sem S Req Resp) (plan : Plan) : Nat → Prog Req Resp α → S → List Req
  | _, .ret _, _ => []
  | k, .call r c, s =>
    match plan k with
    | .ok => r :: applied sem plan (k+1) (c (sem.exec s r).2) (sem.exec s r).1
    | .fail => applied sem plan (k+1) (c (sem.errResp .fail r)) s
    | .conflict => applied sem plan (k+1) (c (sem.errResp .conflict r)) s
    | .crashBefore => []
    | .crashAfter => [r]

/-- number of API calls issued (attempted) -/
def calls (sem : Sem S Req Resp) (plan : Plan) : Nat → Prog Req Resp α → S → Nat
  | _, .ret _, _ => 0
  | k, .call r c, s =>
    match plan k with
    | .ok => 1 + calls sem plan (k+1) (c (sem.exec s r).2) (sem.exec s r).1
    | .fail => 1 + calls sem plan (k+1) (c (sem.errResp .fail r)) s
    | .conflict => 1 + calls sem plan (k+1) (c (sem.errResp .conflict r)) s
    | .crashBefore => 1
    | .crashAfter => 1

/-- One log entry per attempted call: the request, the plan's outcome and the reply
the controller saw (`none` when the process crashed). Used by the drivers to compare
the model's call sequence with the implementation's. -/
def callLog (sem : Sem S Req Resp) (plan : Plan) : Nat → Prog Req Resp α → S → List (Req × Outcome × Option Resp)
  | _, .ret _, _ => []
  | k, .call r c, s =>
    match plan k with
    | .ok => (r, .ok, some (sem.exec s r).2) :: callLog sem plan (k+1) (c (sem.exec s r).2) (sem.exec s r).1
    | .fail => (r, .fail, some (sem.errResp .fail r)) :: callLog sem plan (k+1) (c (sem.errResp .fail r)) s
    | .conflict => (r, .conflict, some (sem.errResp .conflict r)) :: callLog sem plan (k+1) (c (sem.errResp .conflict r)) s
    | .crashBefore => [(r, .crashBefore, none)]
    | .crashAfter => [(r, .crashAfter, none)]

theorem start_mem_reach (sem : Sem S Req Resp) (plan : Plan) (k : Nat) (p : Prog Req Resp α) (s : S) :
    ∃ l, reach sem plan k p s = s :: l := by
  induction p generalizing k s with
  | ret a => exact ⟨[], rfl⟩
  | call r c ih =>
    unfold reach
    split
    · exact ⟨_, rfl⟩
    · exact ih _ _ _
    · exact ih _ _ _
    · exact ⟨[], rfl⟩
    · exact ⟨_, rfl⟩

/-- The final store is the last reachable store. -/
theorem run_mem_reach (sem : Sem S Req Resp) (plan : Plan) (k : Nat) (p : Prog Req Resp α) (s : S) :
    (run sem plan k p s).1 ∈ reach sem plan k p s := by
  induction p generalizing k s with
  | ret a => simp [run, reach]
  | call r c ih =>
    unfold run reach
    split
    · exact List.mem_cons_of_mem _ (ih _ _ _)
    · exact ih _ _ _
    · exact ih _ _ _
    · simp
    · simp

/-- `Issues Q p`: every request `p` can ever issue satisfies `Q`. -/
inductive Issues (Q : Req → Prop) : Prog Req Resp α → Prop where
  | ret (a : α) : Issues Q (.ret a)
  | call (r : Req) (c : Resp → Prog Req Resp α) : Q r → (∀ x, Issues Q (c x)) → Issues Q (.call r c)

/-- Generic invariant lemma: if every request of class `Q` preserves `Inv`, then a
program that only issues `Q`-requests keeps `Inv` at every instant under every plan. -/
theorem reach_inv (sem : Sem S Req Resp) (Inv : S → Prop) (Q : Req → Prop)
    (hstep : ∀ s r, Inv s → Q r → Inv (sem.exec s r).1)
    (plan : Plan) (k : Nat) (p : Prog Req Resp α) (hp : Issues Q p) (s : S) (hs : Inv s) :
    ∀ s' ∈ reach sem plan k p s, Inv s' := by
  induction hp generalizing k s with
  | ret a => intro s' h; simp [reach] at h; subst h; exact hs
  | call r c hq _ ih =>
    intro s' h
    unfold reach at h
    split at h
    · cases List.mem_cons.mp h with
      | inl e => subst e; exact hs
      | inr h' => exact ih _ _ _ (hstep s r hs hq) s' h'
    · exact ih _ _ _ hs s' h
    · exact ih _ _ _ hs s' h
    · simp at h; subst h; exact hs
    · simp at h; rcases h with h | h
      · subst h; exact hs
      · subst h; exact hstep s r hs hq

/-- State-dependent form: `Safe p s` says "running `p` from `s` only ever applies
requests that preserve `Inv`", defined by recursion so that knowledge gathered
from earlier replies can be used. -/
def Safe (sem : Sem S Req Resp) (Inv : S → Prop) : Prog Req Resp α → S → Prop
  | .ret _, _ => True
  | .call r c, s =>
      Inv (sem.exec s r).1 ∧ Safe sem Inv (c (sem.exec s r).2) (sem.exec s r).1 ∧
      Safe sem Inv (c (sem.errResp .fail r)) s ∧ Safe sem Inv (c (sem.errResp .conflict r)) s

theorem reach_safe (sem : Sem S Req Resp) (Inv : S → Prop)
    (plan : Plan) (k : Nat) (p : Prog Req Resp α) (s : S) (hs : Inv s) (hp : Safe sem Inv p s) :
    ∀ s' ∈ reach sem plan k p s, Inv s' := by
  induction p generalizing k s with
  | ret a => intro s' h; simp [reach] at h; subst h; exact hs
  | call r c ih =>
    obtain ⟨h1, h2, h3, h4⟩ := hp
    intro s' h
    unfold reach at h
    split at h
    · cases List.mem_cons.mp h with
      | inl e => subst e; exact hs
      | inr h' => exact ih _ _ _ h1 h2 s' h'
    · exact ih _ _ _ hs h3 s' h
    · exact ih _ _ _ hs h4 s' h
    · simp at h; subst h; exact hs
    · simp at h; rcases h with h | h
      · subst h; exact hs
      · subst h; exact h1

/-- A history is a list of (plan, program) pairs run one after the other on the
store; controller-local state is lost between them (restart / requeue). -/
def runHistory (sem : Sem S Req Resp) : List (Plan × Prog Req Resp α) → S → S
  | [], s => s
  | (pl, p) :: rest, s => runHistory sem rest (run sem pl 0 p s).1

def reachHistory (sem : Sem S Req Resp) : List (Plan × Prog Req Resp α) → S → List S
  | [], s => [s]
  | (pl, p) :: rest, s => reach sem pl 0 p s ++ reachHistory sem rest (run sem pl 0 p s).1

theorem reachHistory_inv (sem : Sem S Req Resp) (Inv : S → Prop)
    (hrec : ∀ (pl : Plan) (p : Prog Req Resp α) (s : S), Inv s → ∀ s' ∈ reach sem pl 0 p s, Inv s')
    (h : List (Plan × Prog Req Resp α)) (s : S) (hs : Inv s) :
    ∀ s' ∈ reachHistory sem h s, Inv s' := by
  induction h generalizing s with
  | nil => intro s' hm; simp [reachHistory] at hm; subst hm; exact hs
  | cons x rest ih =>
    obtain ⟨pl, p⟩ := x
    intro s' hm
    simp only [reachHistory, List.mem_append] at hm
    rcases hm with hm | hm
    · exact hrec pl p s hs s' hm
    · exact ih _ (hrec pl p s hs _ (run_mem_reach sem pl 0 p s)) s' hm

end Xp

/-
C13 — dynamic controllers and watches under any interleaving.

Executable lock-granularity model of
  internal/engine/engine.go   (ControllerEngine: Start, Stop, IsRunning, StartWatches,
                               StopWatches, GetWatches)
  internal/engine/source.go   (StoppableSource.Start / Stop)
  internal/engine/cache.go    (InformerTrackingCache: ActiveInformers, GetInformer,
                               RemoveInformer — each a single linearisable step, see below;
                               Model/C13Cache.lean models its lock dance step by step and
                               Proofs/C13j.lean proves that it is atomic)
  internal/controller/apiextensions/composite/watch/watch.go (GarbageCollectWatchesNow)

Every goroutine that calls into the engine is a `Thread` with a program counter
`Pc`.  One `step` is either
  * the acquisition of `e.mx` / of one controller's `c.mx` (read or write mode) together
    with the reads the Go code performs right after it under that lock,
  * the release of such a lock,
  * or one call that leaves the engine: NewControllerFn, ActiveInformers, GetInformer,
    AddEventHandler, RemoveEventHandler, RemoveInformer, the XR List of the collector
    (these are the points at which the correspondence harness parks real goroutines).
Lock state is not stored: it is *derived* from the program counters (`Pc.held`), an
acquisition is enabled iff what the thread would hold afterwards is compatible with what
every other thread holds.  The RW locks are plain reader/writer locks; Go's writer
preference only removes schedules (and cannot create a deadlock here because no thread
ever waits while it holds a read lock – theorem `read_sections_never_wait`).

The informer cache (cache.go + the underlying controller-runtime cache) is modelled as
  tracked : the `active` set of InformerTrackingCache,
  live    : the informers that exist in the underlying cache, with a generation number
            (a removed and re-created informer is a *new* informer: handlers registered on
            the old one are gone, adding a handler to the old one fails as client-go does
            for a stopped informer),
  regs    : the handler registrations on the live informers, with ghost owner fields.
GetInformer (and Get, List, GetInformerForKind: `Op.cacheRead`, the same effect on `tracked` and
`live`, for a List under the kind of the list's ITEMS) / RemoveInformer / ActiveInformers take the cache's own RW lock around one
atomic map access plus the call into the underlying cache; no engine lock is ever
requested while it is held, so each is a single step here.

`Cfg` selects the code variant: `Cfg.fixed` mirrors the tree with fixes/D2.diff,
fixes/D3.diff and fixes/D12.diff applied (this is what the theorems are about and what
the correspondence driver runs); `Cfg.asFound` mirrors the pinned commit and is kept only
for the negation witnesses.

Model/C13Skel.lean ties every step of `next` to the control-flow skeleton of the Go function it
mirrors (regenerated from the source on every run): the lock operations are derived there from
`Pc.held`, so reordering the cases below or the Go code breaks a `trace_…` obligation.
-/
namespace Xp.C13

/-! ### association lists (decidable keys, first match wins) -/

def aget {α β} [DecidableEq α] (k : α) : List (α × β) → Option β
  | [] => none
  | (k', v) :: m => if k' = k then some v else aget k m

def adel {α β} [DecidableEq α] (k : α) (m : List (α × β)) : List (α × β) :=
  m.filter (fun p => decide (p.1 ≠ k))

def aset {α β} [DecidableEq α] (k : α) (v : β) (m : List (α × β)) : List (α × β) :=
  (k, v) :: adel k m

/-! ### data -/

inductive WType | claim | xr | composed | rev
  deriving DecidableEq, Repr, Inhabited

/-- engine.WatchID: (watch type, GVK). GVKs are numbered. -/
structure Wid where
  ty : WType
  gvk : Nat
  deriving DecidableEq, Repr, Inhabited

/-- A handler registration on a live informer. `cid`/`wid` are ghost owner fields
(which controller object, for which watch), `gen` the informer generation it sits on. -/
structure Reg where
  id : Nat
  cid : Nat
  wid : Wid
  gen : Nat
  deriving DecidableEq, Repr

/-- engine.controller (one object per successful Start; `cid` = allocation index). -/
structure Ctl where
  name : Nat
  sources : List (Wid × Nat)   -- c.sources : WatchID ↦ StoppableSource (its registration id)
  cancelled : Bool             -- c.cancel() was called
  stopped : Bool               -- fixes/D12.diff: set by Stop under c.mx
  deriving DecidableEq, Repr

inductive Res
  | ok | err | notRunning
  | bool (b : Bool)
  | count (k : Nat) (ok : Bool)
  | watches (l : List Wid)
  deriving DecidableEq, Repr

/-- One XR as the collector's List returns it. The state fields are everything a collector
could be tempted to filter on; the code under test looks at `refs` only, and the theorems
quantify over all of them. A reference is `some g` (kind number `g`; another version of a kind
is another number) or `none` (empty kind or apiVersion: it names no watched kind). Duplicates
and empty lists are allowed. -/
structure XR where
  deleting : Bool            -- deletionTimestamp set, finalizer pending
  paused : Bool              -- crossplane.io/paused
  hasCompositionRef : Bool
  ready : Bool
  synced : Bool
  refs : List (Option Nat)   -- spec.resourceRefs
  rev : Option Nat := none   -- spec.compositionRevisionRef.name (`none`: no revision selected yet); XRs of one list
                             -- often share a revision and still reference different kinds
  deriving DecidableEq, Repr

/-- the kinds the listed XRs reference: `used` of GarbageCollectWatchesNow -/
def refsOf (xrs : List XR) : List Nat := (xrs.map (·.refs)).flatMap (fun l => l.filterMap id)

inductive Op
  | start (n : Nat)
  | stop (n : Nat)
  | isRunning (n : Nat)
  | startWatches (n : Nat) (ws : List Wid)
  | stopWatches (n : Nat) (ws : List Wid)
  | getWatches (n : Nat)
  | gc (n : Nat) (xrs : List XR)        -- GarbageCollectWatchesNow; xrs = what its List of the XRs returns
                                        -- (one call; the GarbageCollector object lives across calls and keeps nothing)
  | removeInformer (g : Nat)
  | cacheRead (g : Nat)                 -- Get / List / GetInformerForKind of kind g on the InformerTrackingCache
                                        -- (the other entry points of cache.go that mark an informer active)
  deriving DecidableEq, Repr

/-- ghost event log (newest first) -/
inductive Ev
  | startOk (n cid : Nat)
  | stopOk (n cid : Nat)
  | isRunning (n : Nat) (b : Bool)
  deriving DecidableEq, Repr

structure Cfg where
  fixD2 : Bool    -- re-read ActiveInformers under c.mx; never start in one call a watch that call already started
  fixD3 : Bool    -- collector only considers ComposedResource watches
  fixD12 : Bool   -- StartWatches re-checks under c.mx that the controller was not stopped
  deriving DecidableEq, Repr

def Cfg.fixed : Cfg := ⟨true, true, true⟩
def Cfg.asFound : Cfg := ⟨false, false, false⟩

/-- Program counters. The comment gives the locks held *at* the pc. -/
inductive Pc
  | idle                                                     -- –
  | done (r : Res)                                           -- –
  | relE (r : Res)                                           -- e.W       next: e.mx.Unlock
  | relCE (cid : Nat) (r : Res)                              -- e.W c.W   next: c.mx.Unlock
  | relC (cid : Nat) (r : Res)                               -- c.W       next: c.mx.Unlock
  -- Start
  | stNC (n : Nat)                                           -- e.W       next: NewControllerFn
  -- Stop
  | spC (n cid : Nat)                                        -- e.W       next: c.mx.Lock
  | spLoop (n cid : Nat)                                     -- e.W c.W   next: range c.sources
  | spGI (n cid : Nat) (wid : Wid) (reg : Nat)               -- e.W c.W   next: GetInformer
  | spRH (n cid : Nat) (wid : Wid) (reg h : Nat)             -- e.W c.W   next: RemoveEventHandler
  -- IsRunning
  | irRel (b : Bool)                                         -- e.R       next: e.mx.RUnlock
  -- StartWatches
  | swLU (o : Option Nat) (ws : List Wid)                    -- e.R       next: e.mx.RUnlock
  | swAI (cid : Nat) (ws : List Wid)                         -- –         next: ActiveInformers
  | swCR (cid : Nat) (ws : List Wid) (a : List Nat)          -- –         next: c.mx.RLock
  | swCRrel (cid : Nat) (ws : List Wid) (a : List Nat) (start : Bool)   -- c.R next: c.mx.RUnlock
  | swCW (cid : Nat) (ws : List Wid) (a : List Nat)          -- –         next: c.mx.Lock
  | swAI2 (cid : Nat) (ws : List Wid)                        -- c.W       next: ActiveInformers (D2 fix)
  | swGI (cid : Nat) (a : List Nat) (st : List Wid) (wid : Wid) (rest : List Wid)       -- c.W next: GetInformer
  | swAH (cid : Nat) (a : List Nat) (st : List Wid) (wid : Wid) (rest : List Wid) (h : Nat) -- c.W next: AddEventHandler
  -- StopWatches (also the tail of the collector)
  | xw0 (n : Nat) (ws : List Wid)                            -- –         next: e.mx.RLock
  | xwLU (o : Option Nat) (ws : List Wid)                    -- e.R
  | xwCR (cid : Nat) (ws : List Wid)                         -- –         next: c.mx.RLock
  | xwCRrel (cid : Nat) (ws : List Wid) (stop : Bool)        -- c.R
  | xwCW (cid : Nat) (ws : List Wid)                         -- –         next: c.mx.Lock
  | xwGI (cid : Nat) (wid : Wid) (reg : Nat) (rest : List Wid) (k : Nat)     -- c.W next: GetInformer
  | xwRH (cid : Nat) (wid : Wid) (reg : Nat) (rest : List Wid) (k h : Nat)   -- c.W next: RemoveEventHandler
  -- GetWatches
  | gwLU (o : Option Nat)                                    -- e.R
  | gwCR (cid : Nat)                                         -- –         next: c.mx.RLock
  | gwCRrel (cid : Nat) (l : List Wid)                       -- c.R
  -- GarbageCollectWatchesNow: List, then GetWatches, then StopWatches
  | gc1 (n : Nat) (refs : List Nat)                          -- –         next: e.mx.RLock
  | gcLU (o : Option Nat) (n : Nat) (refs : List Nat)        -- e.R
  | gcCR (cid n : Nat) (refs : List Nat)                     -- –         next: c.mx.RLock
  | gcCRrel (cid : Nat) (l : List Wid) (n : Nat) (refs : List Nat)  -- c.R
  deriving DecidableEq, Repr

structure Thread where
  op : Op
  pc : Pc
  deriving DecidableEq, Repr

structure Sys where
  ctrls : List (Nat × Nat)     -- e.controllers : name ↦ cid
  objs : List Ctl              -- controller objects by cid
  tracked : List Nat           -- InformerTrackingCache.active
  live : List (Nat × Nat)      -- existing informers: gvk ↦ generation
  regs : List Reg              -- handler registrations on existing informers
  nextGen : Nat
  nextReg : Nat
  threads : List Thread
  log : List Ev
  deriving DecidableEq, Repr

def init (ops : List Op) : Sys :=
  { ctrls := [], objs := [], tracked := [], live := [], regs := [], nextGen := 0, nextReg := 0,
    threads := ops.map (fun o => ⟨o, .idle⟩), log := [] }

/-! ### locks, derived from program counters -/

inductive Mode | n | r | w
  deriving DecidableEq, Repr

structure Held where
  e : Mode
  c : Option (Nat × Mode)
  deriving DecidableEq, Repr

def Mode.compat : Mode → Mode → Bool
  | .n, _ => true
  | _, .n => true
  | .r, .r => true
  | _, _ => false

def Held.compat (a b : Held) : Bool :=
  a.e.compat b.e &&
  (match a.c, b.c with
   | some (c1, m1), some (c2, m2) => c1 != c2 || m1.compat m2
   | _, _ => true)

def Pc.held : Pc → Held
  | .idle | .done _ => ⟨.n, none⟩
  | .relE _ | .stNC _ | .spC _ _ => ⟨.w, none⟩
  | .relCE cid _ | .spLoop _ cid | .spGI _ cid _ _ | .spRH _ cid _ _ _ => ⟨.w, some (cid, .w)⟩
  | .relC cid _ | .swAI2 cid _ | .swGI cid _ _ _ _ | .swAH cid _ _ _ _ _
  | .xwGI cid _ _ _ _ | .xwRH cid _ _ _ _ _ => ⟨.n, some (cid, .w)⟩
  | .irRel _ | .swLU _ _ | .xwLU _ _ | .gwLU _ | .gcLU _ _ _ => ⟨.r, none⟩
  | .swAI _ _ | .swCR _ _ _ | .swCW _ _ _ | .xw0 _ _ | .xwCR _ _ | .xwCW _ _ | .gwCR _
  | .gc1 _ _ | .gcCR _ _ _ => ⟨.n, none⟩
  | .swCRrel cid _ _ _ | .xwCRrel cid _ _ | .gwCRrel cid _ | .gcCRrel cid _ _ _ => ⟨.n, some (cid, .r)⟩

def freeAux (want : Held) (i : Nat) : Nat → List Thread → Bool
  | _, [] => true
  | j, u :: us => (j == i || want.compat u.pc.held) && freeAux want i (j + 1) us

/-- thread `i` may move to a pc holding `want`: compatible with what every other thread holds -/
def free (s : Sys) (i : Nat) (want : Held) : Bool := freeAux want i 0 s.threads

/-! ### global actions -/

inductive Act
  | nop
  | newCtl (n : Nat)
  | finishStop (n cid : Nat)
  | getInformer (g : Nat) (fault : Bool)
  | addReg (cid : Nat) (wid : Wid) (h : Nat)
  | delReg (cid : Nat) (wid : Wid) (reg : Nat)
  | rmInformer (g : Nat)
  | logEv (e : Ev)
  deriving DecidableEq, Repr

def modCtl (cid : Nat) (f : Ctl → Ctl) (objs : List Ctl) : List Ctl :=
  match objs[cid]? with
  | some c => objs.set cid (f c)
  | none => objs

def srcsOf (s : Sys) (cid : Nat) : List (Wid × Nat) :=
  match s.objs[cid]? with
  | some c => c.sources
  | none => []

def stoppedOf (s : Sys) (cid : Nat) : Bool :=
  match s.objs[cid]? with
  | some c => c.stopped
  | none => false

def Act.apply : Act → Sys → Sys
  | .nop, s => s
  | .newCtl n, s =>
    { s with ctrls := (n, s.objs.length) :: s.ctrls,
             objs := s.objs ++ [⟨n, [], false, false⟩],
             log := .startOk n s.objs.length :: s.log }
  | .finishStop n cid, s =>
    { s with ctrls := adel n s.ctrls,
             objs := modCtl cid (fun c => { c with cancelled := true, stopped := true }) s.objs,
             log := .stopOk n cid :: s.log }
  | .getInformer g fault, s =>
    let tr := if s.tracked.contains g then s.tracked else g :: s.tracked
    if fault then { s with tracked := tr }
    else match aget g s.live with
      | some _ => { s with tracked := tr }
      | none => { s with tracked := tr, live := (g, s.nextGen) :: s.live, nextGen := s.nextGen + 1 }
  | .addReg cid wid h, s =>
    { s with regs := ⟨s.nextReg, cid, wid, h⟩ :: s.regs,
             objs := modCtl cid (fun c => { c with sources := aset wid s.nextReg c.sources }) s.objs,
             nextReg := s.nextReg + 1 }
  | .delReg cid wid reg, s =>
    { s with regs := s.regs.filter (fun r => decide (r.id ≠ reg)),
             objs := modCtl cid (fun c => { c with sources := adel wid c.sources }) s.objs }
  | .rmInformer g, s =>
    { s with tracked := s.tracked.filter (fun x => decide (x ≠ g)),
             live := adel g s.live,
             regs := s.regs.filter (fun r => decide (r.wid.gvk ≠ g)) }
  | .logEv e, s => { s with log := e :: s.log }

/-! ### the loops of StartWatches / StopWatches and the collector's decision -/

/-- first watch of `ws` that StartWatches will start: it skips a watch that exists and
whose informer is active according to `a`, or (D2 fix) that this very call started (`st`) -/
def swNext (srcs : List (Wid × Nat)) (a : List Nat) (st : List Wid) : List Wid → Option (Wid × List Wid)
  | [] => none
  | w :: rest =>
    if (aget w srcs).isSome && (a.contains w.gvk || st.contains w) then swNext srcs a st rest else some (w, rest)

/-- first watch of `ws` that StopWatches will stop: the first that exists -/
def xwNext (srcs : List (Wid × Nat)) : List Wid → Option (Wid × Nat × List Wid)
  | [] => none
  | w :: rest =>
    match aget w srcs with
    | some reg => some (w, reg, rest)
    | none => xwNext srcs rest

/-- the watches the collector asks StopWatches to stop, given the running watches it read
and the kinds the XRs reference -/
def gcStop (cfg : Cfg) (running : List Wid) (refs : List Nat) : List Wid :=
  running.filter (fun w =>
    if cfg.fixD3 then decide (w.ty = .composed) && !refs.contains w.gvk
    else !(decide (w.ty = .composed) && refs.contains w.gvk))

def swPc (cid : Nat) (a : List Nat) (st : List Wid) : Option (Wid × List Wid) → Pc
  | none => .relC cid .ok
  | some (w, rest) => .swGI cid a st w rest

def xwPc (cid : Nat) (k : Nat) : Option (Wid × Nat × List Wid) → Pc
  | none => .relC cid (.count k true)
  | some (w, reg, rest) => .xwGI cid w reg rest k

/-- the informer handle GetInformer returns in state `s` -/
def handle (s : Sys) (g : Nat) : Nat :=
  match aget g s.live with
  | some h => h
  | none => s.nextGen

/-- The class of error a failing call returns (apimachinery's NotFound / Conflict / AlreadyExists /
Invalid / Forbidden / TooManyRequests, a RESTMapper NoKindMatch, a transport error that is
Temporary(), a context deadline or cancellation, anything else). No function of engine.go,
source.go, cache.go or watch.go inspects the error it gets: it wraps and returns it. `next` below
therefore never reads `Choice.cls`; it is part of every step's choice so that "for every fault"
in the theorems reads "for every fault of every class" (`error_class_irrelevant`), and the
correspondence harness injects each class at each call. -/
inductive ErrClass
  | generic | notFound | conflict | alreadyExists | invalid | forbidden | noKindMatch
  | transportTemporary | deadlineExceeded | cancelled | tooManyRequests
  deriving DecidableEq, Repr, Inhabited

structure Choice where
  fault : Bool := false   -- the call that leaves the engine fails
  cls : ErrClass := .generic   -- ... with an error of this class
  pick : Wid := default   -- Go map iteration: which source `range c.sources` yields next
  perm : List Wid := []   -- Go map iteration: the order in which GetWatches listed the watches the collector stops
  deriving Repr

def acquire (s : Sys) (i : Nat) (pc' : Pc) (act : Act := .nop) : Option (Pc × Act) :=
  if free s i pc'.held then some (pc', act) else none

/-- One step of thread `i` (its record is `t`): the next pc and the global action. `none` =
finished, or waiting for a lock. -/
def next (cfg : Cfg) (s : Sys) (i : Nat) (t : Thread) (ch : Choice) : Option (Pc × Act) :=
  match t.pc with
  | .done _ => none
  | .idle =>
    match t.op with
    | .start n =>                                 -- e.mx.Lock(); _, running := e.controllers[name]
      acquire s i (match aget n s.ctrls with | some _ => .relE .ok | none => .stNC n)
    | .stop n =>                                  -- e.mx.Lock(); c, running := e.controllers[name]
      acquire s i (match aget n s.ctrls with | some cid => .spC n cid | none => .relE .ok)
    | .isRunning n =>                             -- e.mx.RLock(); _, running := e.controllers[name]
      acquire s i (.irRel (aget n s.ctrls).isSome) (.logEv (.isRunning n (aget n s.ctrls).isSome))
    | .startWatches n ws => acquire s i (.swLU (aget n s.ctrls) ws)
    | .stopWatches n ws => acquire s i (.xwLU (aget n s.ctrls) ws)
    | .getWatches n => acquire s i (.gwLU (aget n s.ctrls))
    | .gc n xrs =>                                -- gc.engine.GetCached().List(ctx, l); used := every ref of every item
      if ch.fault then some (.done .err, .nop) else some (.gc1 n (refsOf xrs), .nop)
    | .removeInformer g => some (.done .ok, .rmInformer g)
    | .cacheRead g =>                             -- c.active[gvk] = true; c.Cache.Get / List / GetInformerForKind
      some (.done (if ch.fault then .err else .ok), .getInformer g ch.fault)
  | .relE r => some (.done r, .nop)
  | .relCE _ r => some (.relE r, .nop)
  | .relC _ r => some (.done r, .nop)
  -- Start
  | .stNC n =>                                    -- co.nc(name, e.mgr, co.runtime); e.controllers[name] = r
    if ch.fault then some (.relE .err, .nop) else some (.relE .ok, .newCtl n)
  -- Stop
  | .spC n cid => acquire s i (.spLoop n cid)     -- c.mx.Lock()
  | .spLoop n cid =>                              -- for wid, w := range c.sources
    match srcsOf s cid with
    | [] => some (.relCE cid .ok, .finishStop n cid)      -- c.cancel(); delete(e.controllers, name)
    | _ :: _ =>
      match aget ch.pick (srcsOf s cid) with
      | some reg => some (.spGI n cid ch.pick reg, .nop)
      | none => none
  | .spGI n cid wid reg =>                        -- w.Stop: s.infs.GetInformer(ctx, s.Type)
    if ch.fault then some (.relCE cid .err, .getInformer wid.gvk true)
    else some (.spRH n cid wid reg (handle s wid.gvk), .getInformer wid.gvk false)
  | .spRH n cid wid reg _ =>                      -- i.RemoveEventHandler(s.reg); delete(c.sources, wid)
    if ch.fault then some (.relCE cid .err, .nop) else some (.spLoop n cid, .delReg cid wid reg)
  -- IsRunning
  | .irRel b => some (.done (.bool b), .nop)
  -- StartWatches
  | .swLU o ws =>                                 -- e.mx.RUnlock(); if !running { return error }
    match o with
    | none => some (.done .notRunning, .nop)
    | some cid => some (.swAI cid ws, .nop)
  | .swAI cid ws => some (.swCR cid ws s.tracked, .nop)    -- a := e.infs.ActiveInformers()
  | .swCR cid ws a =>                             -- c.mx.RLock(); start := ...
    acquire s i (.swCRrel cid ws a (swNext (srcsOf s cid) a [] ws).isSome)
  | .swCRrel cid ws a start =>                    -- c.mx.RUnlock(); if !start { return nil }
    if start then some (.swCW cid ws a, .nop) else some (.done .ok, .nop)
  | .swCW cid ws a =>                             -- c.mx.Lock()
    acquire s i
      (if cfg.fixD12 && stoppedOf s cid then .relC cid .notRunning
       else if cfg.fixD2 then .swAI2 cid ws
       else swPc cid a [] (swNext (srcsOf s cid) a [] ws))
  | .swAI2 cid ws =>                              -- (D2 fix) a = e.infs.ActiveInformers()
    some (swPc cid s.tracked [] (swNext (srcsOf s cid) s.tracked [] ws), .nop)
  | .swGI cid a st wid rest =>                    -- c.ctrl.Watch(src) → src.Start: s.infs.GetInformer
    if ch.fault then some (.relC cid .err, .getInformer wid.gvk true)
    else some (.swAH cid a st wid rest (handle s wid.gvk), .getInformer wid.gvk false)
  | .swAH cid a st wid rest h =>                  -- i.AddEventHandler(...); c.sources[wid] = src; (D2 fix) started[wid] = true
    if ch.fault || aget wid.gvk s.live != some h then some (.relC cid .err, .nop)
    else
      let st' := if cfg.fixD2 then wid :: st else st
      some (swPc cid a st' (swNext (aset wid s.nextReg (srcsOf s cid)) a st' rest), .addReg cid wid h)
  -- StopWatches
  | .xw0 n ws => acquire s i (.xwLU (aget n s.ctrls) ws)
  | .xwLU o ws =>
    match o with
    | none => some (.done .notRunning, .nop)
    | some cid => some (.xwCR cid ws, .nop)
  | .xwCR cid ws => acquire s i (.xwCRrel cid ws (xwNext (srcsOf s cid) ws).isSome)
  | .xwCRrel cid ws stop =>
    if stop then some (.xwCW cid ws, .nop) else some (.done (.count 0 true), .nop)
  | .xwCW cid ws => acquire s i (xwPc cid 0 (xwNext (srcsOf s cid) ws))
  | .xwGI cid wid reg rest k =>
    if ch.fault then some (.relC cid (.count k false), .getInformer wid.gvk true)
    else some (.xwRH cid wid reg rest k (handle s wid.gvk), .getInformer wid.gvk false)
  | .xwRH cid wid reg rest k _ =>
    if ch.fault then some (.relC cid (.count k false), .nop)
    else some (xwPc cid (k + 1) (xwNext (adel wid (srcsOf s cid)) rest), .delReg cid wid reg)
  -- GetWatches
  | .gwLU o =>
    match o with
    | none => some (.done .notRunning, .nop)
    | some cid => some (.gwCR cid, .nop)
  | .gwCR cid => acquire s i (.gwCRrel cid ((srcsOf s cid).map (·.1)))
  | .gwCRrel _ l => some (.done (.watches l), .nop)
  -- collector
  | .gc1 n refs => acquire s i (.gcLU (aget n s.ctrls) n refs)
  | .gcLU o n refs =>
    match o with
    | none => some (.done .err, .nop)
    | some cid => some (.gcCR cid n refs, .nop)
  | .gcCR cid n refs => acquire s i (.gcCRrel cid ((srcsOf s cid).map (·.1)) n refs)
  | .gcCRrel _ l n refs =>
    -- GetWatches returns the watches in map order; the order only matters for the stop list
    match gcStop cfg l refs with
    | [] => some (.done .ok, .nop)
    | w :: ws => if ch.perm.isPerm (w :: ws) then some (.xw0 n ch.perm, .nop) else none

def step (cfg : Cfg) (s : Sys) (i : Nat) (ch : Choice) : Option Sys :=
  match s.threads[i]? with
  | none => none
  | some t =>
    match next cfg s i t ch with
    | none => none
    | some (pc', act) => some (act.apply { s with threads := s.threads.set i { t with pc := pc' } })

/-- states reachable from `init ops` under any schedule, any faults, any map order -/
inductive Reachable (cfg : Cfg) (ops : List Op) : Sys → Prop
  | init : Reachable cfg ops (init ops)
  | step {s s'} (i : Nat) (ch : Choice) : Reachable cfg ops s → step cfg s i ch = some s' → Reachable cfg ops s'

/-- run a schedule: each entry is (thread, choice) -/
def runSched (cfg : Cfg) (s : Sys) : List (Nat × Choice) → Option Sys
  | [] => some s
  | (i, ch) :: rest =>
    match step cfg s i ch with
    | some s' => runSched cfg s' rest
    | none => none

/-- let thread `i` take `k` steps without faults (map order: first entry) -/
def runThread (cfg : Cfg) (s : Sys) (i : Nat) : Nat → Option Sys
  | 0 => some s
  | k + 1 =>
    match step cfg s i {} with
    | some s' => runThread cfg s' i k
    | none => none

end Xp.C13

import Xp.Gen.C12
/-
C12 model, structural part of a Composition's content:

* `Spec` / `RevSpec` / `toRevisionSpec`: `v1.CompositionSpec`, `v1.CompositionRevisionSpec`
  (without `revision`, which the model keeps in `Rev.num`) and the field-by-field copy
  `GeneratedRevisionSpecConverter.ToRevisionSpec` (apis/apiextensions/v1/
  zz_generated.conversion.go) that `NewCompositionRevisionSpec` (composition/revision.go)
  applies. A patch set, a composed template, a pipeline step are abstracted to their
  names (the harness compares the whole spec as JSON on the real run).
* `Tok` / `mapToks`: the input of `Composition.Hash` (apis/apiextensions/v1/
  composition_hash.go) as a list of tokens: `yaml.Marshal` of a string map is one line
  `key: value` per entry in key order, of a nil map the single line `null`
  (`Xp.Gen.yamlNilMap`, probed); the YAML of the spec is one token (third-party rendering of
  a struct, shipped by the harness as a table).
-/
namespace Xp.C12

abbrev Labels := List (String × String)

/-- `v1.CompositionSpec` -/
structure Spec where
  apiVersion : String                -- compositeTypeRef.apiVersion
  kind : String                      -- compositeTypeRef.kind
  mode : Option String
  patchSets : List String            -- names
  resources : List String            -- names of the composed templates
  pipeline : List (String × String)  -- (step, functionRef.name)
  wcs : Option String                -- writeConnectionSecretsToNamespace
  store : Option String              -- publishConnectionDetailsWithStoreConfigRef.name
  deriving DecidableEq, Repr

/-- `v1.CompositionRevisionSpec` apart from `revision` -/
structure RevSpec where
  apiVersion : String
  kind : String
  mode : Option String
  patchSets : List String
  resources : List String
  pipeline : List (String × String)
  wcs : Option String
  store : Option String
  deriving DecidableEq, Repr

/-- `GeneratedRevisionSpecConverter.ToRevisionSpec`, one assignment per field, in the order
of the generated code -/
def toRevisionSpec (s : Spec) : RevSpec :=
  { apiVersion := s.apiVersion, kind := s.kind,     -- v1TypeReferenceToV1TypeReference
    mode := s.mode,                                 -- copied through a fresh pointer
    patchSets := s.patchSets,                       -- v1PatchSetToV1PatchSet per element
    resources := s.resources,                       -- v1ComposedTemplateToV1ComposedTemplate per element
    pipeline := s.pipeline,                         -- v1PipelineStepToV1PipelineStep per element
    wcs := s.wcs,
    store := s.store }                              -- pV1StoreConfigReferenceToPV1StoreConfigReference

/-- reading a revision's spec back as a Composition spec -/
def RevSpec.toSpec (r : RevSpec) : Spec :=
  { apiVersion := r.apiVersion, kind := r.kind, mode := r.mode, patchSets := r.patchSets,
    resources := r.resources, pipeline := r.pipeline, wcs := r.wcs, store := r.store }

/-- helper calls of the generated converter, in source order (see `Xp.Gen.c12ToRevisionSpecSkel`) -/
def toRevisionSpecSkel : List String :=
  [ "v1TypeReferenceToV1TypeReference",                      -- apiVersion, kind
    "CompositionMode",                                       -- mode
    "v1PatchSetToV1PatchSet",                                -- patchSets
    "v1ComposedTemplateToV1ComposedTemplate",                -- resources
    "v1PipelineStepToV1PipelineStep",                        -- pipeline
    "pV1StoreConfigReferenceToPV1StoreConfigReference" ]     -- store  (wcs: plain pointer copy, no call)

/-- `NewCompositionRevisionSpec` -/
def newRevisionSpecSkel : List String :=
  [ "conv.ToRevisionSpec" ]  -- `toRevisionSpec`; `rs.Revision = revision` is `Rev.num`

/-! ### the input of `Composition.Hash` -/

inductive Tok where
  /-- one line `key: value` of the YAML of a non-empty string map -/
  | entry (k v : String)
  /-- the YAML of a nil map (no labels / no annotations) -/
  | nil
  /-- the YAML of the spec -/
  | spec (s : Spec)
  deriving DecidableEq, Repr

def ent (kv : String × String) : Tok := .entry kv.1 kv.2

/-- `yaml.Marshal(map[string]string)`; the model keeps maps as key-sorted lists -/
def mapToks : Labels → List Tok
  | [] => [.nil]
  | x :: xs => (x :: xs).map ent

/-- the bytes of one token; `specYaml` is the shipped table -/
def Tok.render (specYaml : Spec → String) : Tok → String
  | .entry k v => k ++ ": " ++ v ++ "\n"
  | .nil => Xp.Gen.yamlNilMap
  | .spec s => specYaml s

def renderToks (specYaml : Spec → String) (l : List Tok) : String :=
  l.foldl (fun acc t => acc ++ t.render specYaml) ""

/-- `Composition.Hash`, calls in source order (see `Xp.Gen.c12HashSkel`) -/
def hashSkel : List String :=
  [ "sha256.New",
    "yaml.Marshal",   -- labels       : `mapToks c.labels`
    "yaml.Marshal",   -- annotations  : `mapToks c.annos`
    "yaml.Marshal",   -- spec         : `[.spec c.spec]`
    "append",         -- y ++ a       : no separator
    "append",         -- … ++ s
    "h.Write",        -- the digest is a function of the concatenation: `Naming.ofDigest`
    "fmt.Sprintf", "h.Sum" ]

end Xp.C12

import Xp.Gen.Pipeline
/-
C04/C03 model: the reference interpreter of a function pipeline —
FunctionComposer.Compose's pipeline loop (composition_functions.go) and
FetchingFunctionRunner.RunFunction / ExistingExtraResourcesFetcher.Fetch
(extra_resources.go). Functions are arbitrary (here: `Request → Option Response`);
the rule DSL used by the correspondence harness is interpreted in Xp/Drv/C04.lean.
-/
namespace Xp.C04

structure Res where
  rname : String
  kind : String
  name : String
  content : Nat
  ready : Bool
  deriving DecidableEq, Repr, Inhabited

structure Sel where
  kind : String
  name : String                      -- match by name when non-empty
  labels : List (String × String)    -- else by labels
  deriving DecidableEq, Repr, Inhabited

inductive Sev where
  | fatal | warning | normal | unspecified
  deriving DecidableEq, Repr, Inhabited

structure Result where
  sev : Sev
  msg : String
  claim : Bool
  deriving DecidableEq, Repr, Inhabited

structure FnCond where
  type : String
  status : String
  reason : String
  claim : Bool
  message : String := ""
  deriving DecidableEq, Repr, Inhabited

/-- value of `extra_resources[key]`: `none` = nil Resources (by-name selector, not found) -/
abbrev Extra := List (String × Option (List String))

structure Request where
  observed : List Res
  desired : List Res
  xrReady : Option Bool
  ctx : List (String × String)
  extra : Extra
  input : String
  creds : List (String × List String)
  deriving DecidableEq, Repr, Inhabited

structure Response where
  desired : List Res
  xrReady : Option Bool
  ctx : List (String × String)
  reqs : List (String × Sel)      -- requirements.extra_resources, sorted by key; [] = no requirements
  results : List Result
  conds : List FnCond
  deriving DecidableEq, Repr, Inhabited

/-- a function: deterministic in its request; `none` = the call returned an error -/
abbrev Fn := Request → Option Response

/-- cluster contents the selectors may match: (kind, name, labels) -/
structure ClusterObj where
  kind : String
  name : String
  labels : List (String × String)
  deriving Repr, Inhabited

/-- ExistingExtraResourcesFetcher.Fetch -/
def fetch (cluster : List ClusterObj) (s : Sel) : Option (List String) :=
  if s.name ≠ "" then
    if cluster.any (fun o => o.kind = s.kind ∧ o.name = s.name) then some [s.name] else none
  else
    some ((cluster.filter fun o => o.kind = s.kind ∧ s.labels.all (fun l => o.labels.contains l)).map (·.name))

inductive Outcome where
  | ok (rsp : Response)
  | err
  deriving Repr, Inhabited

def hasFatal (rs : List Result) : Bool := rs.any (·.sev = .fatal)

/-- FetchingFunctionRunner.RunFunction: `fuel` = calls still allowed (MaxRequirementsIterations + 1
initially); `prev` = requirements of the previous round. Returns the requests the function
received, oldest first, and the outcome. -/
def runFetching (cluster : List ClusterObj) (f : Fn) : Nat → Request → List (String × Sel) → List Request × Outcome
  | 0, _, _ => ([], .err)      -- requirements did not stabilise
  | fuel + 1, req, prev =>
    match f req with
    | none => ([req], .err)
    | some rsp =>
      if hasFatal rsp.results then ([req], .ok rsp)
      else if rsp.reqs = prev then ([req], .ok rsp)
      else
        let req' := { req with extra := rsp.reqs.map (fun p => (p.1, fetch cluster p.2)), ctx := rsp.ctx }
        let r := runFetching cluster f fuel req' rsp.reqs
        (req :: r.1, r.2)

structure Step where
  name : String          -- pipeline step name (s0, s1, ...)
  fn : Fn
  input : String
  creds : List (String × Option (List String))   -- credential name ↦ keys of the secret (none = secret missing)

inductive Ev where
  | mk (type : String) (msg : String) (claim : Bool) (detail : String)
  deriving DecidableEq, Repr, Inhabited

def evOf (step : String) (r : Result) : Ev :=
  match r.sev with
  | .warning => .mk "Warning" r.msg r.claim s!"Pipeline step \"{step}\""
  | .normal => .mk "Normal" r.msg r.claim s!"Pipeline step \"{step}\""
  | .unspecified => .mk "Warning" s!"Pipeline step \"{step}\" returned a result of unknown severity (assuming warning): {r.msg}" false ""
  | .fatal => .mk "Fatal" r.msg r.claim ""

/-- events produced from one response's results: everything before the first fatal one -/
def eventsUntilFatal (step : String) : List Result → List Ev × Bool
  | [] => ([], false)
  | r :: rs =>
    if r.sev = .fatal then ([], true)
    else
      let e := eventsUntilFatal step rs
      (evOf step r :: e.1, e.2)

structure PipeState where
  desired : List Res
  xrReady : Option Bool
  ctx : List (String × String)
  events : List Ev
  conds : List FnCond
  trace : List (Nat × Request)    -- (step index, request) for every function call, oldest first
  deriving Repr, Inhabited

inductive PipeResult where
  | done (st : PipeState)
  | failed (st : PipeState) (fatal : Bool)  -- fatal result (events and conditions so far are surfaced) / error,
                                            -- missing credentials, requirements never stabilised (nothing is surfaced)
  deriving Repr, Inhabited

/-- The request a step's first round receives: the same observed state for every step, the
desired state, XR readiness and context accumulated so far, no extra resources, and the
step's own input and credentials. -/
def stepRequest (observed : List Res) (st : PipeState) (s : Step) : Request :=
  { observed := observed, desired := st.desired, xrReady := st.xrReady, ctx := st.ctx, extra := [],
    input := s.input, creds := s.creds.map fun c => (c.1, c.2.getD []) }

/-- the pipeline loop of FunctionComposer.Compose -/
def runPipeline (cluster : List ClusterObj) (observed : List Res) : List Step → Nat → PipeState → PipeResult
  | [], _, st => .done st
  | s :: ss, i, st =>
    if s.creds.any (·.2.isNone) then .failed st false    -- Get of the credentials secret failed
    else
      let r := runFetching cluster s.fn (Xp.Gen.maxRequirementsIterations + 1) (stepRequest observed st s) []
      let st1 := { st with trace := st.trace ++ r.1.map (fun q => (i, q)) }
      match r.2 with
      | .err => .failed st1 false
      | .ok rsp =>
        let e := eventsUntilFatal s.name rsp.results
        let st2 := { st1 with desired := rsp.desired, xrReady := rsp.xrReady, ctx := rsp.ctx,
                              conds := st1.conds ++ rsp.conds, events := st1.events ++ e.1 }
        if e.2 then .failed st2 true else runPipeline cluster observed ss (i + 1) st2

def initState : PipeState := ⟨[], none, [], [], [], []⟩

/-- the trace of a pipeline result -/
def traceOf : PipeResult → List (Nat × Request)
  | .done s => s.trace
  | .failed s _ => s.trace

end Xp.C04

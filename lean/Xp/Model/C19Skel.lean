import Xp.Model.C19
/-
C19 — declared call skeletons: for every Go function the model mirrors, the ordered list of the
calls (client verbs, the repo's helpers that wrap them, the in-memory edits a write carries and the
error predicates that pick the early return) the model was written against, next to the name of
the model step that mirrors each call. `Xp.Gen.c19Skel…` (lean/Xp/Gen/C19Skel.lean) is the same
list extracted with go/ast from the CURRENT tree on every check run; `skeleton_*` in
Xp/Props/C19.lean state that they are equal, so a call inserted into, removed from or reordered in
one of these functions breaks an obligation before any scenario runs.

The skeleton of `Reconciler.Reconcile` and of `resolveSelectors` is a FUNCTION OF THE MODEL: the
program counters three concrete runs of the model visit (`pcTrace`), each mapped to the Go calls
it mirrors (`Pc.calls`). A program counter the model would gain or lose, or visit in another
order, changes the declared skeleton.
-/
namespace Xp.C19

/-- The Go calls, in source order, mirrored by the model step at a program counter:
`Thread.request` (the API call) and the `Thread.next` / `Thread.after…` clauses that consume its
reply. -/
def Pc.calls : Pc → List String
  | .getUsage => [
      "client.Get",                  -- Thread.request .getUsage = .getU
      "xpresource.IgnoreNotFound",   -- Thread.next (.getUsage, .err .notFound) = .done .none
      "schema.ParseGroupVersion",    -- Thread.afterGet: parseGV = none => .done .noneErr
      "usage.resolveSelectors",      -- Thread.afterGet / afterOf: pcs ofList … byUpdate (own skeleton)
      "meta.WasDeleted"]             -- Thread.afterResolve: t.u.deleting
  -- resolveSelectors (selector.go)
  | .ofList => ["resolveSelector"]   -- .listR + resolvePick (skelResolveSelector)
  | .ofUpdate _ => ["client.Update"] -- .updU {of.name := pick}
  | .byList => ["resolveSelector"]
  | .byUpdate _ => ["client.Update"] -- .updU {by.name := pick}
  -- deletion branch
  | .dGetUsing => [
      "client.Get",                  -- .getR (using); reached only for by ≠ nil ∧ composed (afterResolve)
      "xpresource.IgnoreNotFound",   -- (.dGetUsing, .err .notFound) => goto dGetUsed; other errors => noneErr
      "xpresource.IgnoreNotFound"]   --   (second occurrence: the wrapped error that is returned); .res _ => .done .wait
  | .dGetUsed => [
      "client.Get",                  -- .getR (used)
      "xpresource.IgnoreNotFound"]   -- (.dGetUsed, .err .notFound) => afterUnlabel
  | .dList _ => [
      "client.List",                 -- .listU key
      "usage.IndexValueForObject"]   -- key = indexValue of.av of.kind of.name (used := FromReference(of))
  | .dUnlabel _ => [
      "meta.RemoveLabels",           -- { used with inUse := false }; reached only on count < 2
      "client.Update",               -- .updR
      "kerrors.IsConflict"]          -- (.dUnlabel, .err .conflict) => .done .requeue
  | .dRemoveFin => [
      "client.Delete",               -- not modelled: spec.replayDeletion (goroutine, 2 s sleep) replays the delete
      "usage.RemoveFinalizer",       -- .updU { fin := false }
      "kerrors.IsConflict"]          -- (.dRemoveFin, .err .conflict) => .done .requeue
  -- add path
  | .addFin => [
      "usage.AddFinalizer",          -- .updU { fin := true }; skipped when t.u.fin (APIFinalizer returns early)
      "kerrors.IsConflict"]
  | .addDetails => [
      "detailsAnnotation",           -- detailsOf
      "meta.AddAnnotations",         -- { details := some (detailsOf u) }
      "client.Update",               -- .updU
      "kerrors.IsConflict"]
  | .getUsed => [
      "client.Get",                  -- .getR (used)
      "used.OwnedBy"]                -- r.owners.any (·.uid == t.u.uid)
  | .label _ => [
      "meta.AddLabels",              -- { used with inUse := true }
      "client.Update",               -- .updR
      "kerrors.IsConflict"]
  | .getUsing => ["client.Get"]      -- .getR (using); afterLabel: only for by ≠ nil
  | .addOwner _ => [
      "meta.AddOwnerReference",      -- addOwnerRef u.owners ⟨using.uid, …⟩; only if owners = [] ∨ owners[0].uid ≠ using.uid
      "client.Update",               -- .updU
      "kerrors.IsConflict"]
  | .status => [
      "u.Status.SetConditions",      -- { ready := true }
      "cmp.Equal",                   -- Thread.afterOwner: rv ≠ origRv ∨ origReady = false
      "client.Status.Update"]        -- .updStatus

/-- run the reconcile of `n` to its end, every call ok -/
def Sys.finish (n : String) : Nat → Sys → Sys
  | 0, sys => sys
  | f + 1, sys =>
    match sys.thread? n with
    | none => sys
    | some _ => Sys.finish n f (sys.exec (.step n .ok none)).1

/-- the program counters the in-flight reconcile of `n` visits when every call succeeds -/
def pcTrace (n : String) : Nat → Sys → List Pc
  | 0, _ => []
  | f + 1, sys =>
    match sys.thread? n with
    | none => []
    | some t => t.pc :: pcTrace n f (sys.exec (.step n .ok none)).1

def skelUsed : RSpec := ⟨"ex.org/v1", "Thing", "r0", none⟩
def skelUsing : RSpec := ⟨"ex.org/v1", "Other", "r1", none⟩

/-- a composed Usage u0 of r0 by r1, about to be reconciled for the first time (the longest add
path: finalizer, details, label, owner reference, status) -/
def skelAddSys : Sys := (Sys.init 1).run [
  .cr "ex.org" "Thing" "r0" [] false "", .cr "ex.org" "Other" "r1" [] false "",
  .cu "u0" skelUsed (some skelUsing) none true "", .start "u0"]

/-- the same Usage once ready, its deletion requested and its using resource gone (the longest
deletion path: using NotFound, used found, sole Usage, label removed, finalizer removed) -/
def skelDelSys : Sys := ((Sys.finish "u0" 20 skelAddSys).run [
  .du "u0", .dr "ex.org" "Other" "r1" "" true true none, .start "u0"])

/-- a Usage whose used AND using resource are given by selectors, about to be reconciled -/
def skelSelSys : Sys := (Sys.init 1).run [
  .cr "ex.org" "Thing" "r0" [("a", "b")] false "", .cr "ex.org" "Other" "r1" [("c", "d")] false "",
  .cu "u0" ⟨"ex.org/v1", "Thing", "", some ⟨[("a", "b")], false⟩⟩
    (some ⟨"ex.org/v1", "Other", "", some ⟨[("c", "d")], false⟩⟩) none false "", .start "u0"]

def Pc.inResolver : Pc → Bool
  | .ofList | .ofUpdate _ | .byList | .byUpdate _ => true
  | _ => false

/-- `Reconciler.Reconcile` (reconciler.go): Get the Usage, resolve, then in source order the
deletion branch and the add branch — the calls of the program counters the model visits on its
longest deletion run followed by those of its longest add run (the shared first step once). -/
def skelReconcile : List String :=
  ((pcTrace "u0" 20 skelDelSys).flatMap Pc.calls) ++ (((pcTrace "u0" 20 skelAddSys).drop 1).flatMap Pc.calls)

/-- `apiSelectorResolver.resolveSelectors` (selector.go): resolve + Update for spec.of, then for
spec.by — the resolver program counters of the model's run on a Usage with two selectors. -/
def skelResolveSelectors : List String :=
  ((pcTrace "u0" 20 skelSelSys).filter Pc.inResolver).flatMap Pc.calls

/-- `apiSelectorResolver.resolveSelector` (selector.go) -/
def skelResolveSelector : List String := [
  "composed.FromReferenceToList",  -- Thread.request .ofList/.byList: .listR (groupOf av) kind …
  "client.List",                   --   (the list is of the reference's group/kind; the version is the server's)
  "client.MatchingLabels",         --   … (sel.labels): Store.exec .listR filters by labelsMatch
  "controllersMustMatch",          -- resolvePick: mc := sel.mc
  "meta.HaveSameController"]       -- resolvePick: sameCtrl r.owners owners; first match in list order (pickFirst)

/-- `controllersMustMatch`: two returns (nil selector => false; MatchControllerRef ≠ nil ∧ *it) =
`(sel.map (·.mc)).getD false` in `resolvePick` -/
def skelControllersMustMatch : List String := ["return", "return"]

/-- `detailsAnnotation` = `detailsOf`: reason | "<by.kind>/<by.name> uses <of.kind>/<of.name>" | "undefined" -/
def skelDetailsAnnotation : List String := ["return", "return", "fmt.Sprintf", "return"]

/-- `RespectOwnerRefs` = the `x.owners ≠ []` branch of `Store.reapplyUsage` -/
def skelRespectOwnerRefs : List String := [
  "return",                                        -- current is not a composed.Unstructured … (cannot happen in the composer)
  "cu.GetObjectKind.GroupVersionKind.GroupKind",   -- … or not a Usage by group/kind (any served version: D30):
  "v1beta1.UsageGroupVersionKind.GroupKind",       --   probed as table Xp.Gen.c19ComposerRespects; `.xaRaw` otherwise
  "return",
  "cu.GetOwnerReferences",                         -- x.owners ≠ []
  "desired.SetOwnerReferences",                    -- desired owners := current owners: nothing to patch, (s, some true)
  "cu.GetOwnerReferences",
  "return"]

/-- `PTComposer.Compose` (composition_pt.go), the calls that concern a composed Usage -/
def skelComposerApply : List String := [
  "resource.MustBeControllableBy",  -- Store.reapplyUsage: controlledByOther x.owners xr.uid => some false
  "usage.RespectOwnerRefs",         -- Store.reapplyUsage: x.owners ≠ [] => unchanged
  "client.Apply",                   -- the composed resources (Store.reapplyUsage / reapplyRaw: merge patch of the desired object)
  "client.Apply"]                   -- not modelled: the XR itself (no Usage involved)

/-- `Setup` (reconciler.go): the controller's wiring. Reconcile requests come from ONE source, the
Usage itself (`For`; no `Owns`/`Watches` of used or using resources - they are polled: result
`poll`/`wait`), so the work queue is keyed by the Usage name: the model's "at most one in-flight
reconcile per Usage name" (`Sys.exec .start` refuses a second thread of the same name) and NOT
per used resource (`keySerial` is a hypothesis, D16). -/
def skelSetup : List String := [
  "NewReconciler",                          -- the ONE long-lived Reconciler (harness: one per scenario)
  "WithPollInterval",                       -- Result.poll
  "ctrl.NewControllerManagedBy.Named.For.WithOptions.Complete",
  "ctrl.NewControllerManagedBy.Named.For.WithOptions",   -- MaxConcurrentReconciles = Sys.maxc
  "ctrl.NewControllerManagedBy.Named.For",  -- the only event source: Usages
  "ctrl.NewControllerManagedBy.Named",
  "ctrl.NewControllerManagedBy",
  "o.ForControllerRuntime",
  "ratelimiter.NewReconciler",              -- not run by the harness (needs a manager): rate limiting
  "errors.WithSilentRequeueOnConflict"]     -- not run: a returned Conflict error becomes a silent requeue

/-- `Handler.Handle` (handler.go) -/
def skelHandle : List String := [
  "admission.Errored",     -- CREATE/UPDATE/CONNECT: refused unjudged (driver: rq.op ≠ DELETE => listOk := false => .errored)
  "u.UnmarshalJSON",       -- the object judged is request.oldObject (model: the stored Res; the request's shape does not enter)
  "admission.Errored",     --   not modelled: undecodable oldObject (the API server sends the stored object)
  "yaml.Unmarshal",        -- the DeleteOptions: propagation policy
  "admission.Errored",     --   not modelled: undecodable options
  "validateNoUsages",      -- Store.admitDelete
  "admission.Errored"]     -- any other operation: as the first entry

/-- `Handler.validateNoUsages` (handler.go) = `Store.admitDelete` -/
def skelValidateNoUsages : List String := [
  "client.List",           -- s.countU … (or the served count `stale`)
  "IndexValueForObject",   -- indexKey r.group r.kind r.name
  "admission.Errored",     -- !listOk => .errored
  "inUseMessage",          -- not modelled: the text of the denial (tied by skelInUseMessage only)
  "u.GetAnnotations",      -- r.attempt ≠ some (effPolicy policy)
  "u.GetAnnotations",
  "xpmeta.AddAnnotations", -- { r with attempt := some (effPolicy policy) }
  "client.Patch",          -- putR … bump
  "client.MergeFrom",      --   a merge patch: no resourceVersion precondition (the model's write is unconditional)
  "admission.Errored",     -- !patchOk => .errored
  "admission.Allowed"]     -- count = 0 => .allowed (the denial is a literal Response, not a call)

/-- `inUseMessage`: three formats by (spec.by resolved | reason | fallback); not modelled -/
def skelInUseMessage : List String := ["return", "fmt.Sprintf", "return", "fmt.Sprintf", "return", "fmt.Sprintf"]

/-- `IndexValueForObject` = `indexValue av kind name`: the namespace is NOT part of the key -/
def skelIndexValueForObject : List String := ["indexValue", "u.GetAPIVersion", "u.GetKind", "u.GetName"]

/-- `indexValue` = `indexKey (groupOf av) kind name` (parse error ignored: `groupOf` = `getD ""`) -/
def skelIndexValue : List String := ["schema.ParseGroupVersion", "fmt.Sprintf"]

/-- `SetupWebhookWithManager`: ONE index (the IndexerFunc calls `indexValue`: `Usage.indexedBy`),
ONE handler over the manager's (cached) client -/
def skelSetupWebhook : List String := [
  "mgr.GetFieldIndexer", "indexer.IndexField", "indexValue",
  "mgr.GetWebhookServer.Register", "mgr.GetWebhookServer", "NewHandler", "xpunstructured.NewClient", "mgr.GetClient"]

end Xp.C19

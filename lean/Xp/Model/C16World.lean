import Xp.Model.C16
/-
C16 model, part 2: the same code (`validate`, `ReleaseObjects`, `Reconciler.Reconcile`)
run in a WORLD in which

* a third party (garbage collector, administrator, another controller, another replica)
  writes also DURING THE VALIDATE PHASE — immediately before the Get of the goroutine of
  an object, and between that Get and the dry-run write of the same goroutine (so an
  object validated later sees a different store than an object validated earlier) —
  and INSIDE ReleaseObjects — immediately before the Get of a reference's goroutine and
  between that Get and its Update;
* the Get of the validate phase goes through the informer cache of the manager's
  client (typed objects are cached; Secrets and the unstructured Get of ReleaseObjects
  are not): it may MISS an object that exists (NotFound) or serve an OLDER VERSION;
* the reconciler's own Get of the revision goes through the same cache and may serve an
  older `status.objectRefs`; every write of the revision object by such a reconcile (the
  update of its metadata before Establish, the status update) carries the stale
  resourceVersion and is refused (Conflict).

`validateGoV` … `establishV`, `releaseOneV` … `releaseV`, `reconcileRevV`, `runHistoryV`
repeat `validateGo` … `establishI`, `releaseOne` … `release`, `reconcileRevI`,
`runHistoryI` literally, except for the store each API call meets and for what the
cached Get returns. The establish phase is `establishAllI` itself. With
`VInterf.none` / `RInterf.none` they are the definitions of `Model/C16.lean`
(theorem `world_no_interference`).
-/
namespace Xp.C16

def Act.key : Act → String
  | .del k => k
  | .put o => o.key

/-- the validate phase of one Establish call as the world lets it run -/
structure VInterf where
  /-- third-party writes immediately before the Get of the goroutine of object `i` -/
  get : Nat → List Act := fun _ => []
  /-- third-party writes between that Get and the dry-run write of the same goroutine -/
  dry : Nat → List Act := fun _ => []
  /-- what the cached Get of goroutine `i` returns instead of the stored object:
  `none` = the cache is up to date; `some none` = a miss (NotFound although the object may
  exist); `some (some v)` = an older version `v` -/
  stale : Nat → Option (Option Obj) := fun _ => none

def VInterf.none : VInterf := {}

/-- ReleaseObjects as the world lets it run (its Get is not cached) -/
structure RInterf where
  /-- third-party writes immediately before the Get of the goroutine of reference `i` -/
  get : Nat → List Act := fun _ => []
  /-- third-party writes between that Get and the Update of the same goroutine -/
  upd : Nat → List Act := fun _ => []

def RInterf.none : RInterf := {}

/-- what the Get of goroutine `i` of `validate` returns for `d` in store `s` -/
def viewOf (vi : VInterf) (s : Store) (i : Nat) (d : Desired) : Option Obj :=
  match vi.stale i with
  | none => s.get d.key
  | some v => v

/-- one goroutine of `validate` in the world: `validateGo` with the third party writing
before the Get and before the dry-run call, and the Get answered by the cache -/
def validateGoV (rejects : Obj → Bool) (fault : Fault) (vi : VInterf) (p : Parent) (control : Bool)
    (s : Store) (i : Nat) (d : Desired) : Store × R CD :=
  let s1 := applyActs s (vi.get i)
  match fault i .get with
  | .crashBefore => (s1, .crash)
  | .crashAfter => (s1, .crash)
  | .fail => (s1, .err .other)
  | .conflict => (s1, .err .other)
  | .ok =>
    match viewOf vi s1 i d with
    | none =>
      if control then
        let des := { desiredObj d with owners := createRefs p }
        liftW ⟨des, none⟩ (apiCreate rejects true (fault i .dry) (applyActs s1 (vi.dry i)) des)
      else (s1, .ok ⟨desiredObj d, none⟩)
    | some cur =>
      match updateSub p control cur (desiredObj d) with
      | .error e => (s1, .err e)
      | .ok sub =>
        let cd : CD := if control then ⟨sub, some { cur with owners := withPkg p cur.owners }⟩
                       else ⟨desiredObj d, some sub⟩
        liftW cd (apiUpdate rejects true (fault i .dry) (applyActs s1 (vi.dry i)) sub)

def validateOneV (rejects : Obj → Bool) (fault : Fault) (vi : VInterf) (p : Parent) (control : Bool)
    (s : Store) (i : Nat) (d : Desired) : Store × R CD :=
  if control && d.needsCA && p.tls != .present then (s, .err .other)
  else validateGoV rejects fault vi p control s i d

def validateAllV (rejects : Obj → Bool) (fault : Fault) (vi : VInterf) (p : Parent) (control : Bool) :
    Store → List (Nat × Desired) → Store × R (List (Nat × CD))
  | s, [] => (s, .ok [])
  | s, (i, d) :: rest =>
    match validateOneV rejects fault vi p control s i d with
    | (s1, .crash) => (s1, .crash)
    | (s1, .err e) =>
      match validateAllV rejects fault vi p control s1 rest with
      | (s2, .crash) => (s2, .crash)
      | (s2, _) => (s2, .err e)
    | (s1, .ok cd) =>
      match validateAllV rejects fault vi p control s1 rest with
      | (s2, .ok cds) => (s2, .ok ((i, cd) :: cds))
      | (s2, .err e) => (s2, .err e)
      | (s2, .crash) => (s2, .crash)

/-- `validate` in the world, the third party's `tp.mid`, then `establish` under `tp.pre` -/
def establishCoreV (rejects : Obj → Bool) (fault : Fault) (vi : VInterf) (tp : Interf) (p : Parent) (control : Bool)
    (s : Store) (objs : List Desired) (vorder eorder : List Nat) : Store × R (List Ref) :=
  match validateAllV rejects fault vi p control s (pick objs vorder) with
  | (s1, .ok cds) => establishAllI rejects fault tp p control (applyActs s1 tp.mid) (pickCD cds eorder)
  | (s1, .err e) => (s1, .err e)
  | (s1, .crash) => (s1, .crash)

/-- `APIEstablisher.Establish` in the world -/
def establishV (rejects : Obj → Bool) (fault : Fault) (vi : VInterf) (tp : Interf) (p : Parent) (control : Bool)
    (s : Store) (objs : List Desired) (vorder eorder : List Nat) : Store × R (List Ref) :=
  match getCert fault p control with
  | .err e => (s, .err e)
  | .crash => (s, .crash)
  | .ok _ => establishCoreV rejects fault vi tp p control s objs vorder eorder

/-! ### ReleaseObjects in the world -/

def releaseOneV (rejects : Obj → Bool) (fault : Fault) (ri : RInterf) (p : Parent) (ran : Nat → Bool)
    (s : Store) (i : Nat) (ref : Ref) : Store × R Unit :=
  if !ref.kinded then (s, .err .other)
  else if !ran i then (s, .err .other)
  else
    let s1 := applyActs s (ri.get i)
    match fault i .get with
    | .crashBefore => (s1, .crash)
    | .crashAfter => (s1, .crash)
    | .fail => (s1, .err .other)
    | .conflict => (s1, .err .other)
    | .ok =>
      match s1.get ref.key with
      | none => (s1, .ok ())
      | some cur =>
        match releaseSub p cur with
        | none => (s1, .ok ())
        | some sub => liftW () (apiUpdate rejects false (fault i .real) (applyActs s1 (ri.upd i)) sub)

def releaseAllV (rejects : Obj → Bool) (fault : Fault) (ri : RInterf) (p : Parent) (ran : Nat → Bool) :
    Store → List (Nat × Ref) → Store × R Unit
  | s, [] => (s, .ok ())
  | s, (i, k) :: rest =>
    match releaseOneV rejects fault ri p ran s i k with
    | (s1, .crash) => (s1, .crash)
    | (s1, .err e) =>
      match releaseAllV rejects fault ri p ran s1 rest with
      | (s2, .crash) => (s2, .crash)
      | (s2, _) => (s2, .err e)
    | (s1, .ok _) => releaseAllV rejects fault ri p ran s1 rest

/-- `APIEstablisher.ReleaseObjects` in the world -/
def releaseV (rejects : Obj → Bool) (fault : Fault) (ri : RInterf) (p : Parent) (ran : Nat → Bool)
    (s : Store) (refs : List Ref) (order : List Nat) : Store × R Unit :=
  releaseAllV rejects fault ri p ran s (pick refs order)

/-! ### one reconcile and histories in the world -/

/-- everything the world does to one reconcile -/
structure World where
  /-- inside the validate phase of its Establish call (third party and cache) -/
  v : VInterf := {}
  /-- between the phases and inside the establish phase -/
  e : Interf := {}
  /-- inside its ReleaseObjects call -/
  r : RInterf := {}
  /-- the cached Get of the revision itself returned an older version carrying this
  `status.objectRefs` (and an old resourceVersion) -/
  staleRefs : Option (List Ref) := none

def World.none : World := {}

/-- Establish in the world, then `pr.SetObjects(sorted refs)` and the status update -/
def establishAndRecordV (sys : Sys) (s : Store) (r : Rev) (e : Env) (w : World) : Sys × R Unit :=
  match establishV e.rejects e.fault w.v w.e r.parent r.active s r.objs e.vorder e.eorder with
  | (s', .ok ks) => (⟨s', setRefs sys.refs r.parent.uid (e.sortRefs ks)⟩, .ok ())
  | (s', .err x) => (⟨s', sys.refs⟩, .err x)
  | (s', .crash) => (⟨s', sys.refs⟩, .crash)

/-- `reconcileRev` in the world. A reconcile that read the revision out of a lagging cache
(`staleRefs = some listed`) works on that list: an inactive revision releases what IT names and
takes the shortcut's decision on it; every write of the revision object itself — the update of
its metadata that precedes Establish, the status update that ends the shortcut — carries the
stale resourceVersion and is refused, so such a reconcile never reaches Establish, never
records anything and never reports success. -/
def reconcileRevV (sys : Sys) (r : Rev) (e : Env) (w : World) : Sys × R Unit :=
  match w.staleRefs with
  | some listed =>
    if r.active then (sys, .err .conflict)
    else
      match releaseV e.rejects e.fault w.r r.parent e.ran sys.store listed e.rorder with
      | (s1, .ok ()) => (⟨s1, sys.refs⟩, .err .conflict)
      | (s1, .err x) => (⟨s1, sys.refs⟩, .err x)
      | (s1, .crash) => (⟨s1, sys.refs⟩, .crash)
  | none =>
    if r.active then establishAndRecordV sys sys.store r e w
    else
      match releaseV e.rejects e.fault w.r r.parent e.ran sys.store (sys.refs r.parent.uid) e.rorder with
      | (s1, .ok ()) =>
        if (sys.refs r.parent.uid).length > 0 then (⟨s1, sys.refs⟩, .ok ())
        else establishAndRecordV sys s1 r e w
      | (s1, .err x) => (⟨s1, sys.refs⟩, .err x)
      | (s1, .crash) => (⟨s1, sys.refs⟩, .crash)

/-- one step of a history in the world: the third party writes `before`, then the revision
is reconciled in world `w` -/
structure WStep where
  before : List Act
  rev : Rev
  env : Env
  w : World

def runHistoryV : Sys → List WStep → Sys
  | sys, [] => sys
  | sys, x :: rest =>
    runHistoryV (reconcileRevV ⟨applyActs sys.store x.before, sys.refs⟩ x.rev x.env x.w).1 rest

/-! ### `spec.desiredState` as the string it is

The CRD puts no enum and no default on `spec.desiredState`. Besides `Active` and `Inactive`
it is, in practice, EMPTY: with `revisionActivationPolicy: Manual` the package manager creates
new revisions without a desired state ("never activated"); and it may be anything a user typed.
`Reconciler.Reconcile` reads it twice: `== Inactive` guards the deactivation (ReleaseObjects and
the shortcut), `== Active` is the `control` argument of Establish. So a revision whose desired
state is neither is not deactivated, takes no shortcut, and is established WITHOUT control: a
plain owner that creates nothing. -/

def activeState : String := "Active"
def inactiveState : String := "Inactive"

/-- one reconcile of the revision `p` with package `objs` whose `spec.desiredState` is `ds` -/
def reconcileState (sys : Sys) (p : Parent) (objs : List Desired) (ds : String) (e : Env) (w : World) : Sys × R Unit :=
  if ds = inactiveState then reconcileRevV sys ⟨p, false, objs⟩ e w
  else if ds = activeState then reconcileRevV sys ⟨p, true, objs⟩ e w
  else
    match w.staleRefs with
    | some _ => (sys, .err .conflict)   -- the update of the revision's metadata before Establish is refused
    | none => establishAndRecordV sys sys.store ⟨p, false, objs⟩ e w

/-- one step of a history: the third party writes `before`, then the revision `parent` (package
`objs`), whose desired state is the string `state` at that moment, is reconciled in world `w` -/
structure SStep where
  before : List Act
  parent : Parent
  objs : List Desired
  state : String
  env : Env
  w : World

def runHistoryS : Sys → List SStep → Sys
  | sys, [] => sys
  | sys, x :: rest =>
    runHistoryS (reconcileState ⟨applyActs sys.store x.before, sys.refs⟩ x.parent x.objs x.state x.env x.w).1 rest

end Xp.C16

/-
C02, site "the claim's connection secret on the delete path of the claim reconciler".

claim/reconciler.go Reconcile, `meta.WasDeleted(cm)` branch: Delete(XR) — `r.claim.UnpublishConnection(ctx, cm, nil)`
— RemoveFinalizer — status update. With the default options (`defaultCRClaim`) the
ConnectionUnpublisher is a `NopConnectionUnpublisher`: `UnpublishConnection` issues no API call
(`Xp.Gen.c02ClaimDefaultUnpublisher`, `Xp.Gen.c02SkelNopUnpublish` regenerate both facts from
the current tree). The claim's own secret is removed by Kubernetes garbage collection once the
claim object is gone; a secret that the claim's `writeConnectionSecretToRef` merely NAMES is
nobody's business here.
-/
namespace Xp.C02Unpub

inductive Ctrl where
  | claim | other | none
  deriving DecidableEq, Repr, Inhabited

structure Claim where
  wants : Bool       -- spec.writeConnectionSecretToRef set
  published : Bool   -- status.connectionDetails.lastPublishedTime set
  deriving DecidableEq, Repr, Inhabited

/-- the API calls `UnpublishConnection` addresses to secrets, and the secret slot afterwards -/
def unpublish (_ : Claim) (secret : Option Ctrl) : List String × Option Ctrl := ([], secret)

/-- any number of reconciles of the deleting claim -/
def unpublishN (c : Claim) : Nat → Option Ctrl → List String × Option Ctrl
  | 0, s => ([], s)
  | n + 1, s => let r := unpublish c s; let q := unpublishN c n r.2; (r.1 ++ q.1, q.2)

end Xp.C02Unpub

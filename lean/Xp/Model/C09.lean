/-
C09 model: connection secrets.
 * APIFilteredSecretPublisher.PublishConnection (composite/api.go) — Apply with the
   patching applicator (Get; Create | options; merge Patch),
 * APIConnectionPropagator.PropagateConnection (claim/connection.go) — Apply with the
   updating applicator (Get; Create | options; Update),
 * ExtractConnectionDetails (composite/connection.go).
A secret slot is `none` (absent) or a secret with its type, controller and data, as seen by one
caller. Model/C09World.lean lifts this to a store of secrets with absolute identities, per-call
fault plans and sequences of operations; the functions here are its fault-free special cases.
-/
namespace Xp.C09

inductive Ctrl where
  | none | owner | xr | other    -- no controller / the writer itself / the bound XR / someone else
  | xrPlain                      -- no controller, but the XR is listed as a plain (non-controller) owner
  deriving DecidableEq, Repr, Inhabited

abbrev Data := List (String × String)

structure Secret where
  conn : Bool      -- type is connection.crossplane.io/v1alpha1
  ctrl : Ctrl
  data : Data
  deriving DecidableEq, Repr, Inhabited

abbrev Slot := Option Secret

def dget (d : Data) (k : String) : Option String := (d.find? (·.1 = k)).map (·.2)

def dset : Data → String → String → Data
  | [], k, v => [(k, v)]
  | p :: ps, k, v => if p.1 = k then (k, v) :: ps else p :: dset ps k v

/-- the key filter of the XRD's connectionSecretKeys: an empty filter allows every key -/
def allowed (filter : List String) (k : String) : Bool := filter.isEmpty || filter.contains k

/-- what PublishConnection wants to store: the composition's details, filtered -/
def desiredData (filter : List String) (details : Data) : Data := details.filter fun kv => allowed filter kv.1

/-- resource.ConnectionSecretMustBeControllableBy(uid) for the writer `me` -/
def controllable (s : Secret) (me : Ctrl) : Bool :=
  match s.ctrl with
  | .none | .xrPlain => s.conn
  | c => c = me

/-- the no-op test of PublishConnection: is some key to be published missing or different? -/
def needsUpdate (cur desired : Data) : Bool := desired.any fun kv => dget cur kv.1 ≠ some kv.2

/-- JSON merge patch of the data map: published keys are set, other keys stay -/
def mergeData (cur desired : Data) : Data := desired.foldl (fun acc kv => dset acc kv.1 kv.2) cur

structure Res where
  slot : Slot        -- the destination afterwards
  published : Bool
  err : Bool
  writes : Nat       -- write requests addressed to the destination
  deriving DecidableEq, Repr, Inhabited

def publish (wants : Bool) (filter : List String) (details : Data) (slot : Slot) : Res :=
  if !wants then ⟨slot, false, false, 0⟩ else
  let d := desiredData filter details
  match slot with
  | none => ⟨some ⟨true, .owner, d⟩, true, false, 1⟩
  | some s =>
    if !controllable s .owner then ⟨slot, false, true, 0⟩
    else if !needsUpdate s.data d then ⟨slot, false, false, 0⟩
    else ⟨some ⟨true, .owner, mergeData s.data d⟩, true, false, 1⟩

/-- cmp.Equal on the two data maps -/
def dataEq (a b : Data) : Bool :=
  a.all (fun kv => dget b kv.1 = some kv.2) && b.all (fun kv => dget a kv.1 = some kv.2)

def propagate (fromWants toWants : Bool) (src dst : Slot) : Res :=
  if !fromWants || !toWants then ⟨dst, false, false, 0⟩ else
  match src with
  | none => ⟨dst, false, true, 0⟩
  | some fs =>
    if fs.ctrl ≠ .xr then ⟨dst, false, true, 0⟩     -- the source must be controlled by the bound XR
    else match dst with
      | none => ⟨some ⟨true, .owner, fs.data⟩, true, false, 1⟩
      | some d =>
        if !controllable d .owner then ⟨dst, false, true, 0⟩
        else if dataEq d.data fs.data then ⟨dst, false, false, 0⟩
        else ⟨some ⟨true, .owner, fs.data⟩, true, false, 1⟩

/-! ### the same two writers in an environment

`miss`: the writer's Get of the destination goes through the informer cache, which has not
seen an existing secret yet (the Get answers NotFound, the Create that follows is refused with
AlreadyExists). `swap`: a concurrent writer acts between the propagator's Get of the
destination and its Update: it replaces the XR's secret and touches the claim's secret, so the
Update is refused with a Conflict (the publisher's merge patch carries no resourceVersion and
is not affected). -/

structure Env where
  miss : Bool := false
  swap : Bool := false
  deriving DecidableEq, Repr, Inhabited

def publishE (e : Env) (wants : Bool) (filter : List String) (details : Data) (slot : Slot) : Res :=
  if !wants then ⟨slot, false, false, 0⟩ else
  match slot with
  | some _ => if e.miss then ⟨slot, false, true, 1⟩ else publish wants filter details slot
  | none => publish wants filter details slot

def propagateE (e : Env) (fromWants toWants : Bool) (src dst : Slot) : Res :=
  if !fromWants || !toWants then ⟨dst, false, false, 0⟩ else
  match src with
  | none => ⟨dst, false, true, 0⟩
  | some fs =>
    if fs.ctrl ≠ .xr then ⟨dst, false, true, 0⟩
    else match dst with
      | none => ⟨some ⟨true, .owner, fs.data⟩, true, false, 1⟩
      | some d =>
        if e.miss then ⟨dst, false, true, 1⟩
        else if !controllable d .owner then ⟨dst, false, true, 0⟩
        else if dataEq d.data fs.data then ⟨dst, false, false, 0⟩
        else if e.swap then ⟨dst, false, true, 1⟩
        else ⟨some ⟨true, .owner, fs.data⟩, true, false, 1⟩

/-- what the concurrent writer leaves in place of the XR's secret -/
def swappedSource (src : Slot) : Slot :=
  some ⟨(src.map (·.conn)).getD true, .other, [("admin-token", "s3cr3t")]⟩

structure Cfg where
  type : String
  name : String
  key : Option String
  path : Option String
  value : Option String
  deriving Repr, Inhabited

/-- what a field path designates on the composed resource (crossplane-runtime fieldpath.Pave
… GetValue; the library's path parsing and indexing stay an oracle): a string, or any other
JSON value -/
inductive FVal where
  | str (s : String)
  | int (n : Int)
  | bool (b : Bool)
  | strs (l : List String)     -- an array of (plain) strings
  deriving DecidableEq, Repr, Inhabited

/-- json.Marshal of a value that is not a string (strings: letters, digits, `-`, `.` only) -/
def marshal : FVal → String
  | .str s => "\"" ++ s ++ "\""
  | .int n => toString n
  | .bool b => if b then "true" else "false"
  | .strs l => "[" ++ ",".intercalate (l.map fun s => "\"" ++ s ++ "\"") ++ "]"

/-- fromFieldPath (composite/connection.go): GetString first; if the value is not a string,
GetValue and json.Marshal; no such field / malformed path ⇒ error (`none`) -/
def fromFieldPath : Option FVal → Option String
  | none => none
  | some (.str s) => some s
  | some v => some (marshal v)

/-- the field reader ExtractConnectionDetails uses, over the oracle `valueAt` -/
def fieldReader (valueAt : String → Option FVal) : String → Option String := fun p => fromFieldPath (valueAt p)

/-- ExtractConnectionDetails; `fieldAt` is the field-path reader of the composed resource
(`fieldReader valueAt`); `none` = error -/
def extract (conn : Data) (fieldAt : String → Option String) : List Cfg → Data → Option Data
  | [], acc => some acc
  | c :: cs, acc =>
    if c.name = "" then none else
    match c.type with
    | "FromValue" =>
      match c.value with
      | none => none
      | some v => extract conn fieldAt cs (dset acc c.name v)
    | "FromConnectionSecretKey" =>
      match c.key with
      | none => none
      | some k =>
        match dget conn k with
        | none => extract conn fieldAt cs acc
        | some v => extract conn fieldAt cs (dset acc c.name v)
    | "FromFieldPath" =>
      match c.path with
      | none => none
      | some p =>
        match fieldAt p with
        | none => extract conn fieldAt cs acc
        | some v => extract conn fieldAt cs (dset acc c.name v)
    | _ => extract conn fieldAt cs acc


/-- Provenance through the P&T composer: one referenced composed resource with template
connection detail `FromConnectionSecretKey key`. A resource controlled by another owner makes
the apply fail (MustBeControllableBy), so its connection details are never extracted and
nothing is published; otherwise the extracted detail is published to the XR's secret. -/
def ptFlow (cdCtrl : Ctrl) (cdSecret : Option Data) (key : String) (xrSecret : Slot) : Res × Bool :=
  if cdCtrl = .other then (⟨xrSecret, false, true, 0⟩, false)
  else
    let conn := cdSecret.getD []
    match extract conn (fun _ => none) [⟨"FromConnectionSecretKey", key, some key, none, none⟩] [] with
    | none => (⟨xrSecret, false, true, 0⟩, false)
    | some details => (publish true [] details xrSecret, true)

end Xp.C09

import Xp.Model.C13Skel
/-
C13 — internal/engine/cache.go at lock granularity.

The main model (Model/C13.lean) treats every entry point of InformerTrackingCache as ONE step
(`Act.getInformer g fault` for Get / List / GetInformer / GetInformerForKind, `Act.rmInformer g`
for RemoveInformer, a read of `tracked` for ActiveInformers). The Go code is not one step: each
entry point takes the cache's own RW lock for reading, looks the kind up in `active`, and either
calls the wrapped cache under the read lock (fast path: nothing to write) or releases the read
lock, takes the write lock, writes `active` WITHOUT looking again, and calls the wrapped cache
under the write lock:

    c.mx.RLock()
    if _, active := c.active[gvk]; active { defer c.mx.RUnlock(); return c.Cache.Get(...) }
    c.mx.RUnlock()
    c.mx.Lock(); defer c.mx.Unlock()
    c.active[gvk] = true
    return c.Cache.Get(...)

This file models exactly that: threads with program counters split at every acquire / release of
the cache lock, the lock state derived from the pcs, any number of goroutines, any interleaving.
`base` is the part of the main model's state the cache owns (`tracked`, `live`, `regs`, `nextGen`
of a `Sys`). Proofs/C13j.lean proves that the dance is atomic: every entry point changes `base`
at exactly one of its steps, and there exactly as the single step of the main model does
(`cache_ops_are_atomic`), so that the state of the cache is at all times the result of applying,
one after the other, the operations that passed that step (`cache_linearizable`). The wrapped
controller-runtime cache call itself stays one step (it is third-party code).
-/
namespace Xp.C13

inductive COp
  | read (g : Nat)      -- Get / List / GetInformer / GetInformerForKind of kind g
  | remove (g : Nat)    -- RemoveInformer
  | active              -- ActiveInformers
  deriving DecidableEq, Repr

/-- program counters; the comment gives the mode in which the cache lock is held AT the pc -/
inductive CPc
  | idle                  -- –    next: c.mx.RLock()
  | rd (b : Bool)         -- R    b = `_, active := c.active[gvk]` as read under the read lock
  | gap                   -- –    after c.mx.RUnlock(), next: c.mx.Lock()
  | wr                    -- W    next: the write to c.active and the call into the wrapped cache
  | relR (failed : Bool)  -- R    next: (deferred) c.mx.RUnlock()
  | relW (failed : Bool)  -- W    next: (deferred) c.mx.Unlock()
  | done (failed : Bool)  -- –
  deriving DecidableEq, Repr

structure CThread where
  op : COp
  pc : CPc
  deriving DecidableEq, Repr

structure CSys where
  base : Sys
  threads : List CThread
  deriving DecidableEq, Repr

def CPc.held : CPc → Mode
  | .rd _ | .relR _ => .r
  | .wr | .relW _ => .w
  | .idle | .gap | .done _ => .n

/-- has the operation passed the step at which it takes effect? -/
def CPc.applied : CPc → Bool
  | .relR _ | .relW _ | .done _ => true
  | .idle | .rd _ | .gap | .wr => false

def COp.gvk : COp → Nat
  | .read g | .remove g => g
  | .active => 0

/-- thread `i` may acquire the cache lock in mode `want` -/
def cfree (s : CSys) (i : Nat) (want : Mode) : Bool :=
  (List.range s.threads.length).all (fun j =>
    j == i || match s.threads[j]? with
              | some u => want.compat u.pc.held
              | none => true)

/-! ### what the code does to the state, piece by piece -/

/-- `c.Cache.Get / List / GetInformer / GetInformerForKind`: the wrapped cache creates the
informer of the kind if there is none; a failing call creates nothing -/
def underGet (g : Nat) (fault : Bool) (b : Sys) : Sys :=
  if fault then b
  else match aget g b.live with
    | some _ => b
    | none => { b with live := (g, b.nextGen) :: b.live, nextGen := b.nextGen + 1 }

/-- `c.Cache.RemoveInformer`: the informer and every handler registered on it are gone -/
def underRemove (g : Nat) (b : Sys) : Sys :=
  { b with live := adel g b.live, regs := b.regs.filter (fun r => decide (r.wid.gvk ≠ g)) }

/-- `c.active[gvk] = true` -/
def markActive (g : Nat) (b : Sys) : Sys :=
  { b with tracked := if b.tracked.contains g then b.tracked else g :: b.tracked }

/-- `delete(c.active, gvk)` -/
def unmarkActive (g : Nat) (b : Sys) : Sys :=
  { b with tracked := b.tracked.filter (fun x => decide (x ≠ g)) }

/-- one step of thread `i`; `fault`: the call into the wrapped cache fails -/
def cnext (s : CSys) (i : Nat) (t : CThread) (fault : Bool) : Option (CPc × Sys) :=
  match t.pc with
  | .idle =>                                   -- c.mx.RLock(); _, active := c.active[gvk]
    if cfree s i .r then
      match t.op with
      | .active => some (.relR false, s.base)  --   (ActiveInformers: defer RUnlock; copy the keys)
      | .read g | .remove g => some (.rd (s.base.tracked.contains g), s.base)
    else none
  | .rd b =>
    match t.op with
    | .read g =>
      if b then some (.relR fault, underGet g fault s.base)     -- defer c.mx.RUnlock(); return c.Cache.Get(...)
      else some (.gap, s.base)                                  -- c.mx.RUnlock()
    | .remove g =>
      if b then some (.gap, s.base)                             -- c.mx.RUnlock()
      else some (.relR false, underRemove g s.base)             -- defer c.mx.RUnlock(); return c.Cache.RemoveInformer(...)
    | .active => some (.relR false, s.base)
  | .gap => if cfree s i .w then some (.wr, s.base) else none   -- c.mx.Lock(); defer c.mx.Unlock()
  | .wr =>
    match t.op with
    | .read g => some (.relW fault, underGet g fault (markActive g s.base))   -- c.active[gvk] = true; return c.Cache.Get(...)
    | .remove g => some (.relW false, underRemove g (unmarkActive g s.base))  -- delete(c.active, gvk); return c.Cache.RemoveInformer(...)
    | .active => some (.relW false, s.base)
  | .relR f => some (.done f, s.base)          -- c.mx.RUnlock()
  | .relW f => some (.done f, s.base)          -- c.mx.Unlock()
  | .done _ => none

def cstep (s : CSys) (i : Nat) (fault : Bool) : Option CSys :=
  match s.threads[i]? with
  | none => none
  | some t =>
    match cnext s i t fault with
    | none => none
    | some (pc', b') => some { base := b', threads := s.threads.set i { t with pc := pc' } }

def cinit (b : Sys) (ops : List COp) : CSys := { base := b, threads := ops.map (fun o => ⟨o, .idle⟩) }

/-- states reachable from any cache state `b` under any interleaving and any faults -/
inductive CReach (b : Sys) (ops : List COp) : CSys → Prop
  | init : CReach b ops (cinit b ops)
  | step {s s'} (i : Nat) (fault : Bool) : CReach b ops s → cstep s i fault = some s' → CReach b ops s'

/-- the single step by which the main model performs the operation -/
def atomicAct : COp → Bool → Act
  | .read g, fault => .getInformer g fault
  | .remove g, _ => .rmInformer g
  | .active, _ => .nop

/-! ### events, in the vocabulary of the skeletons of cache.go -/

/-- `via`: the entry point ("Get", "List", "GetInformer", "GetInformerForKind") a `read` stands for -/
def cEvents (via : String) (t : CThread) (pc' : CPc) : List String :=
  let locks := lockOp "mx." t.pc.held pc'.held
  match t.pc, t.op, pc' with
  | .rd _, .read _, .relR _ => ["Cache." ++ via]
  | .rd _, .remove _, .relR _ => ["Cache.RemoveInformer"]
  | .wr, .read _, _ => ["set active[]", "Cache." ++ via]
  | .wr, .remove _, _ => ["delete active", "Cache.RemoveInformer"]
  | _, _, _ => locks

def cRunTrace (via : String) (s : CSys) : List (Nat × Bool) → Option (CSys × List (Nat × String))
  | [] => some (s, [])
  | (i, f) :: rest =>
    match s.threads[i]? with
    | none => none
    | some t =>
      match cnext s i t f with
      | none => none
      | some (pc', b') =>
        match cRunTrace via { base := b', threads := s.threads.set i { t with pc := pc' } } rest with
        | none => none
        | some (s', evs) => some (s', (cEvents via t pc').map (fun e => (i, e)) ++ evs)

def cTraceOf (via : String) (b : Sys) (ops : List COp) (sched : List (Nat × Bool)) (i : Nat) : Option (List String) :=
  (cRunTrace via (cinit b ops) sched).map (fun r => (r.2.filter (fun e => e.1 == i)).map (·.2))

/-! ### declared skeletons of cache.go -/

/-- InformerTrackingCache.ActiveInformers -/
def flowActiveInformers : List Tok := [
  tCall 0 "mx.RLock",                      -- idle → relR : acquire the cache lock (R)
  tDefer 0 "mx.RUnlock",                   -- relR → done
  tFor 0 "range c.active",                 --   the main model's `swAI`/`swAI2` read `s.tracked`
  tRet 0]

/-- the lock dance of Get / List / GetInformer / GetInformerForKind (`via` = the wrapped call;
`pre` = what the entry point does before it takes the lock) -/
def flowCacheRead (pre : List Tok) (via : String) : List Tok := pre ++ [
  tCall 0 "mx.RLock",                      -- idle → rd b : acquire (R); b := active[gvk]
  tIf 0 "active",                          -- rd true
  tDefer 1 "mx.RUnlock",                   --   relR → done
  tCall 1 ("Cache." ++ via),               --   rd true → relR : underGet (nothing to write: the kind is active)
  tRet 1,
  tCall 0 "mx.RUnlock",                    -- rd false → gap
  tCall 0 "mx.Lock",                       -- gap → wr : acquire (W)
  tDefer 0 "mx.Unlock",                    -- relW → done
  tSet 0 "active[]",                       -- wr → relW : markActive (no second look at `active`)
  tCall 0 ("Cache." ++ via),               --   … underGet
  tRet 0]

/-- `gvk, err := apiutil.GVKForObject(obj, c.scheme)`: kinds are numbers in the model -/
def preGVK : List Tok := [tCall 0 "apiutil.GVKForObject", tIf 0 "err != nil", tRet 1]

/-- List: the kind of the list's ITEMS (`Op.cacheRead` carries the item kind) -/
def preList : List Tok := preGVK ++ [tCall 0 "strings.TrimSuffix", tSet 0 "gvk.Kind"]

/-- InformerTrackingCache.RemoveInformer -/
def flowCacheRemove : List Tok := preGVK ++ [
  tCall 0 "mx.RLock",                      -- idle → rd b
  tIf 0 "!active",                         -- rd false
  tDefer 1 "mx.RUnlock",                   --   relR → done
  tCall 1 "Cache.RemoveInformer",          --   rd false → relR : underRemove (nothing to write)
  tRet 1,
  tCall 0 "mx.RUnlock",                    -- rd true → gap
  tCall 0 "mx.Lock",                       -- gap → wr
  tDefer 0 "mx.Unlock",                    -- relW → done
  tCall 0 "delete active",                 -- wr → relW : unmarkActive
  tCall 0 "Cache.RemoveInformer",          --   … underRemove
  tRet 0]

def skipCache : List String :=
  ["apiutil.GVKForObject",                 -- kinds are opaque numbers; assumption: succeeds for the watched objects
   "strings.TrimSuffix", "set gvk.Kind"]   -- List: the harness maps the list kind to the item kind (monitored on the real cache)

end Xp.C13

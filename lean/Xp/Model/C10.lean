import Xp.Gen.C10Tables
/-
C10 model: Patch & Transform rendering.

Mirrors, call by call,
  internal/controller/apiextensions/composite/composition_patches.go   (Apply, ApplyFromFieldPathPatch,
      ApplyCombineFromVariablesPatch, IsOptionalFieldPathNotFound, Combine, patchFieldValueToMultiple)
  internal/controller/apiextensions/composite/merge.go                 (patchFieldValueToObject)
  internal/controller/apiextensions/composite/composition_transforms.go (Resolve*, conversions)
  internal/controller/apiextensions/composite/composition_render.go     (RenderFromJSON, Render*Patches,
      RenderComposedResourceMetadata)
  internal/controller/apiextensions/composite/composition_pt.go         (PTComposer.Compose: render loop, apply loop)
and the part of crossplane-runtime/pkg/fieldpath they call (getValue, setValue, expandWildcards, MergeValue).

What is NOT computed by the model (library behaviour, shipped by the harness as an oracle table that is
keyed by the operation's input, so that the model refuses an oracle computed for another input):
the field path parser, Go regexp, fmt.Sprintf outside the fragment `sprintfLite` computes, float64
arithmetic/printing/parsing, resource.Quantity, hashing, base64, strings.ToUpper/ToLower on non-ASCII text,
encoding/json of transform values, mergo.
-/
namespace Xp.C10

/-! ## values -/

/-- JSON-like values as held in an `unstructured` object: int64 and float64 are distinct;
a float is opaque and carried by the text Go's encoding/json prints for it
("+Inf", "-Inf", "NaN" for the values JSON cannot print). -/
inductive V where
  | null
  | bool (b : Bool)
  | num (i : Int)
  | flt (r : String)
  | str (s : String)
  | arr (l : List V)
  | obj (l : List (String × V))
  deriving Repr, Inhabited

namespace V

mutual
def beq : V → V → Bool
  | .null, .null => true
  | .bool a, .bool b => a == b
  | .num a, .num b => a == b
  | .flt a, .flt b => a == b
  | .str a, .str b => a == b
  | .arr a, .arr b => beqList a b
  | .obj a, .obj b => beqFields a b
  | _, _ => false
def beqList : List V → List V → Bool
  | [], [] => true
  | x :: xs, y :: ys => beq x y && beqList xs ys
  | _, _ => false
def beqFields : List (String × V) → List (String × V) → Bool
  | [], [] => true
  | (k, x) :: xs, (k', y) :: ys => k == k' && beq x y && beqFields xs ys
  | _, _ => false
end

instance : BEq V := ⟨beq⟩

def lookup (k : String) : List (String × V) → Option V
  | [] => none
  | (k', v) :: rest => if k' = k then some v else lookup k rest

def setKey (k : String) (v : V) : List (String × V) → List (String × V)
  | [] => [(k, v)]
  | (k', v') :: rest => if k' = k then (k, v) :: rest else (k', v') :: setKey k v rest

def eraseKey (k : String) : List (String × V) → List (String × V)
  | [] => []
  | (k', v) :: rest => if k' = k then eraseKey k rest else (k', v) :: eraseKey k rest

def get? (v : V) (k : String) : Option V :=
  match v with
  | .obj l => lookup k l
  | _ => none

def getStr? : V → Option String
  | .str s => some s
  | _ => none

end V

open V (lookup setKey eraseKey)

/-! ## errors -/

/-- Error classes. The Go harness maps real errors to the same names (by the message constants of the
source). `panic` is used where the Go code would panic (index out of range). -/
inductive E where
  | notFound | notArray | notObject | wildUsage | maxIndex | parse
  | required | patchType | combineVars | combineStrategy | combineCfg
  | xfType | xfCfg | mathCfg | mathInput | mapKey | mapType | mapJSON
  | matchInput | matchPatternType | matchFallbackBoth | matchJSON | regexpCompile
  | strType | strCfg | strConvType | joinInput | noMatch | b64 | marshal
  | convCfg | convInput | convPair | convParse
  | kindMissing | expand | merge | oracleMiss | panic
  deriving DecidableEq, Repr, Inhabited

def E.name : E → String
  | .notFound => "notFound" | .notArray => "notArray" | .notObject => "notObject" | .wildUsage => "wildUsage"
  | .maxIndex => "maxIndex" | .parse => "parse" | .required => "required" | .patchType => "patchType"
  | .combineVars => "combineVars" | .combineStrategy => "combineStrategy" | .combineCfg => "combineCfg"
  | .xfType => "xfType" | .xfCfg => "xfCfg" | .mathCfg => "mathCfg" | .mathInput => "mathInput"
  | .mapKey => "mapKey" | .mapType => "mapType" | .mapJSON => "mapJSON" | .matchInput => "matchInput"
  | .matchPatternType => "matchPatternType" | .matchFallbackBoth => "matchFallbackBoth" | .matchJSON => "matchJSON"
  | .regexpCompile => "regexpCompile" | .strType => "strType" | .strCfg => "strCfg" | .strConvType => "strConvType"
  | .joinInput => "joinInput" | .noMatch => "noMatch" | .b64 => "b64" | .marshal => "marshal"
  | .convCfg => "convCfg" | .convInput => "convInput" | .convPair => "convPair" | .convParse => "convParse"
  | .kindMissing => "kindMissing" | .expand => "expand" | .merge => "merge" | .oracleMiss => "oracleMiss"
  | .panic => "panic"

/-! ## field paths (crossplane-runtime/pkg/fieldpath) -/

inductive Seg where
  | field (s : String)
  | index (n : Nat)
  deriving DecidableEq, Repr, Inhabited

/-- A field path as the harness ships it: the raw string and what `fieldpath.Parse` made of it
(`none` = parse error). -/
structure Path where
  raw : String
  segs : Option (List Seg)
  deriving Repr, Inhabited

/-- one iteration of getValueFromInterface -/
def stepGet (it : V) : Seg → Except E V
  | .index n =>
    match it with
    | .arr l => match l[n]? with
      | some v => .ok v
      | none => .error .notFound
    | _ => .error .notArray
  | .field k =>
    match it with
    | .obj m => match lookup k m with
      | some v => .ok v
      | none => .error .notFound
    | .null => .error .notFound
    | _ => .error .notObject

def getIn : V → List Seg → Except E V
  | it, [] => .ok it
  | it, s :: rest => match stepGet it s with
    | .ok v => getIn v rest
    | .error e => .error e

/-- Paved.getValue: an empty segment list falls out of the loop and yields (nil, nil). -/
def getValue (root : V) (segs : List Seg) : Except E V :=
  match segs with
  | [] => .ok .null
  | _ => getIn root segs

/-- Paved.GetValue(path) -/
def getPath (root : V) (p : Path) : Except E V :=
  match p.segs with
  | none => .error .parse
  | some s => getValue root s

/-- what prepareField / prepareElement create for a missing value -/
def fresh : Seg → V
  | .index n => .arr (List.replicate (n + 1) .null)
  | .field _ => .obj []

/-- prepareField / prepareElement on an existing value: an array that is too short for the next index grows -/
def grow (c : V) : Seg → V
  | .index n => match c with
    | .arr l => if n < l.length then c else .arr (l ++ List.replicate (n - l.length + 1) .null)
    | _ => c
  | .field _ => c

/-- prepareField: a key that is present (even with a null value) is not re-created -/
def prepField (m : List (String × V)) (k : String) (nx : Seg) : V :=
  match lookup k m with
  | none => fresh nx
  | some c => grow c nx

/-- prepareElement: a nil element is re-created -/
def prepElem (e : V) (nx : Seg) : V :=
  match e with
  | .null => fresh nx
  | c => grow c nx

/-- The loop of Paved.setValue (after toValidJSON and validateSegments). `array[i] = v` with `i`
out of range would be a Go panic. -/
def setIn : V → List Seg → V → Except E V
  | it, [], _ => .ok it
  | it, .field k :: rest, v =>
    match it with
    | .obj m =>
      match rest with
      | [] => .ok (.obj (setKey k v m))
      | nx :: _ =>
        match setIn (prepField m k nx) rest v with
        | .ok c' => .ok (.obj (setKey k c' m))
        | .error e => .error e
    | _ => .error .notObject
  | it, .index n :: rest, v =>
    match it with
    | .arr l =>
      if n < l.length then
        match rest with
        | [] => .ok (.arr (l.set n v))
        | nx :: _ =>
          match setIn (prepElem (l.getD n .null) nx) rest v with
          | .ok c' => .ok (.arr (l.set n c'))
          | .error e => .error e
      else .error .panic
    | _ => .error .notArray

def maxIndex : Nat := 1024

def segTooBig : Seg → Bool
  | .index n => n > maxIndex
  | .field _ => false

/-! ### JSON round trip (toValidJSON, FromUnstructured) -/

def isDigit (c : Char) : Bool := '0' ≤ c && c ≤ '9'

def digitVal (c : Char) : Nat := c.toNat - '0'.toNat

/-- all characters are decimal digits, at least one: value -/
def parseDigitsAcc : Nat → List Char → Option Nat
  | acc, [] => some acc
  | acc, c :: cs => if isDigit c then parseDigitsAcc (acc * 10 + digitVal c) cs else none

def parseDigits : List Char → Option Nat
  | [] => none
  | cs => parseDigitsAcc 0 cs

def minInt64 : Int := -(2 ^ 63)
def maxInt64 : Int := 2 ^ 63 - 1
def fits64 (i : Int) : Bool := minInt64 ≤ i && i ≤ maxInt64

/-- the text of a JSON number is an integer literal that fits int64: sigs.k8s.io/json decodes it as int64 -/
def intLit (r : String) : Option Int :=
  let v : Option Int := match r.toList with
    | '-' :: ds => (parseDigits ds).map fun n => -(n : Int)
    | ds => (parseDigits ds).map fun n => (n : Int)
  match v with
  | some i => if fits64 i then some i else none
  | none => none

def nonFinite (r : String) : Bool := r == "+Inf" || r == "-Inf" || r == "NaN"

mutual
/-- json.Marshal followed by k8s json.Unmarshal into `any`: floats whose text is an integer
literal become int64; +Inf, -Inf and NaN cannot be marshalled. -/
def norm : V → Except E V
  | .flt r => if nonFinite r then .error .marshal else
      match intLit r with
      | some i => .ok (.num i)
      | none => .ok (.flt r)
  | .arr l => match normList l with
    | .ok l' => .ok (.arr l')
    | .error e => .error e
  | .obj m => match normFields m with
    | .ok m' => .ok (.obj m')
    | .error e => .error e
  | v => .ok v
def normList : List V → Except E (List V)
  | [] => .ok []
  | x :: xs => match norm x with
    | .ok x' => match normList xs with
      | .ok xs' => .ok (x' :: xs')
      | .error e => .error e
    | .error e => .error e
def normFields : List (String × V) → Except E (List (String × V))
  | [] => .ok []
  | (k, x) :: xs => match norm x with
    | .ok x' => match normFields xs with
      | .ok xs' => .ok ((k, x') :: xs')
      | .error e => .error e
    | .error e => .error e
end

/-- Paved.setValue -/
def setValue (root : V) (segs : List Seg) (value : V) : Except E V :=
  match norm value with
  | .error _ => .error .marshal   -- "cannot marshal value to JSON"
  | .ok v =>
    if segs.any segTooBig then .error .maxIndex
    else setIn root segs v

/-! ### wildcards -/

def isWild : Seg → Bool
  | .field s => s == "*"
  | .index _ => false

/-- strings.Trim(s, "'\"") as done by fieldpath.Field -/
def trimQuotes (s : String) : String :=
  let isQ := fun (c : Char) => c == '\'' || c == '"'
  String.ofList ((s.toList.dropWhile isQ).reverse.dropWhile isQ).reverse

/-- expandWildcards. The Go function restarts from the root with the wildcard replaced; walking
down with the current value is the same thing as long as no map key is itself "*"
(in which case the Go function does not terminate; the generators never produce such a key).
Map entries are visited in the order of the association list (Go: random order). -/
def expandIn : V → List Seg → Except E (List (List Seg))
  | _, [] => .ok [[]]
  | it, s :: rest =>
    if isWild s then
      match it with
      | .arr l =>
        let rec goArr (i : Nat) : List V → Except E (List (List Seg))
          | [] => .ok []
          | x :: xs => match expandIn x rest with
            | .error e => .error e
            | .ok r => match goArr (i + 1) xs with
              | .error e => .error e
              | .ok r' => .ok (r.map (Seg.index i :: ·) ++ r')
        goArr 0 l
      | .obj m =>
        let rec goObj : List (String × V) → Except E (List (List Seg))
          | [] => .ok []
          | (k, x) :: xs => match expandIn x rest with
            | .error e => .error e
            | .ok r => match goObj xs with
              | .error e => .error e
              | .ok r' => .ok (r.map (Seg.field (trimQuotes k) :: ·) ++ r')
        goObj m
      | .null => .error .notFound
      | _ => .error .wildUsage
    else
      match stepGet it s with
      | .error .notFound => .ok []
      | .error e => .error e
      | .ok v => match expandIn v rest with
        | .error e => .error e
        | .ok r => .ok (r.map (s :: ·))

/-! ### merge -/

structure MergeOpts where
  keep : Option Bool
  append : Option Bool
  deriving Repr, Inhabited, DecidableEq

/-- An oracle table for a library function: entries are objects holding the input(s) under
"in" (and "in2") and results under further keys. -/
abbrev Orc := V

def orcGet (o : Orc) (k : String) : Option V := o.get? k

/-- The oracle is only valid for the input it was computed for. -/
def orcFor (o : Orc) (input : V) : Bool :=
  match o.get? "in" with
  | some i => i == input
  | none => false

def orcStr (o : Orc) (input : V) (k : String) : Except E String :=
  if orcFor o input then
    match o.get? k with
    | some (.str s) => .ok s
    | _ => .error .oracleMiss
  else .error .oracleMiss

def orcVal (o : Orc) (input : V) (k : String) : Except E V :=
  if orcFor o input then
    match o.get? k with
    | some v => .ok v
    | none => .error .oracleMiss
  else .error .oracleMiss

/-! Objects are association lists; two lists that hold the same keys in a different order are the
same JSON object. Oracle operands are compared up to that order (the driver parses oracle entries
into key-sorted lists while the model builds objects in patch order). -/

def insertField (k : String) (v : V) : List (String × V) → List (String × V)
  | [] => [(k, v)]
  | (k', v') :: rest => if k < k' then (k, v) :: (k', v') :: rest else (k', v') :: insertField k v rest

mutual
/-- keys of every object sorted (insertion sort), recursively -/
def canon : V → V
  | .arr l => .arr (canonList l)
  | .obj m => .obj (canonFields m)
  | v => v
def canonList : List V → List V
  | [] => []
  | x :: xs => canon x :: canonList xs
def canonFields : List (String × V) → List (String × V)
  | [] => []
  | (k, x) :: xs => insertField k (canon x) (canonFields xs)
end

/-- the oracle entry `o` holds the operand `v` under key `k` (up to the order of object keys) -/
def orcOperand (o : Orc) (k : String) (v : V) : Bool :=
  match o.get? k with
  | some x => canon x == canon v
  | none => false

/-- fieldpath.merge: with either side nil the source replaces; otherwise mergo (oracle: a list of
{"dst","src","out"|"err"} entries computed by the library for these very operands). -/
def mergeVals (orc : List Orc) (dst src : V) : Except E V :=
  match dst, src with
  | .null, _ => .ok src
  | _, .null => .ok src
  | _, _ =>
    match orc.find? (fun o => orcOperand o "dst" dst && orcOperand o "src" src) with
    | none => .error .oracleMiss
    | some o => match o.get? "out" with
      | some v => .ok v
      | none => .error .merge

/-- Paved.MergeValue -/
def mergeValue (orc : List Orc) (root : V) (segs : List Seg) (value : V) (mo : Option MergeOpts) : Except E V :=
  let dst : Except E V :=
    match getValue root segs with
    | .error .notFound => .ok .null
    | .error e => if mo.isNone then .ok .null else .error e
    | .ok v => if mo.isNone then .ok .null else .ok v
  match dst with
  | .error e => .error e
  | .ok d =>
    match mergeVals orc d value with
    | .error e => .error e
    | .ok merged => setValue root segs merged

/-! ## objects after a patch: FromUnstructured -/

/-- `GetObjectKind().GroupVersionKind().Kind` of an unstructured object: an apiVersion with
more than one slash does not parse (schema.ParseGroupVersion) and yields the empty GVK. -/
def kindOf (o : V) : String :=
  let apiVersionOk := match o.get? "apiVersion" with
    | some (.str a) => (a.toList.filter (· == '/')).length ≤ 1
    | _ => true
  if !apiVersionOk then "" else
  match o.get? "kind" with
  | some (.str s) => s
  | _ => ""

/-- Result of patching: the state the `to` object is left in, and the error if any. -/
structure Out where
  to : V
  err : Option E
  deriving Inhabited

/-- runtime.DefaultUnstructuredConverter.FromUnstructured(paved, to) for an unstructured `to`:
JSON round trip of the whole object, then the decoder insists on a kind (the object keeps the
decoded content even then). -/
def fromUnstructured (to' : V) : Out :=
  match norm to' with
  | .error _ => ⟨to', some .marshal⟩
  | .ok n => if kindOf n == "" then ⟨n, some .kindMissing⟩ else ⟨n, none⟩

/-- patchFieldValueToObject -/
def patchToObject (orc : List Orc) (path : Path) (value : V) (to : V) (mo : Option MergeOpts) : Out :=
  match path.segs with
  | none => ⟨to, some .parse⟩
  | some segs =>
    match mergeValue orc to segs value mo with
    | .error e => ⟨to, some e⟩
    | .ok to' => fromUnstructured to'

def mergeAll (orc : List Orc) (value : V) (mo : Option MergeOpts) : V → List (List Seg) → Except E V
  | root, [] => .ok root
  | root, p :: ps => match mergeValue orc root p value mo with
    | .error e => .error e
    | .ok r => mergeAll orc value mo r ps

/-- patchFieldValueToMultiple. The expanded paths are printed and parsed again by the library;
that round trip is the identity for keys without brackets, quotes and leading/trailing periods. -/
def patchToMultiple (orc : List Orc) (path : Path) (value : V) (to : V) (mo : Option MergeOpts) : Out :=
  match path.segs with
  | none => ⟨to, some .parse⟩
  | some segs =>
    match expandIn to segs with
    | .error e => ⟨to, some e⟩
    | .ok [] => ⟨to, some .expand⟩
    | .ok paths =>
      match mergeAll orc value mo to paths with
      | .error e => ⟨to, some e⟩
      | .ok to' => fromUnstructured to'

/-! ## strings and numbers -/

def digitChar (d : Nat) : Char := Char.ofNat (48 + d)

def natDigits (n : Nat) : List Char :=
  if h : n < 10 then [digitChar n] else natDigits (n / 10) ++ [digitChar (n % 10)]
termination_by n
decreasing_by omega

/-- strconv.FormatInt(i, 10) -/
def fmtInt (i : Int) : String :=
  if i < 0 then String.ofList ('-' :: natDigits i.natAbs) else String.ofList (natDigits i.toNat)

def parsePos (ds : List Char) : Option Int :=
  match parseDigits ds with
  | none => none
  | some n => if n < 2 ^ 63 then some (n : Int) else none

def parseNeg (ds : List Char) : Option Int :=
  match parseDigits ds with
  | none => none
  | some n => if n ≤ 2 ^ 63 then some (-(n : Int)) else none

/-- strconv.ParseInt(s, 10, 64): optional sign, decimal digits only, range checked -/
def parseInt (s : String) : Option Int :=
  match s.toList with
  | '+' :: r => parsePos r
  | '-' :: r => parseNeg r
  | cs => parsePos cs

/-- strconv.FormatBool -/
def fmtBool (b : Bool) : String := if b then "true" else "false"

/-- strconv.ParseBool -/
def parseBool (s : String) : Option Bool :=
  if s == "1" || s == "t" || s == "T" || s == "TRUE" || s == "true" || s == "True" then some true
  else if s == "0" || s == "f" || s == "F" || s == "FALSE" || s == "false" || s == "False" then some false
  else none

/-- int64 multiplication wraps around -/
def wrap64 (x : Int) : Int := (x + 2 ^ 63) % 2 ^ 64 - 2 ^ 63

/-- strings.TrimPrefix -/
def trimPrefix (s pre : String) : String :=
  if pre.toList.isPrefixOf s.toList then String.ofList (s.toList.drop pre.toList.length) else s

/-- strings.TrimSuffix -/
def trimSuffix (s suf : String) : String :=
  if suf.toList.reverse.isPrefixOf s.toList.reverse then String.ofList (s.toList.take (s.toList.length - suf.toList.length)) else s

def containsSub (s sub : String) : Bool :=
  let rec go : List Char → Bool
    | [] => sub.toList.isEmpty
    | c :: cs => sub.toList.isPrefixOf (c :: cs) || go cs
  go s.toList

/-- fmt.Sprintf("%v", x) for scalars; anything else (floats, arrays, maps) through the oracle key "pv" -/
def fmtV (orc : Orc) (x : V) : Except E String :=
  match x with
  | .str s => .ok s
  | .num i => .ok (fmtInt i)
  | .bool b => .ok (fmtBool b)
  | .null => .ok "<nil>"
  | _ => orcStr orc x "pv"

/-! ### computed string functions (were oracle entries): ASCII case mapping, the plain fragment of fmt.Sprintf -/

def isAsciiStr (s : String) : Bool := s.toList.all fun c => c.toNat < 128

def upperChar (c : Char) : Char := if 'a' ≤ c && c ≤ 'z' then Char.ofNat (c.toNat - 32) else c
def lowerChar (c : Char) : Char := if 'A' ≤ c && c ≤ 'Z' then Char.ofNat (c.toNat + 32) else c

/-- strings.ToUpper on ASCII text: 'a'..'z' are shifted, every other byte is kept -/
def asciiUpper (s : String) : String := String.ofList (s.toList.map upperChar)
/-- strings.ToLower on ASCII text -/
def asciiLower (s : String) : String := String.ofList (s.toList.map lowerChar)

/-- strings.ToUpper(fmt.Sprintf("%v", input)): computed for ASCII text, Unicode case mapping
(library tables) through the oracle key "upper" -/
def upperOf (orc : Orc) (input : V) : Except E String :=
  match fmtV orc input with
  | .error e => .error e
  | .ok s => if isAsciiStr s then .ok (asciiUpper s) else orcStr orc input "upper"

/-- strings.ToLower(fmt.Sprintf("%v", input)) -/
def lowerOf (orc : Orc) (input : V) : Except E String :=
  match fmtV orc input with
  | .error e => .error e
  | .ok s => if isAsciiStr s then .ok (asciiLower s) else orcStr orc input "lower"

/-- fmt.Sprintf(format, args...) on the fragment the model computes: literal text, `%%` and the plain
verbs `%s` (string operand), `%d` (integer operand), `%t` (bool operand), `%v` (string, integer,
bool or nil operand), every operand consumed exactly once, in order. `none`: outside the fragment
(flags, widths, argument indexes, other verbs, a verb/operand mismatch, missing or extra operands –
fmt's `%!verb(type=value)` / `%!(EXTRA …)` / `%!(NOVERB)` diagnostics –, float/array/map operands):
the library's answer is taken from the oracle. -/
def sprintfLite : List Char → List V → Option (List Char)
  | [], [] => some []
  | [], _ :: _ => none
  | '%' :: '%' :: rest, args => (sprintfLite rest args).map ('%' :: ·)
  | '%' :: 's' :: rest, .str s :: args => (sprintfLite rest args).map (s.toList ++ ·)
  | '%' :: 'd' :: rest, .num i :: args => (sprintfLite rest args).map ((fmtInt i).toList ++ ·)
  | '%' :: 't' :: rest, .bool b :: args => (sprintfLite rest args).map ((fmtBool b).toList ++ ·)
  | '%' :: 'v' :: rest, .str s :: args => (sprintfLite rest args).map (s.toList ++ ·)
  | '%' :: 'v' :: rest, .num i :: args => (sprintfLite rest args).map ((fmtInt i).toList ++ ·)
  | '%' :: 'v' :: rest, .bool b :: args => (sprintfLite rest args).map ((fmtBool b).toList ++ ·)
  | '%' :: 'v' :: rest, .null :: args => (sprintfLite rest args).map ("<nil>".toList ++ ·)
  | '%' :: _, _ => none
  | c :: rest, args => (sprintfLite rest args).map (c :: ·)

/-- fmt.Sprintf(format, input) of the string Format transform -/
def fmtStr (orc : Orc) (format : String) (input : V) : Except E String :=
  match sprintfLite format.toList [input] with
  | some cs => .ok (String.ofList cs)
  | none => orcStr orc input "fmt"

/-- `%T` of a value held in an unstructured object -/
def goType : V → String
  | .null => "<nil>"
  | .bool _ => "bool"
  | .num _ => "int64"
  | .flt _ => "float64"
  | .str _ => "string"
  | .arr _ => "[]interface {}"
  | .obj _ => "map[string]interface {}"

/-! ## transforms -/

/-- extv1.JSON as used by map/match: nil bytes, empty non-nil bytes, bytes that encoding/json rejects,
or the decoded value (encoding/json: every number is a float64). -/
inductive Raw where
  | nil | empty | bad | val (v : V)
  deriving Repr, Inhabited

structure MathCfg where
  type : String
  multiply : Option Int
  clampMin : Option Int
  clampMax : Option Int
  deriving Repr, Inhabited

structure Pattern where
  type : String
  literal : Option String
  regexp : Option String
  result : Raw
  deriving Repr, Inhabited

structure MatchCfg where
  patterns : List Pattern
  fallbackValue : Raw
  fallbackTo : String
  deriving Repr, Inhabited

structure RegexpCfg where
  mtch : String
  group : Option Int
  deriving Repr, Inhabited

structure StrCfg where
  type : String
  fmt : Option String
  convert : Option String
  trim : Option String
  regexp : Option RegexpCfg
  join : Option String
  deriving Repr, Inhabited

structure ConvCfg where
  toType : String
  format : Option String
  deriving Repr, Inhabited

structure Xf where
  type : String
  math : Option MathCfg
  map : Option (List (String × Raw))
  mtch : Option MatchCfg
  str : Option StrCfg
  conv : Option ConvCfg
  /-- library verdicts for this step (see the header) -/
  orc : Orc
  deriving Repr, Inhabited

/-- MathTransform.GetType -/
def MathCfg.getType (m : MathCfg) : String := if m.type == "" then "Multiply" else m.type

/-- MathTransform.Validate -/
def MathCfg.valid (m : MathCfg) : Bool :=
  match m.getType with
  | "Multiply" => m.multiply.isSome
  | "ClampMin" => m.clampMin.isSome
  | "ClampMax" => m.clampMax.isSome
  | _ => false

/-- ResolveMath -/
def resolveMath (orc : Orc) (m : MathCfg) (input : V) : Except E V :=
  if !m.valid then .error .mathCfg else
  match input with
  | .num i =>
    match m.getType with
    | "Multiply" => .ok (.num (wrap64 (i * m.multiply.getD 0)))
    | "ClampMin" => if i < m.clampMin.getD 0 then .ok (.num (m.clampMin.getD 0)) else .ok input
    | "ClampMax" => if i > m.clampMax.getD 0 then .ok (.num (m.clampMax.getD 0)) else .ok input
    | _ => .error .mathCfg
  | .flt _ =>
    match m.getType with
    | "Multiply" => orcVal orc input "fmul"
    -- float comparisons are library behaviour: "ltMin" = (f < float64(clampMin)), "gtMax" = (f > float64(clampMax))
    | "ClampMin" =>
      match orcVal orc input "ltMin" with
      | .ok (.bool lt) => if lt then .ok (.num (m.clampMin.getD 0)) else .ok input
      | .ok _ => .error .oracleMiss
      | .error e => .error e
    | "ClampMax" =>
      match orcVal orc input "gtMax" with
      | .ok (.bool gt) => if gt then .ok (.num (m.clampMax.getD 0)) else .ok input
      | .ok _ => .error .oracleMiss
      | .error e => .error e
    | _ => .error .mathCfg
  | _ => .error .mathInput

/-- resolveMathClamp for a float64 input as written at the pinned commit: the input is truncated
to int64 ("trunc") before the comparison, so a fractional excess goes unnoticed (defect D17). -/
def clampMaxFloatUnfixed (trunc : Int) (max : Int) (input : V) : V :=
  if trunc > max then .num max else input

def lookupRaw (k : String) : List (String × Raw) → Option Raw
  | [] => none
  | (k', v) :: rest => if k' = k then some v else lookupRaw k rest

/-- ResolveMap: json.Unmarshal(p.Raw) fails on empty input too -/
def resolveMap (pairs : List (String × Raw)) (input : V) : Except E V :=
  match input with
  | .str s =>
    match lookupRaw s pairs with
    | none => .error .mapKey
    | some (.val v) => .ok v
    | some _ => .error .mapJSON
  | _ => .error .mapType

/-- unmarshalJSON helper of the match transform: no data leaves the output nil -/
def rawOrNil : Raw → Except E V
  | .nil => .ok .null
  | .empty => .ok .null
  | .bad => .error .matchJSON
  | .val v => .ok v

/-- extv1.JSON.Size() != 0 (generated protobuf code: the field is counted when Raw is non-nil) -/
def Raw.sized : Raw → Bool
  | .nil => false
  | _ => true

/-- Matches: the regexp verdicts of pattern `i` are in the oracle under "re": [{"ok":compiles,"m":matches}] -/
def patternMatches (orc : Orc) (i : Nat) (p : Pattern) (input : V) : Except E Bool :=
  match p.type with
  | "literal" =>
    match p.literal with
    | none => .error .required
    | some lit =>
      match input with
      | .str s => .ok (s == lit)
      | _ => .error .matchInput
  | "regexp" =>
    match p.regexp with
    | none => .error .required
    | some _ =>
      let verdict : Option V := match orcGet orc "re" with
        | some (.arr l) => l[i]?
        | _ => none
      match verdict with
      | none => .error .oracleMiss
      | some r =>
        match r.get? "ok" with
        | some (.bool false) => .error .regexpCompile
        | some (.bool true) =>
          match input with
          | .str _ =>
            if orcFor orc input then
              match r.get? "m" with
              | some (.bool b) => .ok b
              | _ => .error .oracleMiss
            else .error .oracleMiss
          | _ => .error .matchInput
        | _ => .error .oracleMiss
  | _ => .error .matchPatternType

def matchLoop (orc : Orc) (input : V) : Nat → List Pattern → Except E (Option V)
  | _, [] => .ok none
  | i, p :: ps =>
    match patternMatches orc i p input with
    | .error e => .error e
    | .ok true => match rawOrNil p.result with
      | .ok v => .ok (some v)
      | .error e => .error e
    | .ok false => matchLoop orc input (i + 1) ps

/-- ResolveMatch -/
def resolveMatch (orc : Orc) (m : MatchCfg) (input : V) : Except E V :=
  match matchLoop orc input 0 m.patterns with
  | .error e => .error e
  | .ok (some v) => .ok v
  | .ok none =>
    if m.fallbackTo == "Input" then
      if m.fallbackValue.sized then .error .matchFallbackBoth else .ok input
    else rawOrNil m.fallbackValue

/-- the oracle's answer for FindStringSubmatch: "groups" is an array of strings, or null for no match -/
def orcGroups (orc : Orc) (key : V) : Except E (List String) :=
  match orcVal orc key "groups" with
  | .error e => .error e
  | .ok .null => .ok []
  | .ok (.arr l) => .ok (l.filterMap V.getStr?)
  | .ok _ => .error .oracleMiss

/-- Selection of the capture group in stringRegexpTransform as the code should be (and is after
fixes/D1.diff): an index outside [0, len groups) is an error. -/
def selectGroup (groups : List String) (g : Int) : Except E String :=
  if groups.length == 0 || g < 0 || g ≥ groups.length then .error .noMatch
  else match groups[g.toNat]? with
    | some s => .ok s
    | none => .error .panic

/-- The guard as written at the pinned commit: `len(groups) == 0 || g >= len(groups)`;
a negative index reaches `groups[g]`, which panics. -/
def selectGroupUnfixed (groups : List String) (g : Int) : Except E String :=
  if groups.length == 0 || g ≥ groups.length then .error .noMatch
  else if g < 0 then .error .panic
  else match groups[g.toNat]? with
    | some s => .ok s
    | none => .error .panic

/-- stringRegexpTransform, parametric in the group selection -/
def stringRegexpWith (sel : List String → Int → Except E String) (orc : Orc) (r : RegexpCfg) (input : V) : Except E String :=
  match orcGet orc "compile" with
  | some (.bool false) => .error .regexpCompile
  | some (.bool true) =>
    match fmtV orc input with
    | .error e => .error e
    | .ok _ =>
      match orcGroups orc input with
      | .error e => .error e
      | .ok groups => sel groups (r.group.getD 0)
  | _ => .error .oracleMiss

def stringRegexp := stringRegexpWith selectGroup

/-- stringConvertTransform: the dispatch; ASCII case mapping is computed, the rest is library behaviour -/
def stringConvert (orc : Orc) (c : String) (input : V) : Except E String :=
  match c with
  | "ToUpper" => upperOf orc input
  | "ToLower" => lowerOf orc input
  | "ToJson" => match orcVal orc input "json" with
    | .ok (.str s) => .ok s
    | .ok .null => .error .marshal
    | .ok _ => .error .oracleMiss
    | .error e => .error e
  | "ToBase64" => orcStr orc input "b64e"
  | "FromBase64" => match orcVal orc input "b64d" with
    | .ok (.str s) => .ok s
    | .ok .null => .error .b64
    | .ok _ => .error .oracleMiss
    | .error e => .error e
  | "ToSha1" => orcStr orc input "sha1"
  | "ToSha256" => orcStr orc input "sha256"
  | "ToSha512" => orcStr orc input "sha512"
  | "ToAdler32" => orcStr orc input "adler"
  | _ => .error .strConvType

def fmtAll (orc : Orc) : Nat → List V → Except E (List String)
  | _, [] => .ok []
  | i, x :: xs =>
    let sx : Except E String := match x with
      | .str s => .ok s
      | .num n => .ok (fmtInt n)
      | .bool b => .ok (fmtBool b)
      | .null => .ok "<nil>"
      | _ => match orcGet orc "pvs" with
        | some (.arr l) => match l[i]? with
          | some (.str s) => .ok s
          | _ => .error .oracleMiss
        | _ => .error .oracleMiss
    match sx with
    | .error e => .error e
    | .ok s => match fmtAll orc (i + 1) xs with
      | .error e => .error e
      | .ok ss => .ok (s :: ss)

/-- stringJoinTransform -/
def stringJoin (orc : Orc) (sep : String) (input : V) : Except E String :=
  match input with
  | .arr l =>
    if orcFor orc input then
      match fmtAll orc 0 l with
      | .error e => .error e
      | .ok ss => .ok (sep.intercalate ss)
    else .error .oracleMiss
  | _ => .error .joinInput

/-- ResolveString, parametric in the regexp group selection -/
def resolveStringWith (sel : List String → Int → Except E String) (orc : Orc) (t : StrCfg) (input : V) : Except E String :=
  match t.type with
  | "Format" =>
    match t.fmt with
    | none => .error .strCfg
    | some f => fmtStr orc f input
  | "Convert" =>
    match t.convert with
    | none => .error .strCfg
    | some c => stringConvert orc c input
  | "TrimPrefix" =>
    match t.trim with
    | none => .error .strCfg
    | some tr => match fmtV orc input with
      | .ok s => .ok (trimPrefix s tr)
      | .error e => .error e
  | "TrimSuffix" =>
    match t.trim with
    | none => .error .strCfg
    | some tr => match fmtV orc input with
      | .ok s => .ok (trimSuffix s tr)
      | .error e => .error e
  | "Regexp" =>
    match t.regexp with
    | none => .error .strCfg
    | some r => stringRegexpWith sel orc r input
  | "Join" =>
    match t.join with
    | none => .error .strCfg
    | some sep => stringJoin orc sep input
  | _ => .error .strType

def ioTypeValid (s : String) : Bool :=
  s == "string" || s == "bool" || s == "int" || s == "int64" || s == "float64" || s == "object" || s == "array"

def formatValid (s : String) : Bool := s == "none" || s == "quantity" || s == "json"

def ConvCfg.getFormat (c : ConvCfg) : String := c.format.getD "none"

/-- the key set of the `conversions` table, regenerated from the source on every run -/
def hasConversion (src dst fmt : String) : Bool := Xp.Gen.c10Conversions.contains (src, dst, fmt)

/-- the functions stored in the `conversions` table -/
def convFn (orc : Orc) (src dst fmt : String) (input : V) : Except E V :=
  match src, dst, fmt, input with
  | "string", "int64", "none", .str s => match parseInt s with
    | some i => .ok (.num i)
    | none => .error .convParse
  | "string", "bool", "none", .str s => match parseBool s with
    | some b => .ok (.bool b)
    | none => .error .convParse
  | "string", "float64", "none", .str _ => match orcVal orc input "pfloat" with
    | .ok .null => .error .convParse
    | r => r
  | "string", "float64", "quantity", .str _ => match orcVal orc input "pquant" with
    | .ok .null => .error .convParse
    | r => r
  | "int64", "string", "none", .num i => .ok (.str (fmtInt i))
  | "int64", "bool", "none", .num i => .ok (.bool (i == 1))
  | "int64", "float64", "none", .num _ => orcVal orc input "itof"
  | "bool", "string", "none", .bool b => .ok (.str (fmtBool b))
  | "bool", "int64", "none", .bool b => .ok (.num (if b then 1 else 0))
  | "bool", "float64", "none", .bool b => .ok (.flt (if b then "1" else "0"))
  | "float64", "string", "none", .flt _ => match orcStr orc input "ffmt" with
    | .ok s => .ok (.str s)
    | .error e => .error e
  | "float64", "int64", "none", .flt _ => orcVal orc input "trunc"
  | "float64", "bool", "none", .flt r => .ok (.bool (r == "1"))
  | "string", "object", "json", .str _ => match orcVal orc input "jobj" with
    | .ok .null => .error .convParse
    | r => r
  | "string", "array", "json", .str _ => match orcVal orc input "jarr" with
    | .ok .null => .error .convParse
    | r => r
  | _, _, _, _ => .error .oracleMiss

/-- ResolveConvert + GetConversionFunc -/
def resolveConvert (orc : Orc) (c : ConvCfg) (input : V) : Except E V :=
  if !formatValid c.getFormat then .error .convCfg
  else if !ioTypeValid c.toType then .error .convCfg
  else
    let src0 := goType input
    if !ioTypeValid src0 then .error .convInput
    else
      let dst := if c.toType == "int" then "int64" else c.toType
      let src := if src0 == "int" then "int64" else src0
      if dst == src then .ok input
      else if !hasConversion src dst c.getFormat then .error .convPair
      else convFn orc src dst c.getFormat input

/-- Resolve, parametric in the regexp group selection -/
def resolveWith (sel : List String → Int → Except E String) (t : Xf) (input : V) : Except E V :=
  match t.type with
  | "math" => match t.math with
    | none => .error .xfCfg
    | some m => resolveMath t.orc m input
  | "map" => match t.map with
    | none => .error .xfCfg
    | some m => resolveMap m input
  | "match" => match t.mtch with
    | none => .error .xfCfg
    | some m => resolveMatch t.orc m input
  | "string" => match t.str with
    | none => .error .xfCfg
    | some s => match resolveStringWith sel t.orc s input with
      | .ok r => .ok (.str r)
      | .error e => .error e
  | "convert" => match t.conv with
    | none => .error .xfCfg
    | some c => resolveConvert t.orc c input
  | _ => .error .xfType

def resolve := resolveWith selectGroup

/-- ResolveTransforms -/
def resolveAllWith (sel : List String → Int → Except E String) : List Xf → V → Except E V
  | [], v => .ok v
  | t :: ts, v => match resolveWith sel t v with
    | .ok v' => resolveAllWith sel ts v'
    | .error e => .error e

def resolveAll := resolveAllWith selectGroup

/-! ## patches -/

structure Policy where
  fromFieldPath : Option String
  mergeOptions : Option MergeOpts
  deriving Repr, Inhabited

structure Combine where
  variables : List Path
  strategy : String
  /-- Combine.String (nil or the format) -/
  fmt : Option String
  /-- fmt.Sprintf(format, vars...) for the variables found, keyed by them: {"in": [..], "out": ".."} -/
  orc : Orc
  deriving Repr, Inhabited

structure Patch where
  type : String
  fromPath : Option Path
  toPath : Option Path
  combine : Option Combine
  xfs : List Xf
  policy : Option Policy
  /-- mergo verdicts for the destination(s) of this patch -/
  mergeOrc : List Orc
  /-- mergo verdicts for the apply option `withMergeOptions(toFieldPath, policy.mergeOptions)` this
  patch contributes when its composed resource already exists (PTComposer.Compose, merge.go) -/
  applyOrc : List Orc := []
  /-- Patch.PatchSetName: the patch set a patch of type PatchSet stands for (inlined by
  ComposedTemplates before anything is rendered; Model/C10World.lean) -/
  setName : Option String := none
  deriving Repr, Inhabited

/-- Patch.GetType -/
def Patch.getType (p : Patch) : String := if p.type == "" then "FromCompositeFieldPath" else p.type

/-- IsOptionalFieldPathNotFound's policy part: nil policy, nil FromFieldPath, or "Optional" -/
def Patch.optional (p : Patch) : Bool :=
  match p.policy with
  | none => true
  | some pol => match pol.fromFieldPath with
    | none => true
    | some s => s == "Optional"

def Patch.mo (p : Patch) : Option MergeOpts :=
  match p.policy with
  | none => none
  | some pol => pol.mergeOptions

/-- ApplyFromFieldPathPatch(p, from, to), parametric in the regexp group selection -/
def applyFromFieldPathWith (sel : List String → Int → Except E String) (p : Patch) (src to : V) : Out :=
  match p.fromPath with
  | none => ⟨to, some .required⟩
  | some fp =>
    let tp := p.toPath.getD fp
    match getPath src fp with
    | .error .notFound => if p.optional then ⟨to, none⟩ else ⟨to, some .notFound⟩
    | .error e => ⟨to, some e⟩
    | .ok input =>
      match resolveAllWith sel p.xfs input with
      | .error e => ⟨to, some e⟩
      | .ok out =>
        if containsSub tp.raw "[*]" then patchToMultiple p.mergeOrc tp out to p.mo
        else patchToObject p.mergeOrc tp out to p.mo

/-- the loop reading the combine variables: `none` = an optional variable was not found -/
def combineVars (p : Patch) (src : V) : List Path → Except E (Option (List V))
  | [] => .ok (some [])
  | v :: vs =>
    match getPath src v with
    | .error .notFound => if p.optional then .ok none else .error .notFound
    | .error e => .error e
    | .ok x => match combineVars p src vs with
      | .error e => .error e
      | .ok none => .ok none
      | .ok (some xs) => .ok (some (x :: xs))

/-- Combine -/
def combineVals (c : Combine) (vars : List V) : Except E V :=
  if c.strategy == "string" then
    match c.fmt with
    | none => .error .combineCfg
    | some f =>
      -- CombineString: fmt.Sprintf(format, vars...) – computed on the plain fragment, else the oracle
      match sprintfLite f.toList vars with
      | some cs => .ok (.str (String.ofList cs))
      | none => match orcStr c.orc (.arr vars) "out" with
        | .ok s => .ok (.str s)
        | .error e => .error e
  else .error .combineStrategy

/-- ApplyCombineFromVariablesPatch(p, from, to) -/
def applyCombineWith (sel : List String → Int → Except E String) (p : Patch) (src to : V) : Out :=
  match p.combine with
  | none => ⟨to, some .required⟩
  | some c =>
    match p.toPath with
    | none => ⟨to, some .required⟩
    | some tp =>
      if c.variables.length < 1 then ⟨to, some .combineVars⟩ else
      match combineVars p src c.variables with
      | .error e => ⟨to, some e⟩
      | .ok none => ⟨to, none⟩
      | .ok (some vars) =>
        match combineVals c vars with
        | .error e => ⟨to, some e⟩
        | .ok cb =>
          match resolveAllWith sel p.xfs cb with
          | .error e => ⟨to, some e⟩
          | .ok out => patchToObject [] tp out to none

/-- The two objects after `Apply(p, xr, cd, only...)` and its error. -/
structure Res where
  xr : V
  cd : V
  err : Option E
  deriving Inhabited

/-- filterPatch: compares the raw `Type` field -/
def filtered (p : Patch) (only : List String) : Bool :=
  !only.isEmpty && !only.contains p.type

/-- Apply / ApplyToObjects -/
def applyWith (sel : List String → Int → Except E String) (p : Patch) (xr cd : V) (only : List String) : Res :=
  if filtered p only then ⟨xr, cd, none⟩ else
  match p.getType with
  | "FromCompositeFieldPath" => let o := applyFromFieldPathWith sel p xr cd; ⟨xr, o.to, o.err⟩
  | "ToCompositeFieldPath" => let o := applyFromFieldPathWith sel p cd xr; ⟨o.to, cd, o.err⟩
  | "CombineFromComposite" => let o := applyCombineWith sel p xr cd; ⟨xr, o.to, o.err⟩
  | "CombineToComposite" => let o := applyCombineWith sel p cd xr; ⟨o.to, cd, o.err⟩
  | _ => ⟨xr, cd, some .patchType⟩

def apply := applyWith selectGroup

def patchTypesFromXR : List String := ["FromCompositeFieldPath", "CombineFromComposite"]
def patchTypesToXR : List String := ["ToCompositeFieldPath", "CombineToComposite"]

/-- RenderFromCompositePatches: stops at the first failing patch; the composed resource keeps
whatever the earlier patches (and a failing FromUnstructured) did to it. -/
def renderFromXR : V → V → List Patch → Res
  | xr, cd, [] => ⟨xr, cd, none⟩
  | xr, cd, p :: ps =>
    let r := apply p xr cd patchTypesFromXR
    match r.err with
    | some e => ⟨r.xr, r.cd, some e⟩
    | none => renderFromXR r.xr r.cd ps

/-- RenderToCompositePatches -/
def renderToXR : V → V → List Patch → Res
  | xr, cd, [] => ⟨xr, cd, none⟩
  | xr, cd, p :: ps =>
    let r := apply p xr cd patchTypesToXR
    match r.err with
    | some e => ⟨r.xr, r.cd, some e⟩
    | none => renderToXR r.xr r.cd ps

end Xp.C10

import Xp.Model.C15
/-
C15: the call skeletons the model mirrors, declared entry by entry.

`Xp.Gen.c15Skel*` (lean/Xp/Gen/C15Skel.lean) are regenerated on every check run by
harness/main/c15_dump.go (go/ast over the CURRENT tree): per Go function the ordered list of
its API verbs, collaborator calls, condition constructors, error-class predicates and every
`return` (a `return` is listed BEFORE the calls inside its result expression, an outer call
before the calls in its arguments: the order of ast.Inspect).  Below, next to every entry,
the model step that mirrors it – or "not modelled: <why>".  lean/Xp/Props/C15.lean states
`Xp.Gen.c15Skel<F> = skel<F>` by `decide`: inserting, removing or reordering a call or an
early exit in one of these functions breaks an obligation before any scenario is run.
-/
namespace Xp.C15

/-- revision `Reconciler.Reconcile` (reconciler.go) ↔ `recStep` / `install` / `fetch` / `gates` -/
def skelReconcile : List String := [
  -- recStep: `f.getE` (err → "err:get"; NotFound ignored → "ok")
  "client.Get", "return", "resource.IgnoreNotFound",
  -- not modelled: the pause annotation (no generated revision carries it)
  "meta.IsPaused", "xpv1.ReconcilePaused", "return", "client.Status.Update",
  -- recStep: `st.deleting`
  "meta.WasDeleted",
  --   cache.Delete(pr.GetName()): `f.del` → "err:delcache", else `c.erase r.key`
  "cache.Delete", "return",
  --   lock.RemoveSelf: not modelled as a fault (the harness' DependencyManager never fails)
  "lock.RemoveSelf", "kerrors.IsConflict", "return", "return",
  --   RemoveFinalizer: `f.finO` (conflict → "requeue", err → "err:finalizer", ok / notFound → "ok")
  "revision.RemoveFinalizer", "kerrors.IsConflict", "return", "return", "return",
  -- not modelled: clearing a left-over ReconcilePaused condition
  "xpv1.ReconcilePaused", "xpv1.ReconcilePaused", "pr.CleanConditions", "return", "client.Status.Update",
  -- recStep: `feature && !st.verif.isTrue` – the signature-verification gate
  "features.Enabled",
  --   Healthy unknown → AwaitingVerification, Status().Update (`f.statO` → "err:status")
  "v1.AwaitingVerification", "return", "client.Status.Update",
  --   otherwise wait
  "return",
  -- recStep: AddFinalizer (`f.finO` when the finalizer is missing; conflict → "requeue", else "err:finalizer")
  "revision.AddFinalizer", "kerrors.IsConflict", "return", "return",
  -- recStep: `f.pullCfg` – ImageConfigStore.PullSecretFor fails (listing ImageConfigs) → Unhealthy, "err:pullcfg"
  "config.PullSecretFor", "v1.Unhealthy", "client.Status.Update", "return",
  -- not modelled: runtime manifest builder options (the harness wires no runtime hooks)
  "runtimeManifestBuilderOptions", "v1.Unhealthy", "client.Status.Update", "return",
  -- recStep: `!st.active` → deactivateRevision: `f.rel` (ReleaseObjects fails: conflict → "requeue", else "err:deactivate")
  "pr.GetDesiredState", "deactivateRevision", "kerrors.IsConflict", "return", "return",
  --   inactive with object references: Healthy, Status().Update (`f.statO` → "err:status"), no fetch
  "pr.GetObjects", "v1.Healthy", "return", "client.Status.Update",
  -- Rev.id: pull policy Never looks the content up under the source
  "pr.GetPackagePullPolicy", "pr.GetPackagePullPolicy",
  -- fetch: `c r.id` = cache.Has(id); cache.Get (`f.get` or a file without gzip header) → Delete (`f.del`), "err:getcache"
  "cache.Has", "cache.Get", "cache.Delete", "return",
  --   content from the cache: nothing to wait for
  "close",
  -- fetch: `r.never` and nothing cached → Unhealthy, "err:pullnever"
  "v1.Unhealthy", "client.Status.Update", "return",
  -- not modelled: pull secrets (BackendOptions)
  "PackageRevision", "PullSecretFromConfig",
  -- fetch: backend.Init (`f.init`, `initSel r.layers` = none) → Unhealthy, "err:init"
  "backend.Init", "v1.Unhealthy", "client.Status.Update", "return",
  -- fetch: the tee of the image stream into cache.Store(pr.GetName(), pipeR) – `storedEntry`, `pulled`
  "io.Pipe", "xpkg.TeeReadCloser", "pipeR.Close", "cache.Store", "pipeR.CloseWithError", "return", "close",
  -- fetch / `pulled`: Parse (the 200 MB io.LimitReader is not modelled)
  "parser.Parse", "io.LimitReader",
  --   `fixed`: the pipe is closed with the parse error (fixes/D6.diff); failed cache write → cache.Delete(id) (`f.del`)
  "pipeW.CloseWithError", "cache.Delete",
  -- install: `.parsed none` → Unhealthy, "err:parse"
  "v1.Unhealthy", "client.Status.Update", "return",
  -- gates: `lint` → Unhealthy, "err:lint"
  "linter.Lint", "v1.Unhealthy", "client.Status.Update", "return",
  -- gates: `p.metas.length != 1` → Unhealthy, "err:onemeta"
  "pkg.GetMeta", "v1.Unhealthy", "client.Status.Update", "return",
  -- gates: the metadata Update (labels / annotations of the meta object; their values are not modelled): `f.updO`
  "xpkg.TryConvertToPkg", "pkg.GetMeta", "meta.AddLabels", "meta.AddAnnotations",
  "client.Update", "kerrors.IsConflict", "return", "v1.Unhealthy", "client.Status.Update", "return",
  -- gates: `!r.ignore && !compatible p` → Unhealthy, return Status().Update ("ok" / "err:status")
  "pr.GetIgnoreCrossplaneConstraints", "pr.GetIgnoreCrossplaneConstraints", "xpkg.PackageCrossplaneCompatible",
  "v1.Unhealthy", "return", "client.Status.Update",
  -- gates: `r.resolve` (skipDependencyResolution = false): lock.Resolve, `f.dep` (conflict → "requeue", else UnknownHealth, "err:deps")
  "pr.GetSkipDependencyResolution", "pr.GetSkipDependencyResolution", "lock.Resolve", "pr.SetDependencyStatus",
  "kerrors.IsConflict", "return", "v1.UnknownHealth", "client.Status.Update", "return",
  -- not modelled: runtime pre hook (no runtime hooks wired)
  "runtimeHook.Pre", "kerrors.IsConflict", "return", "v1.Unhealthy", "client.Status.Update", "return",
  -- gates: Establish(pkg.GetObjects(), pr, desiredState == Active): `Out.est`, `Out.control`; `f.est` / `f.estConflict`
  "objects.Establish", "pkg.GetObjects", "pr.GetDesiredState", "kerrors.IsConflict", "return",
  "v1.Unhealthy", "client.Status.Update", "return",
  -- the comparison function of sort.Slice over the references; gates: `refs := p.objs.length`
  "return", "pr.SetObjects",
  -- not modelled: runtime post hook
  "runtimeHook.Post", "kerrors.IsConflict", "return", "v1.Unhealthy", "client.Status.Update", "return",
  -- gates: Healthy, return Status().Update (`f.statO` → "err:status")
  "v1.Healthy", "return", "client.Status.Update"]

/-- `Reconciler.deactivateRevision` ↔ recStep's inactive branch (`f.rel`) -/
def skelDeactivate : List String := [
  "lock.RemoveSelf", "return",          -- not modelled as a fault (fake DependencyManager)
  "objects.ReleaseObjects", "return",   -- `f.rel`
  "return",                             -- no runtime: done
  "runtimeHook.Deactivate", "return", "return"]  -- not modelled: runtime hooks

/-- `ImageBackend.Init` (imageback.go) ↔ `initSel` (+ `f.init` for the registry) -/
def skelImageInit : List String := [
  "name.ParseReference", "name.WithDefaultRegistry", "return", "errors.Wrap",  -- generated sources parse; not modelled
  "v1.RefNames", "fetcher.Fetch", "return", "errors.Wrap",                      -- `f.init`
  "img.Manifest", "return", "errors.Wrap",                                       -- library; never fails for in-memory images
  "return", "errors.Errorf",                                                     -- initSel: more than `maxLayers` layers
  "return", "errors.New",                                                        -- initSel / `scanBase`: a second annotated base layer
  "img.LayerByDigest", "return", "errors.Wrap",                                  -- library
  "validate.Layer", "return", "errors.Wrap",                                     -- library (digest / size validation)
  "layer.Uncompressed", "return", "errors.Wrap",                                 -- the stream of the annotated layer
  "validate.Image", "return", "errors.Wrap", "mutate.Extract",                   -- initSel: no annotated layer → flattened file system
  "tar.NewReader", "t.Next", "return", "errors.Wrapf",                           -- initSel: no package.yaml in the selected tarball
  "return", "xpkg.JoinedReadCloser"]

/-- `FsPackageCache.Has` ↔ `(c r.id).isSome` in `fetch` -/
def skelCacheHas : List String := ["fs.Stat", "BuildPath", "fi.IsDir", "return", "return"]

/-- `FsPackageCache.Get` ↔ `fetch`: Open fails (`f.get`) or the gzip header is missing
(`Entry.broken false`) → error; else a reader (`content ds` / `broken true`) -/
def skelCacheGet : List String :=
  ["mu.RLock", "mu.RUnlock", "fs.Open", "BuildPath", "return", "return", "GzipReadCloser"]

/-- `FsPackageCache.Store` ↔ `storedEntry`: Create / Copy / gzip Close / file Close; any of
them failing is `f.store`, what the file then holds is `f.left` -/
def skelCacheStore : List String :=
  ["mu.Lock", "mu.Unlock", "fs.Create", "BuildPath", "return", "cf.Close",
   "gzip.NewWriterLevel", "return", "io.Copy", "return", "w.Close", "return", "return", "cf.Close"]

/-- `FsPackageCache.Delete` ↔ `Cache.erase` unless `f.del`; NotExist is not an error -/
def skelCacheDelete : List String :=
  ["mu.Lock", "mu.Unlock", "fs.Remove", "BuildPath", "os.IsNotExist", "return", "return"]

/-- `GzipReadCloser`: the header check that separates `broken false` from `broken true` -/
def skelGzipReadCloser : List String := ["gzip.NewReader", "return", "return"]
def skelGzipRead : List String := ["return", "gzip.Read"]
def skelGzipClose : List String := ["gzip.Close", "rc.Close", "return", "return", "rc.Close"]

/-- `TeeReadCloser` / `teeReadCloser.Read` ↔ `Tee.read` (sticky error: first `return`),
`teeReadCloser.Close` ↔ closing source then writer -/
def skelTeeNew : List String := ["return", "io.TeeReader"]
def skelTeeRead : List String := ["return", "t.Read", "errors.Is", "return"]
def skelTeeClose : List String := ["r.Close", "w.Close", "return", "return", "w.Close"]

/-- signature `Reconciler.Reconcile` ↔ `sigStep` -/
def skelSigReconcile : List String := [
  -- sigStep: `sf.getE` (NotFound → "ok"; else VerificationIncomplete on the empty object – its status update cannot land – "err:get")
  "client.Get", "kerrors.IsNotFound", "return", "v1.VerificationIncomplete", "client.Status.Update", "return",
  -- sigStep: `!st.active` → "ok"
  "pr.GetDesiredState", "return",
  -- sigStep: `st.verif.isTrue` → "ok"
  "pr.GetCondition", "return",
  -- verifCfgFor = `.err` → VerificationIncomplete (unless `sf.stat`), "err:sigcfg"
  "config.ImageVerificationConfigFor", "v1.VerificationIncomplete", "client.Status.Update", "return",
  -- verifCfgFor = `.none` → VerificationSkipped, return Status().Update
  "v1.VerificationSkipped", "return", "client.Status.Update",
  -- not modelled: an unparsable source (generated sources parse)
  "name.ParseReference", "v1.VerificationIncomplete", "client.Status.Update", "return",
  -- not modelled: PullSecretFor failing after ImageVerificationConfigFor succeeded (one List each; a listing fault fails the first)
  "config.PullSecretFor", "v1.VerificationIncomplete", "client.Status.Update", "return",
  -- verifCfgFor = `.some`: the validator's verdict; failed → VerificationFailed, "err:sigfail" ("err:status" when the update fails)
  "validator.Validate", "v1.VerificationFailed", "client.Status.Update", "return", "return",
  -- accepted → VerificationSucceeded, return Status().Update
  "v1.VerificationSucceeded", "return", "client.Status.Update"]

/-- `ImageConfigStore.ImageVerificationConfigFor` ↔ `verifCfgFor` (list error / none / no cosign section / some) -/
def skelVerifCfgFor : List String := ["bestMatch", "return", "return", "return", "return", "return"]

/-- `ImageConfigStore.bestMatch` ↔ `scanCfgs` (`valid`) / `scanPrefixes` (`strings.HasPrefix`, longest) -/
def skelBestMatch : List String := ["client.List", "return", "valid", "strings.HasPrefix", "return"]

/-- `OneMeta` ↔ `pkgCheck "OneMeta"` -/
def skelOneMeta : List String := ["pkg.GetMeta", "return", "return"]

/-- `PackageCrossplaneCompatible` ↔ `compatible`: not a package meta → error (unreachable for
meta-scheme kinds); no constraints → ok; `InConstraints` error (`Con.malformed`) or false
(`Con.outOfRange`) → error -/
def skelCompatible : List String :=
  ["return", "TryConvertToPkg", "return", "p.GetCrossplaneConstraints", "return", "v.InConstraints",
   "p.GetCrossplaneConstraints", "return", "return", "return"]

/-- `PackageValidSemver` ↔ `metaCheck "PackageValidSemver"` (`m.con != .malformed`) -/
def skelValidSemver : List String :=
  ["TryConvertToPkg", "return", "p.GetCrossplaneConstraints", "return", "semver.NewConstraint",
   "p.GetCrossplaneConstraints", "return", "return"]

/-- `TryConvert` / `TryConvertToPkg`: first hub that converts; what the per-check acceptance
tables `Xp.Gen.c15CheckAccepts` record for IsProvider / IsConfiguration / IsFunction -/
def skelTryConvert : List String := ["return", "cvt.ConvertTo", "return", "return"]
def skelTryConvertToPkg : List String := ["TryConvert", "return"]

/-- `Versioner.InConstraints`: the running version and the constraint are parsed by
Masterminds/semver (library): the verdict is `Con` -/
def skelInConstraints : List String :=
  ["GetSemVer", "return", "semver.NewConstraint", "return", "return", "constraint.Check"]

/-- the conversion hubs handed to TryConvert / TryConvertToPkg are fresh composite literals at
every call site (a shared hub would be overwritten by a concurrent reconcile's conversion) -/
def hubArgs : List String := [
  "reconciler.go Reconcile: TryConvertToPkg(&pkgmetav1.Provider{}, &pkgmetav1.Configuration{}, &pkgmetav1.Function{})",
  "lint.go IsProvider: TryConvert(&pkgmetav1.Provider{})",
  "lint.go IsConfiguration: TryConvert(&pkgmetav1.Configuration{})",
  "lint.go IsFunction: TryConvert(&pkgmetav1.Function{})",
  "lint.go PackageCrossplaneCompatible: TryConvertToPkg(&pkgmetav1.Provider{}, &pkgmetav1.Configuration{}, &pkgmetav1.Function{})",
  "lint.go PackageValidSemver: TryConvertToPkg(&pkgmetav1.Provider{}, &pkgmetav1.Configuration{}, &pkgmetav1.Function{})",
  "scheme.go TryConvertToPkg: TryConvert(candidates...)"]

end Xp.C15

import Xp.Model.C09
/-
C09 world model: the LONG-LIVED publisher / propagator objects of one process serving
sequences of different owners over a store of many secrets.

 * A secret is kept with its absolute identity: namespace × name, its type string, the UID of
   its controller reference and the UIDs of its plain owner references.
 * Every API call of one operation can fail with an error of some class (`Fault`): the writers
   branch on NotFound of the Get only (Create instead of Patch/Update); every other class, at
   every call, ends the operation with an error. A write whose answer is lost (`lost`) took
   effect although the caller sees the error.
 * The per-call functions `publishA` / `propagateA` return what the call stores (`Out.write`);
   `publish`, `publishE`, `propagate`, `propagateE` of Model/C09.lean are their special cases
   (Props: publishA_none, publishA_miss, propagateA_env).
 * `stepW` lifts them to the world: the relative view (`dstView`, `srcView`) of the addressed
   secrets is computed from the caller's UID, the result is stored under the addressed key only.
 * `flowDetails` is the connection-details flow of ONE reconcile through the composers
   (P&T: composition_pt.go; functions: ObserveComposedResources + the pipeline) for ≥ 1
   templates; its result is published with `stepW`.
-/
namespace Xp.C09

/-- resource.SecretTypeConnection -/
def connType : String := "connection.crossplane.io/v1alpha1"

structure ASecret where
  type : String
  ctrl : Option String      -- UID of the controller reference
  plain : List String       -- UIDs of the non-controller owner references
  data : Data
  deriving DecidableEq, Repr, Inhabited

abbrev Key := String × String     -- namespace × name
abbrev World := List (Key × ASecret)

def wget (w : World) (k : Key) : Option ASecret := (w.find? (·.1 = k)).map (·.2)

def wset : World → Key → ASecret → World
  | [], k, s => [(k, s)]
  | p :: ps, k, s => if p.1 = k then (k, s) :: ps else p :: wset ps k s

/-- the destination as its would-be writer `me` sees it -/
def dstView (me : String) (s : ASecret) : Secret :=
  ⟨s.type == connType,
   match s.ctrl with
   | some u => if u = me then .owner else .other
   | none => .none,
   s.data⟩

/-- the source secret as the propagator sees it on behalf of the bound XR `xr` -/
def srcView (xr : String) (s : ASecret) : Secret :=
  ⟨s.type == connType,
   match s.ctrl with
   | some u => if u = xr then .xr else .other
   | none => if s.plain.contains xr then .xrPlain else .none,
   s.data⟩

/-- resource.ConnectionSecretMustBeControllableBy(me), on the absolute secret -/
def mayControl (me : String) (s : ASecret) : Bool :=
  match s.ctrl with
  | some u => u = me
  | none => s.type == connType

/-- what a successful Create / merge Patch / Update of the writers leaves: a connection secret
whose only owner reference is the controller reference of the writer -/
def written (me : String) (d : Data) : ASecret := ⟨connType, some me, [], d⟩

/-! ### API error classes -/

inductive ECls where
  | notFound | conflict | alreadyExists | invalid | forbidden | temporary | deadline
  deriving DecidableEq, Repr, Inhabited

/-- one failing API call of an operation: its index among the operation's calls, the class of
the error, and (for a write) whether the request took effect before the answer was lost -/
structure Fault where
  idx : Nat
  cls : ECls
  lost : Bool := false
  deriving DecidableEq, Repr, Inhabited

structure EnvW where
  fault : Option Fault := none
  swap : Bool := false      -- a concurrent writer acts when the propagator's write is attempted
  deriving DecidableEq, Repr, Inhabited

def faultAt (f : Option Fault) (k : Nat) : Option Fault :=
  match f with
  | some x => if x.idx = k then some x else none
  | none => none

/-- result of one operation: the data stored under the addressed key by this call, if any -/
structure Out where
  write : Option Data
  published : Bool
  err : Bool
  writes : Nat          -- write requests sent to the addressed secret
  deriving DecidableEq, Repr, Inhabited

def Out.res (o : Out) (slot : Slot) : Res :=
  ⟨match o.write with | some d => some ⟨true, .owner, d⟩ | none => slot, o.published, o.err, o.writes⟩

def Out.nop : Out := ⟨none, false, false, 0⟩
def Out.fail (writes : Nat) : Out := ⟨none, false, true, writes⟩

/-- the write request number `k` of the operation, storing `d` -/
def writeOut (f : Option Fault) (k : Nat) (d : Data) : Out :=
  match faultAt f k with
  | none => ⟨some d, true, false, 1⟩
  | some x => if x.lost then ⟨some d, false, true, 1⟩ else ⟨none, false, true, 1⟩

/-- PublishConnection; API calls: 0 = Get of the secret, 1 = Create | merge Patch -/
def publishA (f : Option Fault) (wants : Bool) (filter : List String) (details : Data) (slot : Slot) : Out :=
  if !wants then .nop else
  let d := desiredData filter details
  match faultAt f 0 with
  | some x =>
    if x.cls = .notFound then
      -- the applicator takes the secret for absent and creates it; the API server refuses
      -- the Create of an existing object (AlreadyExists)
      match slot with
      | none => writeOut f 1 d
      | some _ => .fail 1
    else .fail 0
  | none =>
    match slot with
    | none => writeOut f 1 d
    | some s =>
      if !controllable s .owner then .fail 0
      else if !needsUpdate s.data d then .nop
      else writeOut f 1 (mergeData s.data d)

/-- PropagateConnection; API calls: 0 = Get of the XR's secret, 1 = Get of the claim's secret,
2 = Create | Update -/
def propagateA (e : EnvW) (fromWants toWants : Bool) (src dst : Slot) : Out :=
  if !fromWants || !toWants then .nop else
  match faultAt e.fault 0 with
  | some _ => .fail 0          -- any error reading the XR's secret (NotFound included) is final
  | none =>
    match src with
    | none => .fail 0
    | some fs =>
      if fs.ctrl ≠ .xr then .fail 0
      else match faultAt e.fault 1 with
        | some x =>
          if x.cls = .notFound then
            match dst with
            | none => writeOut e.fault 2 fs.data
            | some _ => .fail 1
          else .fail 0
        | none =>
          match dst with
          | none => writeOut e.fault 2 fs.data
          | some d =>
            if !controllable d .owner then .fail 0
            else if dataEq d.data fs.data then .nop
            else if e.swap then .fail 1       -- the Update carries a resourceVersion: Conflict
            else writeOut e.fault 2 fs.data

/-! ### operations of the long-lived objects on the world -/

inductive Op where
  /-- the XR `me` publishes `details` to the secret it references -/
  | pub (me : String) (ref : Option Key) (details : Data)
  /-- the claim `me` (namespace `cns`, wanting secret `cref`) copies the secret `xref` of its XR `xr` -/
  | prop (me : String) (cns : String) (cref : Option String) (xr : String) (xref : Option Key)
  deriving Repr, Inhabited

def Op.me : Op → String
  | .pub me _ _ => me
  | .prop me _ _ _ _ => me

/-- the only key an operation may write -/
def Op.target : Op → Option Key
  | .pub _ ref _ => ref
  | .prop _ cns cref _ _ => cref.map fun n => (cns, n)

def applyOut (w : World) (k : Key) (me : String) (o : Out) : World :=
  match o.write with
  | some d => wset w k (written me d)
  | none => w

/-- one operation of the publisher (built once with `filter`) or of the propagator -/
def stepW (filter : List String) (e : EnvW) (w : World) : Op → World × Out
  | .pub me ref details =>
    match ref with
    | none => (w, publishA e.fault false filter details none)
    | some k =>
      let o := publishA e.fault true filter details ((wget w k).map (dstView me))
      (applyOut w k me o, o)
  | .prop me cns cref xr xref =>
    match xref, cref with
    | some sk, some dn =>
      let o := propagateA e true true ((wget w sk).map (srcView xr)) ((wget w (cns, dn)).map (dstView me))
      (applyOut w (cns, dn) me o, o)
    | _, _ => (w, .nop)

/-- a sequence of operations, each in its own environment (crossplane's writes only) -/
def runW (filter : List String) : World → List (EnvW × Op) → World
  | w, [] => w
  | w, (e, op) :: rest => runW filter (stepW filter e w op).1 rest

/-- what the concurrent writer of `swap` leaves in place of the XR's secret -/
def swappedA (old : Option ASecret) : ASecret :=
  ⟨(old.map (·.type)).getD connType, some "intruder-uid", [], [("admin-token", "s3cr3t")]⟩

/-! ### the claim reconciler around the propagator (claim/reconciler.go, default options) -/

/-- the bound XR as the claim reconciler reads it -/
structure BoundXR where
  uid : String
  ref : Option Key       -- its writeConnectionSecretToRef
  ready : Bool           -- Ready=True
  published : Nat := 0   -- its status.connectionDetails.lastPublishedTime (0 = unset); read by nothing
  deriving Repr, Inhabited

structure ClaimIn where
  me : String
  cns : String
  cref : Option String   -- its writeConnectionSecretToRef
  deleted : Bool
  xr : Option BoundXR
  propagated : Nat := 0  -- its status.connectionDetails.lastPublishedTime (0 = unset); read by nothing
  deriving Repr, Inhabited

structure ClaimOut where
  out : Out
  stamped : Bool         -- the claim's lastPublishedTime is set to now
  deriving Repr, Inhabited

/-- one reconcile of a claim, as far as secrets are concerned. A claim being deleted unpublishes
with the NopConnectionUnpublisher: no call is addressed to any secret (Kubernetes garbage
collection removes what the claim controls). A live claim propagates once its XR is Ready. -/
def claimRec (e : EnvW) (w : World) (c : ClaimIn) : World × ClaimOut :=
  if c.deleted then (w, ⟨.nop, false⟩)
  else match c.xr with
    | none => (w, ⟨.nop, false⟩)
    | some x =>
      if !x.ready then (w, ⟨.nop, false⟩)
      else
        let r := stepW [] e w (.prop c.me c.cns c.cref x.uid x.ref)
        (r.1, ⟨r.2, r.2.published⟩)

/-- SecretConnectionDetailsFetcher.FetchConnection for an owner referencing `ref`; `fault` =
the class of the error its Get answers with; `none` = error -/
def fetchA (w : World) (ref : Option Key) (fault : Option ECls) : Option Data :=
  match ref with
  | none => some []
  | some k =>
    match fault with
    | some .notFound => some []       -- client.IgnoreNotFound: no details (yet)
    | some _ => none
    | none => some (((wget w k).map (·.data)).getD [])

/-! ### the flow of connection details through the composers -/

/-- ExtractConfigsFromComposedTemplate + connectionDetailType: an unset type (`""`) is derived
from the fields that are set; an unset name (`""`) defaults to the key for FromConnectionSecretKey -/
def tmplCfg (c : Cfg) : Cfg :=
  let ty :=
    if c.type ≠ "" then c.type
    else if c.value.isSome then "FromValue"
    else if c.key.isSome then "FromConnectionSecretKey"
    else if c.path.isSome then "FromFieldPath"
    else "FromConnectionSecretKey"
  let name :=
    if c.name ≠ "" then c.name
    else if ty = "FromConnectionSecretKey" then c.key.getD "" else ""
  { c with type := ty, name := name }

structure Tmpl where
  cdName : String
  ctrl : Ctrl              -- `.owner`: controlled by this XR, `.other`: by someone else, `.none`: nobody
  secret : Option Data     -- the connection secret of the composed resource as the fetcher reads it
  fetchErr : Bool          -- reading that secret fails with an error other than NotFound
  cfgs : List Cfg
  deriving Repr, Inhabited

def tmplFieldAt (t : Tmpl) (p : String) : Option String :=
  fieldReader (fun p => if p = "metadata.name" then some (.str t.cdName) else none) p

/-- the template as one reconcile sees it: its connection secret read by `fetchA` -/
def Tmpl.fetched (cdName : String) (ctrl : Ctrl) (cfgs : List Cfg) (r : Option Data) : Tmpl :=
  { cdName := cdName, ctrl := ctrl, secret := r, fetchErr := r.isNone, cfgs := cfgs }

/-- details of the templates in order, later templates overriding earlier ones; none = error -/
def foldDetails : List Tmpl → Data → Option Data
  | [], acc => some acc
  | t :: ts, acc =>
    if t.fetchErr then none else
    match extract (t.secret.getD []) (tmplFieldAt t) (t.cfgs.map tmplCfg) acc with
    | none => none
    | some acc' => foldDetails ts acc'

/-- the XR's connection details produced by one reconcile; none = the composition failed.
P&T (`fn = false`): a referenced resource controlled by someone else fails its Apply before any
detail is read. Functions: such a resource is not observed at all; the pipeline (here: the
patch-and-transform function) sees the connection details of the observed resources only. -/
def flowDetails (fn : Bool) (ts : List Tmpl) : Option Data :=
  if fn then foldDetails (ts.filter fun t => t.ctrl ≠ .other) []
  else if ts.any fun t => t.ctrl = .other then none
  else foldDetails ts []

/-- functions: once a composition succeeds, a template whose referenced resource is controlled by
someone else has been given a NEW resource of the XR's own (generated name, no connection
secret yet); the foreign resource is no longer referenced -/
def adoptFresh (fn composed : Bool) (ts : List Tmpl) : List Tmpl :=
  if fn && composed then
    ts.map fun t => if t.ctrl = .other then { t with ctrl := .owner, secret := none, fetchErr := false, cdName := "" } else t
  else ts

/-- one reconcile of XR `me`: compose, then publish what the composition produced -/
def flowStep (filter : List String) (e : EnvW) (w : World) (fn : Bool) (me : String) (ref : Option Key)
    (ts : List Tmpl) : World × Out × Bool :=
  match flowDetails fn ts with
  | none => (w, .fail 0, false)
  | some d => let r := stepW filter e w (.pub me ref d); (r.1, r.2, true)

end Xp.C09

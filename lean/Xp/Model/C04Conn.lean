/-
C04 model, connection bookkeeping of PackagedFunctionRunner (internal/xfn/function_runner.go):
getClientConn and GarbageCollectConnectionsNow. The cache is a map function name ↦ target.
gRPC itself (dialling, transport) is not modelled: a connection is its target string.
-/
namespace Xp.C04Conn

structure Rev where
  name : String
  fn : String          -- parent function (label pkg.crossplane.io/package)
  active : Bool
  endpoint : String
  deriving DecidableEq, Repr, Inhabited

abbrev Conns := List (String × String)   -- function name ↦ target, no duplicate names

def cget (c : Conns) (n : String) : Option String := (c.find? (·.1 = n)).map (·.2)

def cerase (c : Conns) (n : String) : Conns := c.filter (·.1 ≠ n)

/-- the endpoint `getClientConn` must use: that of the first Active revision of the function
(in list order); `none` = error (no active revision, or it has no endpoint yet) -/
def wanted (revs : List Rev) (fn : String) : Option String :=
  match revs.find? (fun r => r.fn = fn ∧ r.active) with
  | none => none
  | some r => if r.endpoint = "" then none else some r.endpoint

/-- getClientConn: returns the target handed out (none = error) and the cache afterwards -/
def getConn (revs : List Rev) (c : Conns) (fn : String) : Option String × Conns :=
  match wanted revs fn with
  | none => (none, c)
  | some ep =>
    if cget c fn = some ep then (some ep, c)
    else (some ep, cerase c fn ++ [(fn, ep)])     -- stale connection closed, new one cached

/-- GarbageCollectConnectionsNow: closes the connections of functions that are not installed -/
def gc (fns : List String) (c : Conns) : Nat × Conns :=
  ((c.filter fun p => !fns.contains p.1).length, c.filter fun p => fns.contains p.1)

/-- getClientConn when its List of FunctionRevisions may fail: a failing List is an error and
leaves the cache alone -/
def getConnF (listFails : Bool) (revs : List Rev) (c : Conns) (fn : String) : Option String × Conns :=
  if listFails then (none, c) else getConn revs c fn

/-- GarbageCollectConnectionsNow when its List of Functions may fail: with an empty cache it
returns 0 without listing; otherwise a failing List is an error and closes nothing.
`none` = error. -/
def gcF (listFails : Bool) (fns : List String) (c : Conns) : Option Nat × Conns :=
  if c.isEmpty then (some 0, c)
  else if listFails then (none, c)
  else (some (gc fns c).1, (gc fns c).2)

/-- PackagedFunctionRunner.RunFunction up to the RPC: the connection is looked up (and cached)
by `getClientConn`; the request is then sent over it, i.e. to its target. `none` = the lookup
failed and nothing is sent. -/
def runPackaged (revs : List Rev) (c : Conns) (fn : String) : Option String × Conns := getConn revs c fn

/-- the harness's function servers: an endpoint `live…` is a listening in-process server (every
other endpoint is never reachable: the call waits for readiness until its deadline) -/
def delivered (ep : String) : Option String := if ep.startsWith "live" then some ep else none

/-- `live2` serves only the v1beta1 FunctionRunnerService -/
def servesOnlyBeta (ep : String) : Bool := ep == "live2"

/-! ### declared call skeletons (regenerated as `Xp.Gen.c04Skel…`, see Xp/Model/C04Compose.lean) -/

/-- PackagedFunctionRunner.RunFunction -/
def skelPkgRun : List String := [
  "getClientConn",                        -- getConn
  "return",                               --   none ⇒ error, nothing is sent
  "NewBetaFallBackFunctionRunnerServiceClient.RunFunction",   -- not modelled: the gRPC call (the connection IS its target)
  "NewBetaFallBackFunctionRunnerServiceClient",
  "return"]

/-- PackagedFunctionRunner.getClientConn -/
def skelGetClientConn : List String := [
  "client.List",                          -- revisions labelled with the function's name: r.fn = fn
  "return",                               -- getConnF true = (none, c)
  "loop{", "l.Items.GetDesiredState", "}",  -- find? (r.fn = fn ∧ r.active): the FIRST active one
  "return",                               -- wanted = none: no active revision
  "return",                               -- wanted = none: empty endpoint
  "conn.Target", "return",                -- cget c fn = some ep ⇒ (some ep, c)
  "conn.Target", "return",                --   the same test again under the write lock (one thread here)
  "conn.Target", "conn.Close", "delete",  -- cerase c fn
  "loop{", "interceptors.CreateInterceptor", "}",   -- not modelled
  "grpc.NewClient",                       -- ++ [(fn, ep)]
  "return",                               -- not modelled: NewClient error
  "return"]

/-- PackagedFunctionRunner.GarbageCollectConnectionsNow -/
def skelGcConns : List String := [
  "len", "return",                        -- gcF: c = [] ⇒ (some 0, []) without listing
  "client.List",                          -- fns
  "return",                               -- gcF true = (none, c) for a non-empty cache
  "loop{", "f.GetName", "}",
  "loop{", "conns.Close", "delete", "}",  -- filter (fns.contains ·.1), count of the rest
  "return"]

/-- BetaFallBackFunctionRunnerServiceClient.RunFunction: not modelled (transport); declared so that
the order v1 first → only Unimplemented falls back → toBeta → v1beta1 → fromBeta stays pinned
beside the round-trip test monitor `C04:beta-reencoding-lossy` -/
def skelBeta : List String := [
  "fnv1.NewFunctionRunnerServiceClient.RunFunction", "return",
  "status.Code", "return",
  "toBeta", "return",
  "fnv1beta1.NewFunctionRunnerServiceClient.RunFunction", "return",
  "fromBeta", "return"]

/-- toBeta / fromBeta -/
def skelReencode : List String := ["proto.Marshal", "proto.Unmarshal"]

end Xp.C04Conn

/-
C04 model, connection bookkeeping of PackagedFunctionRunner (internal/xfn/function_runner.go):
getClientConn and GarbageCollectConnectionsNow. The cache is a map function name ↦ target.
gRPC itself (dialling, transport) is not modelled: a connection is its target string.
-/
namespace Xp.C04Conn

structure Rev where
  name : String
  fn : String          -- parent function (label pkg.crossplane.io/package)
  active : Bool
  endpoint : String
  deriving DecidableEq, Repr, Inhabited

abbrev Conns := List (String × String)   -- function name ↦ target, no duplicate names

def cget (c : Conns) (n : String) : Option String := (c.find? (·.1 = n)).map (·.2)

def cerase (c : Conns) (n : String) : Conns := c.filter (·.1 ≠ n)

/-- the endpoint `getClientConn` must use: that of the first Active revision of the function
(in list order); `none` = error (no active revision, or it has no endpoint yet) -/
def wanted (revs : List Rev) (fn : String) : Option String :=
  match revs.find? (fun r => r.fn = fn ∧ r.active) with
  | none => none
  | some r => if r.endpoint = "" then none else some r.endpoint

/-- getClientConn: returns the target handed out (none = error) and the cache afterwards -/
def getConn (revs : List Rev) (c : Conns) (fn : String) : Option String × Conns :=
  match wanted revs fn with
  | none => (none, c)
  | some ep =>
    if cget c fn = some ep then (some ep, c)
    else (some ep, cerase c fn ++ [(fn, ep)])     -- stale connection closed, new one cached

/-- GarbageCollectConnectionsNow: closes the connections of functions that are not installed -/
def gc (fns : List String) (c : Conns) : Nat × Conns :=
  ((c.filter fun p => !fns.contains p.1).length, c.filter fun p => fns.contains p.1)

end Xp.C04Conn

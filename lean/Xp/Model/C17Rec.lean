import Xp.Base.Prog
import Xp.Model.C17
/-
C17 model, part 2: the lock reconciler (internal/controller/pkg/resolver/reconciler.go,
`Reconciler.Reconcile`) at the level of its API calls.

The Reconciler is built ONCE per process (`Setup`) over the manager's client: `Get` of the
Lock and `List` of the installed packages are answered by the informer cache, `Update`,
`Status().Update` and `Create` go to the API server; the tag list comes from the registry
(`fetcher.Tags`), the pull secret from the image config store. A `RWorld` is therefore the
API server (`lock`, `pkgs`), the cache (`clock`, `cpkgs`), the registry (`tags`), the error the
next call fails with (`inject`) and a ghost record of what the running Reconcile has been served
so far (`seen`; it influences no reply). Everything other clients, the informer and the registry
do while ONE Reconcile runs is an `Xp.Env RWorld` (what happens right before the reconciler's
k-th call): another writer replaces the Lock's packages or deletes the Lock, a user / the package
manager creates, changes or deletes a package, the cache catches up, a tag is published, a call
fails with an error of some class. `Model/C17.lean`'s `reconcile` (the decision skeleton, one
quiet Reconcile) is the special case of a quiet world.
-/
namespace Xp.C17

/-- classes of errors a call can come back with -/
inductive ErrClass where
  | notFound | alreadyExists | conflict | invalid | forbidden | timeout | internal
  /-- not a Status: connection refused / reset (`Temporary()`) -/
  | transport
  /-- not a Status: context deadline exceeded -/
  | deadline
  deriving DecidableEq, Repr

/-- `name.ParseReference(s, name.WithDefaultRegistry(registry))` as far as the reconciler looks -/
structure RefInfo where
  /-- `ref.Context().Name()`: registry/repository -/
  repo : String
  /-- `ref.Identifier()`: tag or digest -/
  ident : String
  /-- `ref.String()` -/
  str : String
  /-- `xpkg.ToDNSLabel(ref.Context().RepositoryStr())`: the name of a package created for it -/
  pkgName : String
  deriving DecidableEq, Repr

/-- a Provider / Configuration / Function object -/
structure PkgObj where
  kind : String
  name : String
  /-- spec.package (`none`: the field is missing) -/
  image : Option String
  rv : Nat
  deriving DecidableEq, Repr

/-- the Lock object -/
structure LockObj where
  pkgs : List Pkg
  /-- the finalizer lock.pkg.crossplane.io is present -/
  fin : Bool
  /-- status of the condition of type Resolved (`none`: no such condition) -/
  resolved : Option Bool
  rv : Nat
  deriving DecidableEq, Repr

/-- ghost: what the running Reconcile has been served / has written so far -/
structure Seen where
  lock : Option LockObj := none
  pkgs : Option (List PkgObj) := none
  tags : Option (List String) := none
  /-- package writes (create / update) applied by the API server -/
  writes : Nat := 0
  /-- a Create of this Reconcile was answered AlreadyExists -/
  taken : Bool := false
  /-- the package its Get (of the object that holds the name) was served -/
  existing : Option PkgObj := none
  deriving DecidableEq, Repr

structure RWorld where
  /-- API server -/
  lock : Option LockObj := none
  pkgs : List PkgObj := []
  /-- informer cache: what `Get` / `List` are served (list order = order served) -/
  clock : Option LockObj := none
  cpkgs : List PkgObj := []
  /-- registry: repository ↦ tag list (`none`: cannot be reached) -/
  tags : List (String × Option (List String)) := []
  /-- the resourceVersion the next write gets (one counter for the whole server) -/
  next : Nat := 1
  /-- the next call fails with this error; nothing is applied -/
  inject : Option ErrClass := none
  seen : Seen := {}
  deriving Repr

inductive Req where
  | getLock
  /-- `client.Update(lock)`: the packages as read, the finalizer added / removed -/
  | updateLock (pkgs : List Pkg) (fin : Bool) (rv : Nat)
  | statusLock (resolved : Option Bool) (rv : Nat)
  | listPkgs (kind : String)
  | pullSecret (ref : String)
  | tags (repo : String)
  | createPkg (kind name image : String)
  | updatePkg (kind name image : String) (rv : Nat)
  /-- Get of one package (after a Create was answered AlreadyExists) -/
  | getPkg (kind name : String)
  deriving DecidableEq, Repr

inductive Resp where
  | lock (l : LockObj)
  | pkgs (l : List PkgObj)
  | pkg (p : PkgObj)
  | tags (l : List String)
  | ok (rv : Nat)
  | err (e : ErrClass)
  deriving DecidableEq, Repr

def sameKey (kind name : String) (p : PkgObj) : Bool := p.kind == kind && p.name == name

/-- the stored package under (kind, name) gets `image` and resourceVersion `rv` -/
def setImage (kind name : String) (image : Option String) (rv : Nat) : List PkgObj → List PkgObj
  | [] => []
  | p :: ps =>
    if sameKey kind name p then { p with image := image, rv := rv } :: ps
    else p :: setImage kind name image rv ps

def lookupTags (repo : String) : List (String × Option (List String)) → Option (List String)
  | [] => some []
  | (r, t) :: rest => if r == repo then t else lookupTags repo rest

/-- One call. Order of the checks as in the simulated server: Update: NotFound, Conflict;
Create: AlreadyExists. Every write that is applied moves the resourceVersion. -/
def execRec (w : RWorld) (r : Req) : RWorld × Resp :=
  match w.inject with
  | some e => ({ w with inject := none }, .err e)
  | none =>
    match r with
    | .getLock =>
      match w.clock with
      | none => (w, .err .notFound)
      | some l => ({ w with seen := { w.seen with lock := some l } }, .lock l)
    | .updateLock pkgs fin rv =>
      match w.lock with
      | none => (w, .err .notFound)
      | some l =>
        if l.rv ≠ rv then (w, .err .conflict)
        else ({ w with lock := some { l with pkgs := pkgs, fin := fin, rv := w.next }, next := w.next + 1 }, .ok w.next)
    | .statusLock c rv =>
      match w.lock with
      | none => (w, .err .notFound)
      | some l =>
        if l.rv ≠ rv then (w, .err .conflict)
        else ({ w with lock := some { l with resolved := c, rv := w.next }, next := w.next + 1 }, .ok w.next)
    | .listPkgs kind =>
      let ps := w.cpkgs.filter (fun p => p.kind == kind)
      ({ w with seen := { w.seen with pkgs := some ps } }, .pkgs ps)
    | .pullSecret _ => (w, .ok 0)
    | .tags repo =>
      match lookupTags repo w.tags with
      | none => (w, .err .internal)
      | some ts => ({ w with seen := { w.seen with tags := some ts } }, .tags ts)
    | .getPkg kind name =>
      match w.cpkgs.find? (sameKey kind name) with
      | none => (w, .err .notFound)
      | some p => ({ w with seen := { w.seen with existing := some p } }, .pkg p)
    | .createPkg kind name image =>
      if w.pkgs.any (sameKey kind name) then ({ w with seen := { w.seen with taken := true } }, .err .alreadyExists)
      else ({ w with pkgs := w.pkgs ++ [⟨kind, name, some image, w.next⟩], next := w.next + 1,
                     seen := { w.seen with writes := w.seen.writes + 1 } }, .ok w.next)
    | .updatePkg kind name image rv =>
      match w.pkgs.find? (sameKey kind name) with
      | none => (w, .err .notFound)
      | some p =>
        if p.rv ≠ rv then (w, .err .conflict)
        else ({ w with pkgs := setImage kind name (some image) w.next w.pkgs, next := w.next + 1,
                       seen := { w.seen with writes := w.seen.writes + 1 } }, .ok w.next)

def recSem : Sem RWorld Req Resp where
  exec := execRec
  errResp := fun o _ => match o with
    | .conflict => .err .conflict
    | _ => .err .internal

/-! ### what others do -/

inductive WAct where
  /-- another writer (a revision's Resolve / RemoveSelf) replaces the Lock's packages; creates the Lock if absent -/
  | setLock (pkgs : List Pkg)
  | delLock
  /-- a user / the package manager creates the package or changes its spec.package -/
  | setPkg (kind name : String) (image : Option String)
  | delPkg (kind name : String)
  /-- the informer cache catches up with the API server -/
  | syncLock
  | syncPkg (kind name : String)
  /-- the registry: tags are published / removed / it becomes (un)reachable -/
  | setTags (repo : String) (tags : Option (List String))
  /-- the next call fails with this class -/
  | err (e : ErrClass)
  deriving Repr

def setTagsOf (repo : String) (t : Option (List String)) : List (String × Option (List String)) → List (String × Option (List String))
  | [] => [(repo, t)]
  | (r, x) :: rest => if r == repo then (r, t) :: rest else (r, x) :: setTagsOf repo t rest

/-- replace the cached copy in place, append it when there is none -/
def putCached (p : PkgObj) : List PkgObj → List PkgObj
  | [] => [p]
  | q :: qs => if sameKey p.kind p.name q then p :: qs else q :: putCached p qs

def applyWAct (w : RWorld) : WAct → RWorld
  | .setLock pkgs =>
    match w.lock with
    | some l => { w with lock := some { l with pkgs := pkgs, rv := w.next }, next := w.next + 1 }
    | none => { w with lock := some ⟨pkgs, false, none, w.next⟩, next := w.next + 1 }
  | .delLock => { w with lock := none }
  | .setPkg kind name image =>
    if w.pkgs.any (sameKey kind name) then { w with pkgs := setImage kind name image w.next w.pkgs, next := w.next + 1 }
    else { w with pkgs := w.pkgs ++ [⟨kind, name, image, w.next⟩], next := w.next + 1 }
  | .delPkg kind name => { w with pkgs := w.pkgs.filter (fun p => !sameKey kind name p) }
  | .syncLock => { w with clock := w.lock }
  | .syncPkg kind name =>
    match w.pkgs.find? (sameKey kind name) with
    | some p => { w with cpkgs := putCached p w.cpkgs }
    | none => { w with cpkgs := w.cpkgs.filter (fun p => !sameKey kind name p) }
  | .setTags repo t => { w with tags := setTagsOf repo t w.tags }
  | .err e => { w with inject := some e }

/-- the scenario's script as an environment: the acts scheduled right before call `k`, in order -/
def scriptEnvW (acts : List (Nat × WAct)) : Env RWorld :=
  fun k w => (acts.filter (·.1 = k)).foldl (fun w a => applyWAct w a.2) w

/-! ### the reconciler -/

structure RCfg where
  o : Oracle
  /-- reference parsing with the reconciler's default registry -/
  refOf : String → Option RefInfo
  /-- the package kind a dependency on that identifier declares ("" = neither a valid type nor
  apiVersion and kind) -/
  kindOf : String → String
  upg : Bool
  down : Bool

inductive RErr where
  | none
  | getLock (e : ErrClass)
  | removeFinalizer (e : ErrClass)
  | addFinalizer (e : ErrClass)
  /-- "cannot update status": the Status().Update whose error is returned failed -/
  | status (e : ErrClass)
  | buildDag
  | sortDag
  /-- NewPackageList: the dependency names no package kind -/
  | depType
  | list (e : ErrClass)
  | findInstall (e : VErr)
  | pullInstall
  /-- NewPackage: the dependency names no package kind -/
  | construct
  | create (e : ErrClass)
  /-- the name of the package to create is taken by a package of another repository -/
  | createTaken
  | findUpdate (e : VErr)
  | pullUpdate
  | update (e : ErrClass)
  /-- semver.MustParse of an installed identifier that is not a semantic version -/
  | panic
  deriving DecidableEq, Repr

structure RRes where
  err : RErr
  requeue : Bool
  deriving DecidableEq, Repr

abbrev RProg := Prog Req Resp RRes

def fmtImage (ref : String) (v : String) : String :=
  if v.startsWith "sha256:" then ref ++ "@" ++ v else ref ++ ":" ++ v

/-! Every continuation of a call has a name (`k…`), so that the proofs can speak about the
program call by call. -/

def kStatusWrap (r : Resp) : RProg :=
  match r with
  | .err e => .ret ⟨.status e, false⟩
  | _ => .ret ⟨.none, false⟩

/-- `lock.SetConditions(c); return errors.Wrap(r.client.Status().Update(ctx, lock), errCannotUpdateStatus)` -/
def finishWrap (c : Option Bool) (rv : Nat) : RProg := .call (.statusLock c rv) kStatusWrap

/-- `lock.SetConditions(ResolutionFailed(err)); _ = r.client.Status().Update(ctx, lock); return err` -/
def finishErr (rv : Nat) (e : RErr) : RProg :=
  .call (.statusLock (some false) rv) fun _ => .ret ⟨e, false⟩

def kFin (l : LockObj) (want : Bool) (onErr : ErrClass → RErr) (k : Nat → RProg) (r : Resp) : RProg :=
  match r with
  | .ok rv => k rv
  | .err .conflict => .ret ⟨.none, true⟩
  | .err e =>
    -- RemoveFinalizer ignores NotFound (resource.IgnoreNotFound), AddFinalizer does not
    if e = .notFound ∧ want = false then k l.rv else .ret ⟨onErr e, false⟩
  | _ => .ret ⟨onErr .internal, false⟩

/-- resource.APIFinalizer Add/RemoveFinalizer: an Update only when the finalizer has to change;
a Conflict is a silent requeue; an Update that fails leaves the in-memory resourceVersion as read -/
def ensureFin (l : LockObj) (want : Bool) (onErr : ErrClass → RErr) (k : Nat → RProg) : RProg :=
  if l.fin = want then k l.rv
  else .call (.updateLock l.pkgs want l.rv) (kFin l want onErr k)

/-- the loop over the listed packages: the LAST one whose spec.package parses to the
dependency's repository -/
def lastMatch (refOf : String → Option RefInfo) (repo : String) : List PkgObj → Option (PkgObj × RefInfo) → Option (PkgObj × RefInfo)
  | [], acc => acc
  | p :: ps, acc =>
    match p.image.bind refOf with
    | some r => lastMatch refOf repo ps (if r.repo = repo then some (p, r) else acc)
    | none => lastMatch refOf repo ps acc

def kTags (onFetch : RProg) (k : List String → RProg) (r : Resp) : RProg :=
  match r with
  | .tags ts => k ts
  | _ => onFetch

def kSecret (ref : RefInfo) (onPull onFetch : RProg) (k : List String → RProg) (r : Resp) : RProg :=
  match r with
  | .err _ => onPull
  | _ => .call (.tags ref.repo) (kTags onFetch k)

/-- config.PullSecretFor and fetcher.Tags, common to both selection functions -/
def fetchP (ref : RefInfo) (onPull onFetch : RProg) (k : List String → RProg) : RProg :=
  .call (.pullSecret ref.str) (kSecret ref onPull onFetch k)

/-- checkExistingPackage after its Get: success only if the object that holds the name is a
package of the dependency's repository (registry and repository, as for "installed") -/
def kExisting (cfg : RCfg) (ref : RefInfo) (rv : Nat) (r : Resp) : RProg :=
  match r with
  | .pkg p =>
    match p.image.bind cfg.refOf with
    | some eref => if eref.repo = ref.repo then finishWrap (some true) rv else finishErr rv .createTaken
    | none => finishErr rv .createTaken
  | .err e => finishErr rv (.create e)
  | _ => finishErr rv (.create .internal)

def kCreate (cfg : RCfg) (dep : Dep) (ref : RefInfo) (rv : Nat) (r : Resp) : RProg :=
  match r with
  | .err .alreadyExists => .call (.getPkg (cfg.kindOf dep.pkg) ref.pkgName) (kExisting cfg ref rv)
  | .err e => finishErr rv (.create e)
  | _ => finishWrap (some true) rv

/-- what follows findDependencyVersionToInstall returning `v`: NewPackage, Create -/
def createP (cfg : RCfg) (dep : Dep) (ref : RefInfo) (rv : Nat) (v : String) : RProg :=
  if v = "" then finishWrap (some false) rv
  else if cfg.kindOf dep.pkg = "" then finishErr rv .construct
  else .call (.createPkg (cfg.kindOf dep.pkg) ref.pkgName (fmtImage ref.str v)) (kCreate cfg dep ref rv)

/-- findDependencyVersionToInstall, NewPackage, Create -/
def installP (cfg : RCfg) (dep : Dep) (ref : RefInfo) (rv : Nat) : RProg :=
  match cfg.o.digest dep.con with
  | some dg => createP cfg dep ref rv dg
  | none =>
    if !cfg.o.conOk dep.con then finishErr rv (.findInstall .invalidConstraint)
    else fetchP ref (finishErr rv .pullInstall) (finishErr rv (.findInstall .fetchTags)) fun ts =>
      createP cfg dep ref rv (lastSat (cfg.o.sat dep.con) (sortTags (parseTags cfg.o ts)) "")

def kUpdate (rv : Nat) (r : Resp) : RProg :=
  match r with
  | .err e => finishErr rv (.update e)
  | _ => finishWrap (some true) rv

/-- the Update of the installed package `p` to version `v` -/
def writeUpdP (ref : RefInfo) (rv : Nat) (p : PkgObj) (v : String) : RProg :=
  .call (.updatePkg p.kind p.name (fmtImage ref.str v) p.rv) (kUpdate rv)

/-- findDependencyVersionToUpdate after the tag list has been fetched -/
def pickP (cfg : RCfg) (parents : List String) (ref : RefInfo) (rv : Nat) (p : PkgObj) (pref : RefInfo)
    (ts : List String) : RProg :=
  if !parents.all cfg.o.conOk then finishErr rv (.findUpdate .invalidConstraint)
  else
    match cfg.o.ver pref.ident with
    | none => .ret ⟨.panic, false⟩
    | some cur =>
      match pickUpdate (satAll cfg.o parents) cur cfg.down (sortTags (parseTags cfg.o ts)) none with
      | some v => writeUpdP ref rv p v
      | none => finishErr rv (.findUpdate .noValidVersion)

/-- the parent constraints recorded on the DAG node of a dependency -/
def parentsOf (d : Dag) (id : String) : List String := ((d.get id).map (·.parents)).getD []

/-- findDependencyVersionToUpdate, Update of the installed package `p` (spec.package parsed to `pref`) -/
def updateP (cfg : RCfg) (d : Dag) (dep : Dep) (ref : RefInfo) (rv : Nat) (p : PkgObj) (pref : RefInfo) : RProg :=
  match digestToUpdate cfg.o (parentsOf d dep.pkg) with
  | .error e => finishErr rv (.findUpdate e)
  | .ok dg =>
    if dg ≠ "" then writeUpdP ref rv p dg
    else fetchP ref (finishErr rv .pullUpdate) (finishErr rv (.findUpdate .fetchTags))
      (pickP cfg (parentsOf d dep.pkg) ref rv p pref)

def kList (cfg : RCfg) (d : Dag) (dep : Dep) (ref : RefInfo) (rv : Nat) (r : Resp) : RProg :=
  match r with
  | .pkgs ps =>
    match lastMatch cfg.refOf ref.repo ps none with
    | none => installP cfg dep ref rv
    | some (p, pref) => updateP cfg d dep ref rv p pref
  | .err e => finishErr rv (.list e)
  | _ => finishErr rv (.list .internal)

/-- what Reconcile does about the first implied node `dep` of the DAG `d` -/
def depP (cfg : RCfg) (d : Dag) (dep : Dep) (rv : Nat) : RProg :=
  match cfg.refOf dep.pkg with
  | none => finishWrap (some false) rv
  | some ref =>
    if cfg.upg then
      if cfg.kindOf dep.pkg = "" then finishErr rv .depType
      else .call (.listPkgs (cfg.kindOf dep.pkg)) (kList cfg d dep ref rv)
    else installP cfg dep ref rv

/-- Reconcile after the finalizer is in place; `rv` is the resourceVersion the in-memory Lock carries -/
def afterFin (cfg : RCfg) (l : LockObj) (rv : Nat) : RProg :=
  match init cfg.o cfg.upg l.pkgs with
  | .error _ => finishErr rv .buildDag
  | .ok (d, implied) =>
    match sort d d.keys with
    | .error _ => finishErr rv .sortDag
    | .ok _ =>
      match implied with
      | [] => finishWrap (some true) rv
      | dep :: _ => depP cfg d dep rv

def kGet (cfg : RCfg) (r : Resp) : RProg :=
  match r with
  | .lock l =>
    if l.pkgs.isEmpty then ensureFin l false .removeFinalizer (fun rv => finishWrap none rv)
    else ensureFin l true .addFinalizer (fun rv => afterFin cfg l rv)
  | .err .notFound => .ret ⟨.none, false⟩
  | .err e => .ret ⟨.getLock e, false⟩
  | _ => .ret ⟨.getLock .internal, false⟩

/-- Reconciler.Reconcile -/
def reconcileP (cfg : RCfg) : RProg := .call .getLock (kGet cfg)

/-- a new Reconcile starts: nothing has been served yet -/
def RWorld.fresh (w : RWorld) : RWorld := { w with seen := {} }

/-- the world is quiet: the cache is up to date, no call is about to fail -/
def RWorld.quiet (w : RWorld) : Prop := w.inject = none ∧ w.clock = w.lock ∧ w.cpkgs = w.pkgs

end Xp.C17

/-! ## Specification vocabulary (Props; used only by the theorems) -/
namespace Xp.C17

/-- Coherence of resourceVersions: every resourceVersion in use is below `next` (the server hands
them out in increasing order), stored packages have pairwise different resourceVersions, and a
cached / served copy that carries the resourceVersion of the stored object IS the stored object.
Kept by every call of the reconciler, by every third-party act and by the cache catching up. -/
structure Coh (w : RWorld) : Prop where
  lockRv : ∀ l, w.lock = some l → l.rv < w.next
  pkgRv : ∀ p ∈ w.pkgs, p.rv < w.next
  clockRv : ∀ l, w.clock = some l → l.rv < w.next
  cpkgRv : ∀ p ∈ w.cpkgs, p.rv < w.next
  seenLockRv : ∀ l, w.seen.lock = some l → l.rv < w.next
  seenPkgRv : ∀ ps, w.seen.pkgs = some ps → ∀ p ∈ ps, p.rv < w.next
  pkgUniq : ∀ p ∈ w.pkgs, ∀ q ∈ w.pkgs, p.rv = q.rv → p = q
  clockEq : ∀ c l, w.clock = some c → w.lock = some l → c.rv = l.rv → c = l
  seenLockEq : ∀ c l, w.seen.lock = some c → w.lock = some l → c.rv = l.rv → c = l
  cpkgEq : ∀ c ∈ w.cpkgs, ∀ p ∈ w.pkgs, c.rv = p.rv → c = p
  seenPkgEq : ∀ ps, w.seen.pkgs = some ps → ∀ c ∈ ps, ∀ p ∈ w.pkgs, c.rv = p.rv → c = p

/-- What the other clients may do between two calls of one Reconcile: anything that keeps the
resourceVersions coherent; the ghost record of what the Reconcile was served is not theirs. -/
def RelyW (s s' : RWorld) : Prop := s'.seen = s.seen ∧ (Coh s → Coh s')

/-- The Lock this Reconcile was served justifies doing something about `dep`: its DAG `d` could
be built and sorted (no cycle) and `dep` is the first implied node. -/
def ServedDep (cfg : RCfg) (s : Seen) (d : Dag) (dep : Dep) : Prop :=
  ∃ l rest, s.lock = some l ∧ init cfg.o cfg.upg l.pkgs = .ok (d, dep :: rest) ∧ ∃ res, sort d d.keys = .ok res

/-- The guarantee: what must be true, in terms of what THIS Reconcile has been served so far,
whenever the reconciler issues a write.
* Create: nothing written yet; the Lock served has a sortable DAG whose first implied node is
  `dep`; (with upgrades) the package list served holds no package of `dep`'s repository; the
  version is what findDependencyVersionToInstall selects from the tag list served for `dep`'s
  own constraint; kind, name and image are `dep`'s.
* Update: nothing written yet; upgrades are on; the object updated is the package of `dep`'s
  repository in the list served, addressed with the resourceVersion it was served with; the
  version is what findDependencyVersionToUpdate selects from the tag list served for the parents'
  constraints and the version that object was served with.
* Update of the Lock: the packages as served, the resourceVersion as served. -/
def Guar (cfg : RCfg) (w : RWorld) : Req → Prop
  | .createPkg kind name image =>
      w.seen.writes = 0 ∧
      ∃ d dep ref v, ServedDep cfg w.seen d dep ∧ cfg.refOf dep.pkg = some ref ∧
        kind = cfg.kindOf dep.pkg ∧ name = ref.pkgName ∧ image = fmtImage ref.str v ∧ v ≠ "" ∧
        toInstall cfg.o dep.con w.seen.tags = .ok v ∧
        (cfg.upg = true → ∃ ps, w.seen.pkgs = some ps ∧ lastMatch cfg.refOf ref.repo ps none = none)
  | .updatePkg kind name image rv =>
      w.seen.writes = 0 ∧ cfg.upg = true ∧
      ∃ d dep ref ps p pref v, ServedDep cfg w.seen d dep ∧ cfg.refOf dep.pkg = some ref ∧
        w.seen.pkgs = some ps ∧ lastMatch cfg.refOf ref.repo ps none = some (p, pref) ∧
        kind = p.kind ∧ name = p.name ∧ rv = p.rv ∧ image = fmtImage ref.str v ∧
        toUpdate cfg.o (parentsOf d dep.pkg) pref.ident cfg.down w.seen.tags = .ok v
  | .updateLock pkgs fin rv => ∃ l, w.seen.lock = some l ∧ pkgs = l.pkgs ∧ rv = l.rv ∧ fin = !l.fin
  | _ => True

/-- Success after AlreadyExists needs a reason: either no Create of this Reconcile was answered
AlreadyExists, or the object that holds the name — as this Reconcile's Get was served it — is
the package (kind, name) of the first implied dependency's own repository. -/
def NameOk (cfg : RCfg) (s : Seen) : Prop :=
  s.taken = false ∨
  ∃ d dep ref p eref, ServedDep cfg s d dep ∧ cfg.refOf dep.pkg = some ref ∧ s.existing = some p ∧
    p.kind = cfg.kindOf dep.pkg ∧ p.name = ref.pkgName ∧
    p.image.bind cfg.refOf = some eref ∧ eref.repo = ref.repo

/-- the guarantee, at a moment at which the resourceVersions are coherent -/
def GuarC (cfg : RCfg) (w : RWorld) (r : Req) : Prop := Coh w ∧ Guar cfg w r

/-- the installed version the decision skeleton (`reconcile`) is told: the one in the list served -/
def servedInstalled (cfg : RCfg) (s : Seen) (id : String) : Option String :=
  (cfg.refOf id).bind fun ref => s.pkgs.bind fun ps => (lastMatch cfg.refOf ref.repo ps none).map (·.2.ident)

def Req.isPkgWrite : Req → Bool
  | .createPkg .. => true
  | .updatePkg .. => true
  | _ => false

/-- a sequence of Reconciles of the ONE long-lived reconciler: each starts with nothing served,
on the world the previous one (and the others, meanwhile) left behind -/
def runSteps (cfg : RCfg) : List (Env RWorld × Plan) → RWorld → RWorld
  | [], w => w
  | (env, plan) :: rest, w => runSteps cfg rest (runE recSem env plan 0 (reconcileP cfg) w.fresh).1

/-- every call the API server applied during the sequence, with the world at that moment -/
def ownSteps (cfg : RCfg) : List (Env RWorld × Plan) → RWorld → List (RWorld × Req)
  | [], _ => []
  | (env, plan) :: rest, w =>
    ownE recSem env plan 0 (reconcileP cfg) w.fresh ++
      ownSteps cfg rest (runE recSem env plan 0 (reconcileP cfg) w.fresh).1

end Xp.C17

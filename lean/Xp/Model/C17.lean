/-
C17 model: package dependency resolution.

Mirrors, call by call,
* internal/dag/dag.go           MapDag.{Init, AddNode, AddEdge(s), AddOrUpdateNodes, Sort/visit, TraceNode/traceNode}
* internal/dag/upgrading_dag.go MapUpgradingDag (same Sort/TraceNode; AddEdge with isValidConstraints,
                                parent constraints; AddOrUpdateNodes keeping parent constraints)
* apis/pkg/v1beta1/lock.go      LockPackage / Dependency as dag.Node (Neighbors, AddNeighbors, ...)
* internal/controller/pkg/resolver/reconciler.go
                                findDependencyVersionToInstall, findDependencyVersionToUpdate,
                                findDigestToUpdate, and the decision skeleton of Reconcile
* internal/controller/pkg/revision/dependency.go  PackageDependencyManager.Resolve / RemoveSelf

Masterminds/semver and go-containerregistry are libraries, not repository code: their
verdicts (constraint parses?, version parses to which numbers?, does the constraint allow
the version?, is the string a digest?) enter as an `Oracle`; every theorem is parametric in it.
The *order* on parsed versions is modelled (and proved total and transitive) here.

Go map iteration order (Sort) is an input (`order`), universally quantified in the theorems.
-/
namespace Xp.C17

/-! ## Semantic versions (Masterminds/semver v1 `Version.Compare`) -/

/-- one dot-separated pre-release identifier; `comparePrePart` parses with ParseUint -/
inductive Ident where
  | num (n : Nat)
  | alnum (s : String)
  deriving DecidableEq, Repr

/-- a parsed version; build metadata is ignored by `Compare` and not kept -/
structure Ver where
  major : Nat
  minor : Nat
  patch : Nat
  pre : List Ident
  deriving DecidableEq, Repr

/-- `comparePrePart s o ≤ 0` for two present identifiers: numbers sort before
alphanumerics, numbers numerically, alphanumerics as strings. -/
def Ident.le : Ident → Ident → Bool
  | .num a, .num b => decide (a ≤ b)
  | .num _, .alnum _ => true
  | .alnum _, .num _ => false
  | .alnum a, .alnum b => decide (a ≤ b)

/-- `comparePrerelease v o ≤ 0`: identifier by identifier; a missing identifier is smaller. -/
def preLe : List Ident → List Ident → Bool
  | [], _ => true
  | _ :: _, [] => false
  | a :: as, b :: bs => if a = b then preLe as bs else Ident.le a b

/-- the pre-release part of `Compare`: no pre-release on either side is equality, a release
is greater than any of its pre-releases, otherwise `comparePrerelease` -/
def relLe : List Ident → List Ident → Bool
  | [], [] => true
  | [], _ :: _ => false
  | _ :: _, [] => true
  | a :: as, b :: bs => preLe (a :: as) (b :: bs)

/-- `v.Compare(w) ≤ 0` -/
def Ver.le (v w : Ver) : Bool :=
  if v.major ≠ w.major then decide (v.major < w.major)
  else if v.minor ≠ w.minor then decide (v.minor < w.minor)
  else if v.patch ≠ w.patch then decide (v.patch < w.patch)
  else relLe v.pre w.pre

/-- `v.Compare(w) < 0` (`LessThan`) -/
def Ver.lt (v w : Ver) : Bool := !(w.le v)

/-! ## Library verdicts -/

/-- What the model is told about the two libraries. -/
structure Oracle where
  /-- `semver.NewVersion(tag)`; `none` = not a semantic version -/
  ver : String → Option Ver
  /-- `semver.NewConstraint(c)` succeeds -/
  conOk : String → Bool
  /-- `c.Check(v)` for the parsed constraint `c` and parsed version of `tag` -/
  sat : String → String → Bool
  /-- `conregv1.NewHash(c)` succeeds, with its `String()` -/
  digest : String → Option String

/-! ## Lock contents and DAG nodes -/

/-- v1beta1.Dependency as stored in a lock package -/
structure Dep where
  pkg : String
  con : String
  deriving DecidableEq, Repr

/-- v1beta1.LockPackage -/
structure Pkg where
  name : String
  source : String
  version : String
  deps : List Dep
  /-- the deprecated `Type` field is set (`self` built by Resolve never sets it) -/
  typed : Bool
  deriving DecidableEq, Repr

/-- a `dag.Node`: `*LockPackage` (`isPkg`) or `*Dependency` -/
structure Node where
  id : String
  isPkg : Bool
  /-- GetConstraints(): the version of a lock package, the constraint of a dependency -/
  con : String
  /-- Neighbors(): the lock package's dependencies; none for a Dependency -/
  deps : List Dep
  /-- ParentConstraints -/
  parents : List String
  deriving DecidableEq, Repr

/-- the `nodes` map; at most one node per id is an invariant of the operations below -/
abbrev Dag := List Node

def pkgNode (p : Pkg) : Node := ⟨p.source, true, p.version, p.deps, []⟩
def depNode (e : Dep) : Node := ⟨e.pkg, false, e.con, [], []⟩

def Dag.get (d : Dag) (id : String) : Option Node := d.find? (fun n => n.id == id)
def Dag.has (d : Dag) (id : String) : Bool := (d.get id).isSome
def Dag.keys (d : Dag) : List String := d.map (·.id)
/-- neighbour identifiers of a node; `none` when the node does not exist -/
def Dag.nb (d : Dag) (id : String) : Option (List String) := (d.get id).map (fun n => n.deps.map (·.pkg))

inductive DagErr where
  | nodeExists (id : String)
  | noFrom (id : String)
  deriving DecidableEq, Repr

/-- AddNode -/
def addNode (d : Dag) (n : Node) : Except DagErr Dag :=
  if d.has n.id then .error (.nodeExists n.id) else .ok (d ++ [n])

def addNodes : Dag → List Node → Except DagErr Dag
  | d, [] => .ok d
  | d, n :: ns =>
    match addNode d n with
    | .error e => .error e
    | .ok d' => addNodes d' ns

/-- AddParentConstraints on the node stored under `id` -/
def addParents (d : Dag) (id : String) (cs : List String) : Dag :=
  d.map (fun n => if n.id == id then { n with parents := n.parents ++ cs } else n)

/-- what `from.AddNeighbors(to)` appends to `to.ParentConstraints`:
LockPackage: the constraint of its first dependency with `to`'s identifier;
Dependency: its own constraint. -/
def neighborCons (frm : Node) (to : String) : List String :=
  if frm.isPkg then
    match frm.deps.find? (fun e => e.pkg == to) with
    | some e => [e.con]
    | none => []
  else [frm.con]

/-- isValidConstraints(installed, wanted) of upgrading_dag.go -/
def validCon (o : Oracle) (installed wanted : String) : Bool :=
  installed == wanted || o.sat wanted installed

/-- AddEdge of MapDag (`upg = false`) and MapUpgradingDag (`upg = true`); the Bool is the
returned "implied" flag. `to` is a fresh `*Dependency` obtained from `Neighbors()`. -/
def addEdge (o : Oracle) (upg : Bool) (d : Dag) (frm : String) (to : Dep) : Except DagErr (Dag × Bool) :=
  match d.get frm with
  | none => .error (.noFrom frm)
  | some f =>
    let pc := neighborCons f to.pkg
    match d.get to.pkg with
    | none =>
      -- implied: `to` itself becomes the node, then from.AddNeighbors(to) writes into it;
      -- the upgrading DAG then appends to.ParentConstraints to the node, which is `to`: doubled
      let n := { depNode to with parents := if upg then pc ++ pc else pc }
      .ok (d ++ [n], true)
    | some org =>
      if upg then
        if !validCon o org.con to.con then .ok (addParents d to.pkg pc, true)
        else .ok (addParents d to.pkg pc, false)
      else
        -- MapDag: AddNeighbors only touches the throw-away copy `to`
        .ok (d, false)

/-- AddEdges for one source node, accumulating the implied identifiers in call order -/
def addEdges (o : Oracle) (upg : Bool) (frm : String) : Dag → List Dep → List Dep → Except DagErr (Dag × List Dep)
  | d, [], imp => .ok (d, imp)
  | d, e :: es, imp =>
    match addEdge o upg d frm e with
    | .error x => .error x
    | .ok (d', i) => addEdges o upg frm d' es (if i then imp ++ [e] else imp)

def initEdges (o : Oracle) (upg : Bool) : Dag → List Pkg → List Dep → Except DagErr (Dag × List Dep)
  | d, [], imp => .ok (d, imp)
  | d, p :: ps, imp =>
    match addEdges o upg p.source d p.deps imp with
    | .error x => .error x
    | .ok (d', imp') => initEdges o upg d' ps imp'

/-- Init: all nodes first, then all edges; returns the DAG and the implied nodes (the
`*Dependency` values handed to AddEdge, in call order) -/
def init (o : Oracle) (upg : Bool) (pkgs : List Pkg) : Except DagErr (Dag × List Dep) :=
  match addNodes [] (pkgs.map pkgNode) with
  | .error e => .error e
  | .ok d => initEdges o upg d pkgs []

/-- AddOrUpdateNodes for one node -/
def addOrUpdate (upg : Bool) (d : Dag) (n : Node) : Dag :=
  match d.get n.id with
  | none => d ++ [n]
  | some old =>
    let n' := if upg then { n with parents := n.parents ++ old.parents } else n
    d.map (fun x => if x.id == n.id then n' else x)

/-! ## Sort (topological sort by depth-first search) -/

inductive SortErr where
  | cycle (on : String)
  | missing (id : String)
  | fuel
  deriving DecidableEq, Repr

structure SortSt where
  visited : List String
  stack : List String
  results : List String
  deriving Repr

/-- "write `name` into the first empty slot of `results`": an empty name leaves the slice as it was -/
def finish (name : String) (results : List String) : List String :=
  if name = "" then results else results ++ [name]

/-- the `for _, n := range neighbors` loop of `visit`; `rec` is `visit` itself -/
def visitNbrs (rec : String → SortSt → Except SortErr SortSt) (ex : String → Bool) :
    List String → SortSt → Except SortErr SortSt
  | [], st => .ok st
  | n :: ns, st =>
    if !st.visited.contains n then
      if !ex n then .error (.missing n)
      else
        match rec n st with
        | .error e => .error e
        | .ok st' => visitNbrs rec ex ns st'
    else if st.stack.contains n then .error (.cycle n)
    else visitNbrs rec ex ns st

/-- `visited[name] = true; stack[name] = true` -/
def enter (name : String) (st : SortSt) : SortSt :=
  { st with visited := name :: st.visited, stack := name :: st.stack }

/-- `results[first empty slot] = name; stack[name] = false` -/
def leave (name : String) (st : SortSt) : SortSt :=
  { st with results := finish name st.results, stack := st.stack.filter (· ≠ name) }

/-- `visit`; the recursion depth is bounded by the number of nodes (`Proofs.C17Dag.visit_spec`
shows the bound is never hit), which is what `fuel` is -/
def visit (nb : String → Option (List String)) : Nat → String → SortSt → Except SortErr SortSt
  | 0, _, _ => .error .fuel
  | f + 1, name, st =>
    match visitNbrs (visit nb f) (fun n => (nb n).isSome) ((nb name).getD []) (enter name st) with
    | .error e => .error e
    | .ok st2 => .ok (leave name st2)

/-- the `for n, node := range d.nodes` loop of Sort over the map order `order` -/
def sortFrom (nb : String → Option (List String)) (fuel : Nat) : List String → SortSt → Except SortErr SortSt
  | [], st => .ok st
  | n :: rest, st =>
    if st.visited.contains n then sortFrom nb fuel rest st
    else
      match visit nb fuel n { st with stack := [] } with
      | .error e => .error e
      | .ok st' => sortFrom nb fuel rest st'

/-- Sort. `order` is the iteration order of the node map. `results` is pre-sized to the
number of nodes, hence the padding. -/
def sortG (nb : String → Option (List String)) (size : Nat) (order : List String) : Except SortErr (List String) :=
  match sortFrom nb (size + 1) order ⟨[], [], []⟩ with
  | .error e => .error e
  | .ok st => .ok (st.results ++ List.replicate (size - st.results.length) "")

def sort (d : Dag) (order : List String) : Except SortErr (List String) :=
  sortG d.nb d.length order

/-! ## TraceNode -/

inductive TraceErr where
  | missing
  | fuel
  deriving DecidableEq, Repr

def traceNbrs (rec : String → List String → Except TraceErr (List String)) :
    List String → List String → Except TraceErr (List String)
  | [], tree => .ok tree
  | n :: ns, tree =>
    if tree.contains n then traceNbrs rec ns tree
    else
      match rec n (n :: tree) with
      | .error e => .error e
      | .ok t => traceNbrs rec ns t

/-- traceNode: `tree` is the key set of the result map -/
def traceNode (nb : String → Option (List String)) : Nat → String → List String → Except TraceErr (List String)
  | 0, _, _ => .error .fuel
  | f + 1, id, tree =>
    match nb id with
    | none => .error .missing
    | some ns => traceNbrs (traceNode nb f) ns tree

def traceG (nb : String → Option (List String)) (size : Nat) (id : String) : Except TraceErr (List String) :=
  traceNode nb (size + 1) id []

/-- TraceNode: the identifiers of the returned map -/
def trace (d : Dag) (id : String) : Except TraceErr (List String) := traceG d.nb d.length id

/-! ## Version selection (resolver) -/

inductive VErr where
  | invalidConstraint
  | fetchTags
  | diffDigests
  | diffTypes
  | noValidVersion
  deriving DecidableEq, Repr

/-- a tag that parsed as a semantic version, with its `Original()` -/
structure VTag where
  tag : String
  ver : Ver
  deriving Repr

/-- the `semver.NewVersion` loop: tags that are not semantic versions are skipped -/
def parseTags (o : Oracle) (tags : List String) : List VTag :=
  tags.filterMap (fun t => (o.ver t).map (fun v => ⟨t, v⟩))

/-- sort.Sort(semver.Collection(vs)); ties keep their relative order here, Go leaves them unspecified -/
def sortTags (vs : List VTag) : List VTag := vs.mergeSort (fun a b => a.ver.le b.ver)

/-- the scan `for _, v := range vs { if c.Check(v) { addVer = v.Original() } }` -/
def lastSat (sat : String → Bool) : List VTag → String → String
  | [], acc => acc
  | v :: vs, acc => lastSat sat vs (if sat v.tag then v.tag else acc)

/-- findDependencyVersionToInstall; `fetch` is the outcome of `fetcher.Tags` -/
def toInstall (o : Oracle) (con : String) (fetch : Option (List String)) : Except VErr String :=
  match o.digest con with
  | some dg => .ok dg
  | none =>
    if !o.conOk con then .error .invalidConstraint
    else
      match fetch with
      | none => .error .fetchTags
      | some tags => .ok (lastSat (o.sat con) (sortTags (parseTags o tags)) "")

/-- findDigestToUpdate, the loop state being (foundDigest, foundVersion) -/
def digestLoop (o : Oracle) : List String → String → Bool → Except VErr String
  | [], found, _ => .ok found
  | c :: cs, found, ver =>
    match o.digest c with
    | some dg =>
      if found ≠ "" && found ≠ dg then .error .diffDigests
      else if ver && dg ≠ "" then .error .diffTypes
      else digestLoop o cs dg ver
    | none =>
      if found ≠ "" then .error .diffTypes
      else digestLoop o cs found true

def digestToUpdate (o : Oracle) (parents : List String) : Except VErr String := digestLoop o parents "" false

/-- result of findDependencyVersionToUpdate; `panic` is `semver.MustParse(insVer)` on an
installed identifier that is not a semantic version -/
inductive UpdRes where
  | ok (v : String)
  | err (e : VErr)
  | panic
  deriving DecidableEq, Repr

/-- the selection loop: lowest valid version not older than `cur`, else (with downgrades)
the highest valid older one -/
def pickUpdate (valid : String → Bool) (cur : Ver) (down : Bool) : List VTag → Option String → Option String
  | [], target => target
  | v :: vs, target =>
    if cur.le v.ver && valid v.tag then some v.tag
    else pickUpdate valid cur down vs (if down && valid v.tag then some v.tag else target)

def satAll (o : Oracle) (parents : List String) (tag : String) : Bool := parents.all (fun c => o.sat c tag)

def toUpdate (o : Oracle) (parents : List String) (installed : String) (down : Bool)
    (fetch : Option (List String)) : UpdRes :=
  match digestToUpdate o parents with
  | .error e => .err e
  | .ok dg =>
    if dg ≠ "" then .ok dg
    else
      match fetch with
      | none => .err .fetchTags
      | some tags =>
        if !parents.all o.conOk then .err .invalidConstraint
        else
          match o.ver installed with
          | none => .panic
          | some cur =>
            match pickUpdate (satAll o parents) cur down (sortTags (parseTags o tags)) none with
            | some v => .ok v
            | none => .err .noValidVersion

/-! ## PackageDependencyManager.Resolve (revision/dependency.go) -/

inductive ResErr where
  | none
  | initDag
  | missingDirect
  | traceMissing
  | missingDeps
  | notInGraph
  | notLockPackage
  | digestMismatch
  | badConstraint
  | badVersion
  | incompatible
  /-- an Update of the Lock was rejected (409): somebody else wrote the Lock after it was read -/
  | conflict
  deriving DecidableEq, Repr

structure ResOut where
  found : Int
  installed : Int
  invalid : Int
  err : ResErr
  /-- the Lock's packages as stored in the API server when the call returns (= after its last
  API call; without other writers: lock.Packages after the call) -/
  lock : List Pkg
  deriving Repr

/-- the check of one direct dependency against the lock package found under its identifier;
`none` = fine, `some (e, counted)`: error `e`, `counted` = it only adds to `invalidDeps` -/
def checkDep (o : Oracle) (d : Dag) (e : Dep) : Option (ResErr × Bool) :=
  match d.get e.pkg with
  | none => some (.notInGraph, false)
  | some n =>
    if !n.isPkg then some (.notLockPackage, false)
    else
      match o.digest e.con with
      | some dg => if n.con ≠ dg then some (.digestMismatch, false) else none
      | none =>
        if !o.conOk e.con then some (.badConstraint, false)
        else if (o.ver n.con).isNone then some (.badVersion, false)
        else if !o.sat e.con n.con then some (.incompatible, true)
        else none

/-- the loop over self.Dependencies: first hard error, else number of incompatible ones -/
def checkDeps (o : Oracle) (d : Dag) : List Dep → Nat → Except ResErr Nat
  | [], k => .ok k
  | e :: es, k =>
    match checkDep o d e with
    | none => checkDeps o d es k
    | some (_, true) => checkDeps o d es (k + 1)
    | some (err, false) => .error err

/-- RemoveSelf on the lock contents: drop the first entry with that name -/
def removeSelf : List Pkg → String → List Pkg
  | [], _ => []
  | p :: ps, name => if p.name == name then ps else p :: removeSelf ps name

/-- "same name, no (deprecated) type, other source": the lock entry of this revision from
before it was moved to another repository. (`self.Type == lp.Type` compares pointers and
self.Type is nil: true iff lp carries no type.) -/
def movedEntry (self : Pkg) (lp : Pkg) : Bool :=
  lp.name == self.name && !lp.typed && lp.source != self.source

/-- the part of Resolve after the DAG `d` (with its implied nodes) has been built from the
(possibly refreshed) lock contents `lock1` -/
def resolveTail (o : Oracle) (upg : Bool) (self : Pkg) (lock1 : List Pkg) (d : Dag) (implied : List Dep) : ResOut :=
  let found : Int := self.deps.length
  let prExists := lock1.any (fun lp => lp.name == self.name)
  let lock2 := if prExists then lock1 else lock1 ++ [self]
  let d2 := if prExists then d else addOrUpdate upg d (pkgNode self)
  let installed0 : Int := if prExists then 0 else (self.deps.filter (fun e => d2.has e.pkg)).length
  if !prExists && installed0 ≠ found then ⟨found, installed0, 0, .missingDirect, lock2⟩
  else
    match trace d2 self.source with
    | .error _ => ⟨found, installed0, 0, .traceMissing, lock2⟩
    | .ok tree =>
      let found' : Int := tree.length
      let missing := implied.filter (fun i => tree.contains i.pkg)
      let installed' : Int := found' - missing.length
      if missing.length ≠ 0 then ⟨found', installed', 0, .missingDeps, lock2⟩
      else
        match checkDeps o d2 self.deps 0 with
        | .error e => ⟨found', installed', 0, e, lock2⟩
        | .ok k => ⟨found', installed', k, if k > 0 then .incompatible else .none, lock2⟩

/-- Resolve for an active revision whose source parsed (`self.source`, `self.version`) and
whose meta dependencies are all well-formed (`self.deps`). The client calls cannot fail here
(the property quantifies over inputs, not faults).

`reinit = true` is the code with fixes/D21.diff: after RemoveSelf + re-reading the lock the
DAG is rebuilt from the refreshed lock. `reinit = false` is the code before that repair, which
kept the DAG (and the implied list) built from the lock *before* the removal. -/
def resolveG (reinit : Bool) (o : Oracle) (upg : Bool) (lock : List Pkg) (self : Pkg) : ResOut :=
  match init o upg lock with
  | .error _ => ⟨self.deps.length, 0, 0, .initDag, lock⟩
  | .ok (d0, implied0) =>
    let moved := lock.any (movedEntry self)
    let lock1 := if moved then removeSelf lock self.name else lock
    match (if moved && reinit then init o upg lock1 else .ok (d0, implied0)) with
    | .error _ => ⟨self.deps.length, 0, 0, .initDag, lock1⟩
    | .ok (d, implied) => resolveTail o upg self lock1 d implied

/-- Resolve as repaired by fixes/D21.diff -/
def resolve (o : Oracle) (upg : Bool) (lock : List Pkg) (self : Pkg) : ResOut := resolveG true o upg lock self

/-! ## Resolve next to other writers of the Lock

The Lock is one shared object: every active revision adds / removes its own entry, and the lock
reconciler writes its status. Between two consecutive API calls of one Resolve another writer
may therefore have replaced the stored packages. Such a write also moves the resourceVersion, so
the next *Update* Resolve sends with the resourceVersion it read is rejected with a conflict:
the conflict is the consequence of the interference, not an independent fault. A *Get* simply
returns what the other writer stored. -/

/-- What other writers did to the Lock right before each of Resolve's API calls that follow its
first Get: `none` = nobody wrote; `some w` = the stored packages are now `w` and the
resourceVersion moved (also when `w` equals the old contents, e.g. a status update). Writes before
a call that Resolve does not make on its path are not consumed. -/
structure Interf where
  /-- before the Get of RemoveSelf -/
  rmGet : Option (List Pkg) := none
  /-- between the Get and the Update of RemoveSelf -/
  rmUpd : Option (List Pkg) := none
  /-- between RemoveSelf and the Get that refreshes the lock -/
  refresh : Option (List Pkg) := none
  /-- between the last Get of the lock and the Update that adds the revision to it -/
  upd : Option (List Pkg) := none
  deriving Repr

/-- nobody else writes -/
def Interf.quiet : Interf := {}

/-- The part of Resolve after the DAG has been built from the lock as last read (`lock1`), next to
a writer that may have stored `upd` before the Update that adds the revision.

`retry = false` is the code as it is: the Update fails with a conflict, Resolve returns that
error (found = number of declared dependencies, nothing installed) and the other writer's
contents stay. `retry = true` is the variant that wraps the Update in `retry.RetryOnConflict`
(re-read the lock, append the revision unless it is there, update again — no further writer)
and then carries on with the DAG and implied list built from `lock1`. -/
def resolveTailI (retry : Bool) (o : Oracle) (upg : Bool) (self : Pkg) (lock1 : List Pkg) (d : Dag)
    (implied : List Dep) (upd : Option (List Pkg)) : ResOut :=
  if lock1.any (fun lp => lp.name == self.name) then resolveTail o upg self lock1 d implied
  else
    match upd with
    | none => resolveTail o upg self lock1 d implied
    | some w =>
      if retry then
        { resolveTail o upg self lock1 d implied with
          lock := if w.any (fun lp => lp.name == self.name) then w else w ++ [self] }
      else ⟨self.deps.length, 0, 0, .conflict, w⟩

/-- Resolve (with fixes/D21.diff) for an active revision, next to the other writers `env`.
API calls: Get; if the lock holds this revision's entry from before it moved to another
repository: RemoveSelf (Get; Update when an entry with the revision's name is there) and a
refreshing Get, Init again; if the revision is not in the lock as last read: Update. -/
def resolveI (retry : Bool) (o : Oracle) (upg : Bool) (lock : List Pkg) (self : Pkg) (env : Interf) : ResOut :=
  match init o upg lock with
  | .error _ => ⟨self.deps.length, 0, 0, .initDag, lock⟩
  | .ok (d0, implied0) =>
    if lock.any (movedEntry self) then
      let l2 := env.rmGet.getD lock
      match (if l2.any (fun lp => lp.name == self.name) then env.rmUpd else none) with
      | some w => ⟨self.deps.length, 0, 0, .conflict, w⟩
      | none =>
        let l4 := env.refresh.getD (removeSelf l2 self.name)
        match init o upg l4 with
        | .error _ => ⟨self.deps.length, 0, 0, .initDag, l4⟩
        | .ok (d, implied) => resolveTailI retry o upg self l4 d implied env.upd
    else resolveTailI retry o upg self lock d0 implied0 env.upd

/-- the lock contents Resolve's checks run on: what its last Get returned -/
def lastRead (lock : List Pkg) (self : Pkg) (env : Interf) : List Pkg :=
  if lock.any (movedEntry self) then env.refresh.getD (removeSelf (env.rmGet.getD lock) self.name) else lock

/-! ## Lock reconciler (resolver/reconciler.go), decision skeleton -/

/-- what one Reconcile does to packages -/
inductive Act where
  | nothing
  | create (source : String) (version : String)
  | update (source : String) (version : String)
  deriving DecidableEq, Repr

inductive RecErr where
  | none
  | buildDag
  | sortDag
  | findInstall (e : VErr)
  | noVersion
  | findUpdate (e : VErr)
  | panic
  deriving DecidableEq, Repr

structure RecOut where
  act : Act
  err : RecErr
  /-- the Lock's ResolutionSucceeded condition as written (none = not written) -/
  resolved : Option Bool
  deriving DecidableEq, Repr

/-- Reconcile for a non-empty lock whose finalizer is present. `installed id` is the version
of an existing package with that repository (looked up only with upgrades enabled), `fetch id`
the tag list of the repository. -/
def reconcile (o : Oracle) (upg down : Bool) (lock : List Pkg) (order : List String)
    (installed : String → Option String) (fetch : String → Option (List String)) : RecOut :=
  match init o upg lock with
  | .error _ => ⟨.nothing, .buildDag, some false⟩
  | .ok (d, implied) =>
    match sort d order with
    | .error _ => ⟨.nothing, .sortDag, some false⟩
    | .ok _ =>
      match implied with
      | [] => ⟨.nothing, .none, some true⟩
      | dep :: _ =>
        -- implied[0] is the *Dependency handed to AddEdge: its constraint is the edge's own
        let depId := dep.pkg
        match (if upg then installed depId else none) with
        | none =>
          match toInstall o dep.con (fetch depId) with
          | .error e => ⟨.nothing, .findInstall e, some false⟩
          | .ok v =>
            if v = "" then ⟨.nothing, .noVersion, some false⟩
            else ⟨.create depId v, .none, some true⟩
        | some ins =>
          let parents := ((d.get depId).map (·.parents)).getD []
          match toUpdate o parents ins down (fetch depId) with
          | .err e => ⟨.nothing, .findUpdate e, some false⟩
          | .panic => ⟨.nothing, .panic, none⟩
          | .ok v => ⟨.update depId v, .none, some true⟩

end Xp.C17

/-! ## Specification vocabulary (Props; used only by the theorems) -/
namespace Xp.C17

/-- `m` is a neighbour of `n` in the graph given by the neighbour function `nb` -/
def Edge (nb : String → Option (List String)) (n m : String) : Prop := m ∈ (nb n).getD []

/-- reachable by at least one edge -/
inductive Reach (nb : String → Option (List String)) : String → String → Prop
  | edge {n m : String} : Edge nb n m → Reach nb n m
  | step {n m k : String} : Edge nb n m → Reach nb m k → Reach nb n k

/-- some node reaches itself (self loops included) -/
def HasCycle (nb : String → Option (List String)) : Prop := ∃ c, Reach nb c c

/-- every neighbour of a node of the DAG is itself a node of the DAG -/
def Closed (nb : String → Option (List String)) : Prop := ∀ n m, Edge nb n m → (nb m).isSome = true

/-- the lock is well-formed with respect to the revision `self` being resolved: revision names
are unique; an entry recorded under `self`'s source is `self`'s own entry (same revision name,
same dependencies as its meta: revision names are content hashes and entries are written by
Resolve from the meta); entries named like `self` do not use the deprecated `type` field -/
structure LockWF (lock : List Pkg) (rev : Pkg) : Prop where
  names : (lock.map (·.name)).Nodup
  own : ∀ p ∈ lock, p.source = rev.source → p.name = rev.name ∧ p.deps = rev.deps
  untyped : ∀ p ∈ lock, p.name = rev.name → p.typed = false

/-- the entries of `l` that concern the revision `rev` are its own: an entry is recorded under
`rev`'s source iff it carries `rev`'s name, and then with `rev`'s dependencies -/
structure OwnEntry (l : List Pkg) (rev : Pkg) : Prop where
  own : ∀ p ∈ l, p.source = rev.source → p.name = rev.name ∧ p.deps = rev.deps
  named : ∀ q ∈ l, q.name = rev.name → q.source = rev.source

/-- what the other writers of the Lock are assumed to respect (only for the writes Resolve reads
back; the writes that make one of its Updates conflict are arbitrary): the lock they leave is
well-formed with respect to `rev`, and they do not put back the stale entry (`rev`'s name under
another source) that RemoveSelf has just removed — entries named like a revision are written by
that revision's own Resolve only -/
structure EnvWF (env : Interf) (rev : Pkg) : Prop where
  rmGet : ∀ w, env.rmGet = some w → LockWF w rev
  refresh : ∀ w, env.refresh = some w → OwnEntry w rev

/-- the version found in the lock for a dependency is what its constraint asks for:
the pinned digest, or a semantic version admitted by the (parsable) constraint -/
def VersionOk (o : Oracle) (e : Dep) (version : String) : Prop :=
  (∃ dg, o.digest e.con = some dg ∧ version = dg) ∨
  (o.digest e.con = none ∧ o.conOk e.con = true ∧ (o.ver version).isSome = true ∧ o.sat e.con version = true)

/-- `res` lists dependencies first: whenever `u` occurs in it, every neighbour of `u` occurs strictly earlier -/
def DepsFirst (nb : String → Option (List String)) (res : List String) : Prop :=
  ∀ l1 u l2, res = l1 ++ u :: l2 → (∀ v, Edge nb u v → v ∈ l1) ∧ u ∉ l1

end Xp.C17

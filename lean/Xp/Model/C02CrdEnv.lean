import Xp.Model.C02Crd
/-
C02, site "an XRD defining its CRDs", with CONCURRENT WRITERS of the CRD between two API calls
of one reconcile.

The programs are the unchanged `Xp.C02Crd.reconcile` (definition / offered reconcilers with
APIFinalizer and APIUpdatingApplicator), the API server is the unchanged `Xp.C02Crd.exec`
(resourceVersions on the XRD and on the CRD, `Update` refused with Conflict when the
resourceVersion sent is not the stored one, Delete WITHOUT precondition as the reconcilers
send it). Added here:

 * a ghost `seen`: how the latest Get of the CRD by this reconcile found it (nothing read yet /
   absent / the object) — the copy `APIUpdatingApplicator.Apply` evaluates
   `MustBeControllableBy` on and takes the resourceVersion of, resp. the copy the deletion
   branch evaluates `metav1.IsControlledBy` on;
 * third-party actions on the CRD slot (`Act`): take the CRD over, edit it, create a CRD of
   somebody else where there is none, delete it. Every write gets a fresh resourceVersion from
   the API server's counter. The theorems quantify over EVERY `Xp.Env E` that obeys `Rely`;
   `act` is what the correspondence harness does to the real store.
-/
namespace Xp.C02CrdEnv
open Xp.C02Crd

structure E where
  base : St
  /-- ghost: the reply of this reconcile's latest Get of the CRD -/
  seen : Option (Option CRD) := none
  deriving DecidableEq, Repr, Inhabited

def seenAfter (sn : Option (Option CRD)) : Req → Resp → Option (Option CRD)
  | .getCRD, .crd c => some c
  | _, _ => sn

def exec (e : E) (r : Req) : E × Resp :=
  ({ base := (C02Crd.exec e.base r).1, seen := seenAfter e.seen r (C02Crd.exec e.base r).2 }, (C02Crd.exec e.base r).2)

def sem : Sem E Req Resp := ⟨exec, C02Crd.sem.errResp⟩

/-- what a third party does to the CRD with the derived name -/
inductive Act where
  | adopt     -- put its own controller reference on it (replacing the XRD's, if any)
  | edit      -- edit the spec (it becomes the outdated body)
  | create    -- create a CRD of its own where there is none
  | remove    -- delete it
  deriving DecidableEq, Repr, Inhabited

def act (a : Act) (e : E) : E :=
  let s := e.base
  match a, s.crd with
  | .adopt, some c =>
    if c.ctrl = .other then e
    else { e with base := { s with crd := some { c with ctrl := .other, rv := s.next + 1 }, next := s.next + 1 } }
  | .edit, some c =>
    if c.body = .old then e
    else { e with base := { s with crd := some { c with body := .old, rv := s.next + 1 }, next := s.next + 1 } }
  | .create, none =>
    { e with base := { s with crd := some ⟨.other, false, .old, true, false, false, s.next + 1⟩, next := s.next + 1 } }
  | .remove, some c =>
    if c.fin then
      (if c.del then e else { e with base := { s with crd := some { c with del := true, rv := s.next + 1 }, next := s.next + 1 } })
    else { e with base := { s with crd := none } }
  | _, _ => e

/-- one action before call `i` -/
def actAt (i : Nat) (a : Act) : Env E := fun j e => if j = i then act a e else e

end Xp.C02CrdEnv

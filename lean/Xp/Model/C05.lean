import Xp.Gen.Conditions
/-
C05 model: how the XR reconciler derives status conditions
(internal/controller/apiextensions/composite/reconciler.go: Reconcile error path,
handleCommonCompositionResult, updateXRConditions) and the claim's Ready.
Messages and transition times are not modelled (never compared).
-/
namespace Xp.C05

structure Cond where
  type : String
  status : String
  reason : String
  deriving DecidableEq, Repr

structure FnCond where
  cond : Cond
  claim : Bool   -- target CompositeAndClaim
  deriving Repr

structure Res where
  name : String
  synced : Bool
  ready : Bool
  deriving Repr

inductive Err where
  | none | generic | invalid | conflict
  deriving DecidableEq, Repr

/-- the table is regenerated from xpv1.IsSystemConditionType on every run -/
def isSystem (t : String) : Bool := Xp.Gen.systemConditionTypes.contains t

/-- xpv1.ConditionedStatus.SetConditions for one condition. -/
def setCond : List Cond → Cond → List Cond
  | [], c => [c]
  | x :: xs, c => if x.type = c.type then c :: replaceAll xs c else x :: setCond xs c
where
  replaceAll : List Cond → Cond → List Cond
    | [], _ => []
    | x :: xs, c => (if x.type = c.type then c else x) :: replaceAll xs c

def statusOf (cs : List Cond) (t : String) : Option String :=
  (cs.find? (·.type = t)).map (·.status)

def reasonOf (cs : List Cond) (t : String) : Option String :=
  (cs.find? (·.type = t)).map (·.reason)

structure St where
  conds : List Cond
  claimTypes : List String
  deriving Repr

/-- handleCommonCompositionResult: conditions part. Returns the new state and the custom types seen. -/
def applyFnConds : St → List FnCond → St × List String
  | st, [] => (st, [])
  | st, f :: fs =>
    if isSystem f.cond.type then applyFnConds st fs
    else
      let st' : St := { conds := setCond st.conds f.cond,
                        claimTypes := if f.claim && !st.claimTypes.contains f.cond.type
                                      then st.claimTypes ++ [f.cond.type] else st.claimTypes }
      let (r, seen) := applyFnConds st' fs
      (r, f.cond.type :: seen)

def available : Cond := ⟨"Ready", "True", "Available"⟩
def creating : Cond := ⟨"Ready", "False", "Creating"⟩
def reconcileSuccess : Cond := ⟨"Synced", "True", "ReconcileSuccess"⟩
def reconcileError : Cond := ⟨"Synced", "False", "ReconcileError"⟩

/-- updateXRConditions -/
def readyCond (composed : List Res) (explicit : Option Bool) : Cond :=
  let base := if composed.all (·.ready) then available else creating
  match explicit with
  | some true => available
  | some false => creating
  | none => base

def syncedCond (composed : List Res) : Cond :=
  if composed.all (·.synced) then reconcileSuccess else reconcileError

/-- fatal-error loop: every non-system condition not re-asserted becomes Unknown/FatalError -/
def markUnknown (seen : List String) (snapshot : List Cond) (cs : List Cond) : List Cond :=
  snapshot.foldl (fun acc c =>
    if isSystem c.type || seen.contains c.type then acc
    else setCond acc ⟨c.type, "Unknown", "FatalError"⟩) cs

/-- The status written by one XR reconcile after Compose returned; `none` = no status write. -/
def reconcile (old : St) (composed : List Res) (explicit : Option Bool) (fn : List FnCond) (err : Err) : Option St :=
  match err with
  | .conflict => none
  | .generic | .invalid =>
    let st1 : St := { old with conds := setCond old.conds reconcileError }
    let (st2, seen) := applyFnConds st1 fn
    some { st2 with conds := markUnknown seen st2.conds st2.conds }
  | .none =>
    let (st1, _) := applyFnConds old fn
    some { st1 with conds := setCond (setCond st1.conds (syncedCond composed)) (readyCond composed explicit) }

/-- Claim reconciler: Ready=True (Available) is set only on the path where the
bound XR, as read after syncing, has Ready=True. Otherwise Waiting. -/
def claimReady (xrReadyStatus : Option String) : Cond :=
  if xrReadyStatus = some "True" then available else ⟨"Ready", "False", "Waiting"⟩

/-- xr.GetCondition(t): the stored condition, or an Unknown one when absent -/
def getCond (cs : List Cond) (t : String) : Cond :=
  (cs.find? (·.type = t)).getD ⟨t, "Unknown", ""⟩

/-- The tail of the claim Reconcile after a successful Sync (claim/reconciler.go): Synced is
set, the XR's claimConditionTypes are copied, then Ready is Available iff the XR read
after syncing is Ready=True, else Waiting. -/
def claimReconcile (old : List Cond) (xrConds : List Cond) (claimTypes : List String) : List Cond :=
  let c1 := setCond old reconcileSuccess
  let c2 := claimTypes.foldl (fun acc t => setCond acc (getCond xrConds t)) c1
  setCond c2 (claimReady (statusOf xrConds "Ready"))

end Xp.C05

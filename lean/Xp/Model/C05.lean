import Xp.Gen.Conditions
/-
C05 model: how the XR reconciler derives status conditions
(internal/controller/apiextensions/composite/reconciler.go: Reconcile error path,
handleCommonCompositionResult, updateXRConditions) and the claim's Ready.
Messages and transition times are not modelled (never compared).
-/
namespace Xp.C05

structure Cond where
  type : String
  status : String
  reason : String
  deriving DecidableEq, Repr

structure FnCond where
  cond : Cond
  claim : Bool   -- target CompositeAndClaim
  deriving Repr

structure Res where
  name : String
  synced : Bool
  ready : Bool
  deriving Repr

inductive Err where
  | none | generic | invalid | conflict
  deriving DecidableEq, Repr

/-- the table is regenerated from xpv1.IsSystemConditionType on every run -/
def isSystem (t : String) : Bool := Xp.Gen.systemConditionTypes.contains t

/-- xpv1.ConditionedStatus.SetConditions for one condition. -/
def setCond : List Cond → Cond → List Cond
  | [], c => [c]
  | x :: xs, c => if x.type = c.type then c :: replaceAll xs c else x :: setCond xs c
where
  replaceAll : List Cond → Cond → List Cond
    | [], _ => []
    | x :: xs, c => (if x.type = c.type then c else x) :: replaceAll xs c

def statusOf (cs : List Cond) (t : String) : Option String :=
  (cs.find? (·.type = t)).map (·.status)

def reasonOf (cs : List Cond) (t : String) : Option String :=
  (cs.find? (·.type = t)).map (·.reason)

structure St where
  conds : List Cond
  claimTypes : List String
  deriving Repr

/-- handleCommonCompositionResult: conditions part. Returns the new state and the custom types seen. -/
def applyFnConds : St → List FnCond → St × List String
  | st, [] => (st, [])
  | st, f :: fs =>
    if isSystem f.cond.type then applyFnConds st fs
    else
      let st' : St := { conds := setCond st.conds f.cond,
                        claimTypes := if f.claim && !st.claimTypes.contains f.cond.type
                                      then st.claimTypes ++ [f.cond.type] else st.claimTypes }
      let (r, seen) := applyFnConds st' fs
      (r, f.cond.type :: seen)

def available : Cond := ⟨"Ready", "True", "Available"⟩
def creating : Cond := ⟨"Ready", "False", "Creating"⟩
def reconcileSuccess : Cond := ⟨"Synced", "True", "ReconcileSuccess"⟩
def reconcileError : Cond := ⟨"Synced", "False", "ReconcileError"⟩

/-- updateXRConditions -/
def readyCond (composed : List Res) (explicit : Option Bool) : Cond :=
  let base := if composed.all (·.ready) then available else creating
  match explicit with
  | some true => available
  | some false => creating
  | none => base

def syncedCond (composed : List Res) : Cond :=
  if composed.all (·.synced) then reconcileSuccess else reconcileError

/-- fatal-error loop: every non-system condition not re-asserted becomes Unknown/FatalError -/
def markUnknown (seen : List String) (snapshot : List Cond) (cs : List Cond) : List Cond :=
  snapshot.foldl (fun acc c =>
    if isSystem c.type || seen.contains c.type then acc
    else setCond acc ⟨c.type, "Unknown", "FatalError"⟩) cs

/-- The status written by one XR reconcile after Compose returned; `none` = no status write. -/
def reconcile (old : St) (composed : List Res) (explicit : Option Bool) (fn : List FnCond) (err : Err) : Option St :=
  match err with
  | .conflict => none
  | .generic | .invalid =>
    let st1 : St := { old with conds := setCond old.conds reconcileError }
    let (st2, seen) := applyFnConds st1 fn
    some { st2 with conds := markUnknown seen st2.conds st2.conds }
  | .none =>
    let (st1, _) := applyFnConds old fn
    some { st1 with conds := setCond (setCond st1.conds (syncedCond composed)) (readyCond composed explicit) }

/-! ### One reconcile in full: every phase, every API error class, lost status writes

`reconcile` above is the Compose-centred special case (`reconcile_eq_call`). -/

/-- API error classes the reconciler may be answered with, in any phase. -/
inductive EC where
  | generic | invalid | conflict | notFound | alreadyExists | forbidden | temporary | deadline
  deriving DecidableEq, Repr

/-- Where a reconcile fails: the first Get, AddFinalizer, SelectComposition, revision Fetch,
Validate, Configure, Compose, PublishConnection. -/
inductive Phase where
  | get | finalizer | select | fetch | validate | configure | compose | publish
  deriving DecidableEq, Repr

/-- the phases whose error the reconciler tests with kerrors.IsConflict (requeue, no status write) -/
def Phase.conflictAware : Phase → Bool
  | .finalizer | .configure | .compose | .publish => true
  | _ => false

def reconcilePaused : Cond := ⟨"Synced", "False", "ReconcilePaused"⟩

/-- Everything one call of Reconciler.Reconcile depends on (besides the XR's stored conditions). -/
structure Call where
  paused : Bool
  composed : List Res
  explicit : Option Bool
  fn : List FnCond
  fault : Option (Phase × EC)
  /-- the final status update is not applied: it is answered with an error (any class), or it
  conflicts because the XR was read stale or edited by another client in between -/
  lost : Bool
  deriving Repr

/-- the status written when Compose failed fatally -/
def composeError (old : St) (fn : List FnCond) : St :=
  let st1 : St := { old with conds := setCond old.conds reconcileError }
  let r := applyFnConds st1 fn
  { r.1 with conds := markUnknown r.2 r.1.conds r.1.conds }

/-- the status written when everything succeeded -/
def composeOk (old : St) (composed : List Res) (explicit : Option Bool) (fn : List FnCond) : St :=
  let st1 := (applyFnConds old fn).1
  { st1 with conds := setCond (setCond st1.conds (syncedCond composed)) (readyCond composed explicit) }

/-- The status stored by one call of Reconcile; `none` = no status write took effect. -/
def reconcileCall (old : St) (c : Call) : Option St :=
  if c.lost then none else
  match c.fault with
  | some (.get, _) => none
  | f =>
    if c.paused then some { old with conds := setCond old.conds reconcilePaused } else
    match f with
    | none => some (composeOk old c.composed c.explicit c.fn)
    | some (p, e) =>
      if p.conflictAware && e == .conflict then none
      else if p == .compose then some (composeError old c.fn)
      else some { old with conds := setCond old.conds reconcileError }

/-! ### Sequences of reconciles of several XRs by one long-lived reconciler

The model is per call: the only state a call sees is the addressed XR's stored conditions. -/

structure Step where
  xr : Nat
  call : Call
  deriving Repr

/-- one step: the new per-XR states and what was written (none = nothing) -/
def stepSeq (sts : List St) (s : Step) : List St × Option St :=
  match sts[s.xr]? with
  | none => (sts, none)
  | some old =>
    match reconcileCall old s.call with
    | none => (sts, none)
    | some st => (sts.set s.xr st, some st)

def runSeq : List St → List Step → List St
  | sts, [] => sts
  | sts, s :: ss => runSeq (stepSeq sts s).1 ss

/-- per step: the addressed XR's state after the step, and whether a status write took effect -/
def traceSeq : List St → List Step → List (Option St × Bool)
  | _, [] => []
  | sts, s :: ss =>
    let r := stepSeq sts s
    (r.1[s.xr]?, r.2.isSome) :: traceSeq r.1 ss

/-- Claim reconciler: Ready=True (Available) is set only on the path where the
bound XR, as read after syncing, has Ready=True. Otherwise Waiting. -/
def claimReady (xrReadyStatus : Option String) : Cond :=
  if xrReadyStatus = some "True" then available else ⟨"Ready", "False", "Waiting"⟩

/-- xr.GetCondition(t): the stored condition, or an Unknown one when absent -/
def getCond (cs : List Cond) (t : String) : Cond :=
  (cs.find? (·.type = t)).getD ⟨t, "Unknown", ""⟩

/-- The tail of the claim Reconcile after a successful Sync (claim/reconciler.go): Synced is
set, the XR's claimConditionTypes are copied, then Ready is Available iff the XR read
after syncing is Ready=True, else Waiting. -/
def claimReconcile (old : List Cond) (xrConds : List Cond) (claimTypes : List String) : List Cond :=
  let c1 := setCond old reconcileSuccess
  let c2 := claimTypes.foldl (fun acc t => setCond acc (getCond xrConds t)) c1
  setCond c2 (claimReady (statusOf xrConds "Ready"))

end Xp.C05

import Xp.Gen.Conditions
import Xp.Gen.C05Skel
/-
C05 model: how the XR reconciler derives status conditions
(internal/controller/apiextensions/composite/reconciler.go: Reconcile error path,
handleCommonCompositionResult, updateXRConditions) and the claim's Ready.
Messages and transition times are not modelled (never compared).
-/
namespace Xp.C05

structure Cond where
  type : String
  status : String
  reason : String
  deriving DecidableEq, Repr

structure FnCond where
  cond : Cond
  claim : Bool   -- target CompositeAndClaim
  deriving Repr

structure Res where
  name : String
  synced : Bool
  ready : Bool
  deriving DecidableEq, Repr

inductive Err where
  | none | generic | invalid | conflict
  deriving DecidableEq, Repr

/-- the table is regenerated from xpv1.IsSystemConditionType on every run -/
def isSystem (t : String) : Bool := Xp.Gen.systemConditionTypes.contains t

/-- xpv1.ConditionedStatus.SetConditions for one condition. -/
def setCond : List Cond → Cond → List Cond
  | [], c => [c]
  | x :: xs, c => if x.type = c.type then c :: replaceAll xs c else x :: setCond xs c
where
  replaceAll : List Cond → Cond → List Cond
    | [], _ => []
    | x :: xs, c => (if x.type = c.type then c else x) :: replaceAll xs c

def statusOf (cs : List Cond) (t : String) : Option String :=
  (cs.find? (·.type = t)).map (·.status)

def reasonOf (cs : List Cond) (t : String) : Option String :=
  (cs.find? (·.type = t)).map (·.reason)

structure St where
  conds : List Cond
  claimTypes : List String
  deriving Repr

/-- handleCommonCompositionResult: conditions part. Returns the new state and the custom types seen. -/
def applyFnConds : St → List FnCond → St × List String
  | st, [] => (st, [])
  | st, f :: fs =>
    if isSystem f.cond.type then applyFnConds st fs
    else
      let st' : St := { conds := setCond st.conds f.cond,
                        claimTypes := if f.claim && !st.claimTypes.contains f.cond.type
                                      then st.claimTypes ++ [f.cond.type] else st.claimTypes }
      let (r, seen) := applyFnConds st' fs
      (r, f.cond.type :: seen)

def available : Cond := ⟨"Ready", "True", "Available"⟩
def creating : Cond := ⟨"Ready", "False", "Creating"⟩
def reconcileSuccess : Cond := ⟨"Synced", "True", "ReconcileSuccess"⟩
def reconcileError : Cond := ⟨"Synced", "False", "ReconcileError"⟩

/-- updateXRConditions -/
def readyCond (composed : List Res) (explicit : Option Bool) : Cond :=
  let base := if composed.all (·.ready) then available else creating
  match explicit with
  | some true => available
  | some false => creating
  | none => base

def syncedCond (composed : List Res) : Cond :=
  if composed.all (·.synced) then reconcileSuccess else reconcileError

/-- fatal-error loop: every non-system condition not re-asserted becomes Unknown/FatalError -/
def markUnknown (seen : List String) (snapshot : List Cond) (cs : List Cond) : List Cond :=
  snapshot.foldl (fun acc c =>
    if isSystem c.type || seen.contains c.type then acc
    else setCond acc ⟨c.type, "Unknown", "FatalError"⟩) cs

/-- The status written by one XR reconcile after Compose returned; `none` = no status write. -/
def reconcile (old : St) (composed : List Res) (explicit : Option Bool) (fn : List FnCond) (err : Err) : Option St :=
  match err with
  | .conflict => none
  | .generic | .invalid =>
    let st1 : St := { old with conds := setCond old.conds reconcileError }
    let (st2, seen) := applyFnConds st1 fn
    some { st2 with conds := markUnknown seen st2.conds st2.conds }
  | .none =>
    let (st1, _) := applyFnConds old fn
    some { st1 with conds := setCond (setCond st1.conds (syncedCond composed)) (readyCond composed explicit) }

/-! ### One reconcile in full: every phase, every API error class, lost status writes

`reconcile` above is the Compose-centred special case (`reconcile_eq_call`). -/

/-- API error classes the reconciler may be answered with, in any phase. -/
inductive EC where
  | generic | invalid | conflict | notFound | alreadyExists | forbidden | temporary | deadline
  deriving DecidableEq, Repr

/-- Where a reconcile fails: the first Get, AddFinalizer, SelectComposition, revision Fetch,
Validate, Configure, Compose, PublishConnection. -/
inductive Phase where
  | get | finalizer | select | fetch | validate | configure | compose | publish
  deriving DecidableEq, Repr

/-- the phases whose error the reconciler tests with kerrors.IsConflict (requeue, no status write) -/
def Phase.conflictAware : Phase → Bool
  | .finalizer | .configure | .compose | .publish => true
  | _ => false

def reconcilePaused : Cond := ⟨"Synced", "False", "ReconcilePaused"⟩

/-- Everything one call of Reconciler.Reconcile depends on (besides the XR's stored conditions). -/
structure Call where
  paused : Bool
  composed : List Res
  explicit : Option Bool
  fn : List FnCond
  fault : Option (Phase × EC)
  /-- the final status update is not applied: it is answered with an error (any class), or it
  conflicts because the XR was read stale or edited by another client in between -/
  lost : Bool
  deriving Repr

/-- the status written when Compose failed fatally -/
def composeError (old : St) (fn : List FnCond) : St :=
  let st1 : St := { old with conds := setCond old.conds reconcileError }
  let r := applyFnConds st1 fn
  { r.1 with conds := markUnknown r.2 r.1.conds r.1.conds }

/-- the status written when everything succeeded -/
def composeOk (old : St) (composed : List Res) (explicit : Option Bool) (fn : List FnCond) : St :=
  let st1 := (applyFnConds old fn).1
  { st1 with conds := setCond (setCond st1.conds (syncedCond composed)) (readyCond composed explicit) }

/-- The status stored by one call of Reconcile; `none` = no status write took effect. -/
def reconcileCall (old : St) (c : Call) : Option St :=
  if c.lost then none else
  match c.fault with
  | some (.get, _) => none
  | f =>
    if c.paused then some { old with conds := setCond old.conds reconcilePaused } else
    match f with
    | none => some (composeOk old c.composed c.explicit c.fn)
    | some (p, e) =>
      if p.conflictAware && e == .conflict then none
      else if p == .compose then some (composeError old c.fn)
      else some { old with conds := setCond old.conds reconcileError }

/-! ### the deletion branch of Reconcile (meta.WasDeleted)

After the pause check, an XR with a deletion timestamp takes its own branch: Ready := Deleting,
UnpublishConnection, RemoveFinalizer (conflict: requeue, nothing written), Synced := ReconcileSuccess.
When the composite finalizer was the last one the API server removes the object with it and the
final status update finds nothing. -/

inductive DPhase where
  | unpublish | removeFinalizer
  deriving DecidableEq, Repr

def deleting : Cond := ⟨"Ready", "False", "Deleting"⟩

structure DelCall where
  /-- the first Get fails (any class): the reconcile returns at once -/
  getFails : Bool
  paused : Bool
  fault : Option (DPhase × EC)
  /-- the final status update is not applied (answered with an error, or the XR was edited in between) -/
  lost : Bool
  deriving Repr

/-- an XR being deleted, as far as its conditions are concerned -/
structure DelXR where
  st : St
  /-- it still carries the composite finalizer (RemoveFinalizer issues an Update only then) -/
  fin : Bool
  /-- another finalizer holds the object after ours is gone -/
  held : Bool
  deriving Repr

/-- REGENERATED FROM THE SOURCE: does `Reconcile` set the Deleting condition a second time (after
RemoveFinalizer)? In the tree as it is it does not (see `reconcileDeleted`). -/
def reassertsDeleting : Bool := decide (Xp.Gen.c05SkelReconcile.count "xpv1.Deleting" ≥ 2)

/-- the status the deletion branch stores; none = no status write took effect.

`re` = Deleting is set again after RemoveFinalizer. THE CODE AS IT IS DOES NOT (`re = false`):
RemoveFinalizer's Update answers with the stored object, which replaces the XR held in memory -
status included - so the Deleting condition set before is gone when ReconcileSuccess is added and
the status is stored: the XR keeps the Ready condition it had. (It matters only when another
finalizer - foreground deletion, a Usage - keeps the object alive.) -/
def reconcileDeleted (re : Bool) (old : St) (fin : Bool) (c : DelCall) : Option St :=
  if c.getFails || c.lost then none else
  if c.paused then some { old with conds := setCond old.conds reconcilePaused } else
  let st1 : St := { old with conds := setCond old.conds deleting }
  match c.fault with
  | some (.unpublish, _) => some { st1 with conds := setCond st1.conds reconcileError }
  | some (.removeFinalizer, e) =>
    -- without the finalizer no Update is issued (nothing can fail); APIFinalizer.RemoveFinalizer
    -- ignores a NotFound answer (which leaves the XR in memory alone)
    if !fin || e == .notFound then some { st1 with conds := setCond st1.conds reconcileSuccess }
    else if e == .conflict then none
    else some { st1 with conds := setCond st1.conds reconcileError }
  | none =>
    if fin && !re then some { old with conds := setCond old.conds reconcileSuccess }   -- the Update reset the XR in memory
    else some { st1 with conds := setCond st1.conds reconcileSuccess }

/-- RemoveFinalizer's Update took effect -/
def DelCall.removes (c : DelCall) (fin : Bool) : Bool :=
  fin && !c.getFails && !c.paused && c.fault.isNone

/-- one reconcile of an XR being deleted: what is stored afterwards (none = the object is gone) and
whether the reconcile's status update took effect -/
def delStep (re : Bool) (x : Option DelXR) (c : DelCall) : Option DelXR × Bool :=
  match x with
  | none => (none, false)
  | some x =>
    if c.removes x.fin then
      if x.held then
        -- the Update that removed the finalizer returned the stored object: the status update follows
        (match reconcileDeleted re x.st x.fin c with
         | some st => (some { x with st := st, fin := false }, true)
         | none => (some { x with fin := false }, false))
      else (none, false)   -- the object went away with its last finalizer: the status update finds nothing
    else
      match reconcileDeleted re x.st x.fin c with
      | some st => (some { x with st := st }, true)
      | none => (some x, false)

def delTrace (re : Bool) : Option DelXR → List DelCall → List (Option St × Bool)
  | _, [] => []
  | x, c :: cs =>
    let r := delStep re x c
    (r.1.map (·.st), r.2) :: delTrace re r.1 cs

/-! ### declared call skeletons (tie to the source, DESIGN 2.3 a)

The calls of the mirrored Go functions, in source order, as the definitions above read them.
`Xp.Gen.c05Skel*` are the same lists extracted by go/ast from the CURRENT tree on every check
run; `Xp.Props.C05` states that they are equal (`skeleton_*`). Inserting, removing or reordering
a phase call, an error-class test, a condition write or a status update in one of these functions
breaks an obligation before any scenario is run. The skeleton of `Reconcile` is a FUNCTION of the
model (`Phase.callName`, `Phase.conflictAware`): an `IsConflict` test added to or removed from a
phase changes the regenerated list but not the model's. -/

/-- the Go call a phase stands for -/
def Phase.callName : Phase → String
  | .get => "client.Get"
  | .finalizer => "composite.AddFinalizer"
  | .select => "composite.SelectComposition"
  | .fetch => "revision.Fetch"
  | .validate => "revision.Validate"
  | .configure => "composite.Configure"
  | .compose => "resource.Compose"
  | .publish => "composite.PublishConnection"

/-- `xr.SetConditions(xpv1.ReconcileError(err)); return ..., r.client.Status().Update(ctx, xr)`:
the tail of every failing phase (model: `setCond old.conds reconcileError`, then the write that
`Call.lost` may drop) -/
def skelErrTail : List String := ["xr.SetConditions", "xpv1.ReconcileError", "client.Status.Update"]

/-- the calls of one phase of `Reconcile`, as `reconcileCall` reads them -/
def Phase.skel (p : Phase) : List String :=
  match p with
  | .get => [p.callName]                       -- an error returns at once: nothing is written
  | .compose =>
    [p.callName, "kerrors.IsConflict",         -- conflictAware: requeue, nothing written
     "kerrors.IsInvalid",                      -- not modelled: only the condition MESSAGE depends on it
     "xr.SetConditions", "xpv1.ReconcileError",  -- composeError: setCond old.conds reconcileError
     "handleCommonCompositionResult",          -- composeError: applyFnConds
     "xr.GetConditions", "xpv1.IsSystemConditionType", "xr.SetConditions",  -- composeError: markUnknown
     "client.Status.Update"]
  | p => [p.callName] ++ (if p.conflictAware then ["kerrors.IsConflict"] else []) ++ skelErrTail

/-- the pause branch: `setCond old.conds reconcilePaused` and the status update -/
def skelPaused : List String := ["meta.IsPaused", "xr.SetConditions", "xpv1.ReconcilePaused", "client.Status.Update"]

/-- the deletion branch (meta.WasDeleted): Deleting, UnpublishConnection, RemoveFinalizer
(conflict-aware), ReconcileSuccess - mirrored by `reconcileDeleted` below -/
def skelDeleted : List String :=
  ["meta.WasDeleted", "xr.SetConditions", "xpv1.Deleting",
   "composite.UnpublishConnection"] ++ skelErrTail ++
  ["composite.RemoveFinalizer", "kerrors.IsConflict"] ++ skelErrTail ++
  (if reassertsDeleting then ["xr.SetConditions", "xpv1.Deleting", "xpv1.ReconcileSuccess", "client.Status.Update"]
   else ["xr.SetConditions", "xpv1.ReconcileSuccess", "client.Status.Update"])

/-- composite `Reconciler.Reconcile` -/
def skelReconcile : List String :=
  Phase.get.skel ++ skelPaused ++ skelDeleted ++
  [Phase.finalizer, .select, .fetch, .validate, .configure, .compose].flatMap Phase.skel ++
  ["engine.StartWatches"] ++                   -- not modelled: its error is only logged, no condition depends on it
  Phase.publish.skel ++
  ["handleCommonCompositionResult",            -- composeOk: applyFnConds
   "updateXRConditions",                       -- composeOk: syncedCond, readyCond
   "client.Status.Update", "client.Status.Update"]  -- the two exits (requeue now / after the poll interval): one write, `Call.lost`

/-- `updateXRConditions`: Available / ReconcileSuccess by default (readyCond, syncedCond: the `all`
branches), ReconcileError when something is unsynced, Creating when something is unready, then the
explicit readiness (Available / Creating), and ONE SetConditions(synced, ready) (composeOk: the two
nested setCond) -/
def skelUpdateXRConditions : List String :=
  ["xpv1.Available", "xpv1.ReconcileSuccess", "xpv1.ReconcileError", "xpv1.Creating", "xpv1.Available", "xpv1.Creating",
   "xr.SetConditions"]

/-- `handleCommonCompositionResult`: the claim is looked up for events only (not modelled: events);
per function condition the system-type filter, SetConditions, SetClaimConditionTypes (applyFnConds) -/
def skelHandleCommon : List String :=
  ["getClaimFromXR", "xpv1.IsSystemConditionType", "xr.SetConditions", "xr.SetClaimConditionTypes"]

/-! ### Sequences of reconciles of several XRs by one long-lived reconciler

The model is per call: the only state a call sees is the addressed XR's stored conditions. -/

structure Step where
  xr : Nat
  call : Call
  deriving Repr

/-- one step: the new per-XR states and what was written (none = nothing) -/
def stepSeq (sts : List St) (s : Step) : List St × Option St :=
  match sts[s.xr]? with
  | none => (sts, none)
  | some old =>
    match reconcileCall old s.call with
    | none => (sts, none)
    | some st => (sts.set s.xr st, some st)

def runSeq : List St → List Step → List St
  | sts, [] => sts
  | sts, s :: ss => runSeq (stepSeq sts s).1 ss

/-- per step: the addressed XR's state after the step, and whether a status write took effect -/
def traceSeq : List St → List Step → List (Option St × Bool)
  | _, [] => []
  | sts, s :: ss =>
    let r := stepSeq sts s
    (r.1[s.xr]?, r.2.isSome) :: traceSeq r.1 ss

/-- Claim reconciler: Ready=True (Available) is set only on the path where the
bound XR, as read after syncing, has Ready=True. Otherwise Waiting. -/
def claimReady (xrReadyStatus : Option String) : Cond :=
  if xrReadyStatus = some "True" then available else ⟨"Ready", "False", "Waiting"⟩

/-- xr.GetCondition(t): the stored condition, or an Unknown one when absent -/
def getCond (cs : List Cond) (t : String) : Cond :=
  (cs.find? (·.type = t)).getD ⟨t, "Unknown", ""⟩

/-- The tail of the claim Reconcile after a successful Sync (claim/reconciler.go): Synced is
set, the XR's claimConditionTypes are copied, then Ready is Available iff the XR read
after syncing is Ready=True, else Waiting. -/
def claimReconcile (old : List Cond) (xrConds : List Cond) (claimTypes : List String) : List Cond :=
  let c1 := setCond old reconcileSuccess
  let c2 := claimTypes.foldl (fun acc t => setCond acc (getCond xrConds t)) c1
  setCond c2 (claimReady (statusOf xrConds "Ready"))

end Xp.C05

import Xp.Base.Prog
import Xp.Model.C11
/-
C11 model, part 2: the XRD webhook at the level of its API calls
(internal/validation/apiextensions/v1/xrd/handler.go: ValidateCreate,
ValidateUpdate, dryRunUpdateOrCreateIfNotFound over retry.RetryOnConflict,
rewriteError).

The validator holds the manager's client: `Get` is answered by the informer
cache, `Create` / `Update` (always dry-run) go to the API server. A `World` is
therefore two maps from CRD name to resourceVersion (`live` = API server,
`cache` = what a Get is served), plus the error the next call fails with.
Everything other clients and the informer do while the webhook handles ONE
request is an `Xp.Env World` (what happens right before the webhook's k-th call):
a third party creates / deletes / modifies a CRD, the cache catches up, a call
fails with an error of some class. `Model/C11.lean`'s `admissionCreate` /
`admissionUpdate` (the server's verdict as a function, nothing else happening) is
the quiet special case (`Props/C11: hook_quiet_update`, `hook_quiet_create`).
-/
namespace Xp.C11

/-- classes of errors an API call can come back with -/
inductive ErrClass where
  | notFound | alreadyExists | conflict | invalid | forbidden | timeout | internal
  /-- a Status error without `details` (503, 401, 413, 400 as the API machinery builds them) -/
  | bare
  /-- not a Status: connection refused / reset (`Temporary()`) -/
  | transport
  /-- not a Status: context deadline exceeded -/
  | deadline
  deriving DecidableEq, Repr

def eraseKey (k : String) : List (String × α) → List (String × α)
  | [] => []
  | (k', v) :: rest => if k' = k then eraseKey k rest else (k', v) :: eraseKey k rest

structure World where
  /-- API server: CRD name ↦ resourceVersion -/
  live : List (String × Nat) := []
  /-- informer cache: what `Get` is served -/
  cache : List (String × Nat) := []
  /-- the resourceVersion the next write gets (one counter for the whole server) -/
  next : Nat := 1
  /-- the next API call fails with this error; nothing is applied -/
  inject : Option ErrClass := none

inductive Req where
  | get (name : String)
  /-- `Update(got)` where `got` was read with resourceVersion `rv` and carries the derived spec -/
  | update (dry : Bool) (rv : Nat) (crd : Crd)
  | create (dry : Bool) (crd : Crd)

def Req.name : Req → String
  | .get n => n
  | .update _ _ c => c.name
  | .create _ c => c.name

/-- reads and dry-run writes: what a validating webhook may issue -/
def Req.harmless : Req → Bool
  | .get _ => true
  | .update dry _ _ => dry
  | .create dry _ => dry

inductive Resp where
  | found (rv : Nat)
  | ok
  | err (e : ErrClass)
  deriving DecidableEq, Repr

def World.store (w : World) (n : String) : World :=
  { w with live := setKey n w.next w.live, next := w.next + 1 }

/-- One API call. `accept` is the API server's validation of a CRD (an input). Order of the
checks as in the simulated server: Update: NotFound, Conflict, Invalid; Create: AlreadyExists, Invalid. -/
def execHook (accept : Crd → Bool) (w : World) (r : Req) : World × Resp :=
  match w.inject with
  | some e => ({ w with inject := none }, .err e)
  | none =>
    match r with
    | .get n =>
      match lookup n w.cache with
      | some rv => (w, .found rv)
      | none => (w, .err .notFound)
    | .update dry rv crd =>
      match lookup crd.name w.live with
      | none => (w, .err .notFound)
      | some cur =>
        if rv ≠ cur then (w, .err .conflict)
        else if accept crd = false then (w, .err .invalid)
        else (if dry then w else w.store crd.name, .ok)
    | .create dry crd =>
      match lookup crd.name w.live with
      | some _ => (w, .err .alreadyExists)
      | none =>
        if accept crd = false then (w, .err .invalid)
        else (if dry then w else w.store crd.name, .ok)

def hookSem (accept : Crd → Bool) : Sem World Req Resp where
  exec := execHook accept
  errResp := fun o _ => match o with
    | .conflict => .err .conflict
    | _ => .err .internal

/-! ### what others do -/

inductive Act where
  /-- a third party modifies the stored CRD (its resourceVersion moves) -/
  | bump (name : String)
  | delete (name : String)
  /-- a third party creates a CRD of that name (if there is none) -/
  | create (name : String)
  /-- the informer cache catches up with the API server for that CRD -/
  | sync (name : String)
  /-- the next API call fails with this class -/
  | err (e : ErrClass)

def applyAct (w : World) : Act → World
  | .bump n => if (lookup n w.live).isSome then w.store n else w
  | .delete n => { w with live := eraseKey n w.live }
  | .create n => if n = "" ∨ (lookup n w.live).isSome then w else w.store n
  | .sync n =>
    match lookup n w.live with
    | some rv => { w with cache := setKey n rv w.cache }
    | none => { w with cache := eraseKey n w.cache }
  | .err e => { w with inject := some e }

/-- the scenario's script as an environment: the acts scheduled right before call `k`, in order -/
def scriptEnv (acts : List (Nat × Act)) : Env World :=
  fun k w => (acts.filter (·.1 = k)).foldl (fun w a => applyAct w a.2) w

/-- the CRDs in `names` exist, stored and cached with the same resourceVersion -/
def World.initial (names : List String) : World :=
  names.foldl (fun w n => if n = "" ∨ (lookup n w.live).isSome then w
                          else { (w.store n) with cache := setKey n w.next w.cache }) {}

/-! ### the webhook -/

inductive Verdict where
  | allowed
  | invalid (fields : List String)
  | crdError (which : String) (e : Err)
  /-- an API call about the `which` CRD failed with an error of class `e` (returned through rewriteError) -/
  | rejected (which : String) (e : ErrClass)
  /-- rewriteError dereferenced the missing details of the error -/
  | panic (which : String)
  deriving DecidableEq, Repr

/-- forget how the request was refused -/
def Verdict.abs : Verdict → Admission
  | .allowed => .allowed
  | .invalid f => .invalid f
  | .crdError w e => .crdError w e
  | .rejected w _ => .rejectedByServer w
  | .panic w => .rejectedByServer w

/-- rewriteError: a Status error gets its message / details rewritten (which needs the details),
every other error is returned as it is -/
def rewriteError (w : String) (e : ErrClass) : Verdict :=
  if e = .bare ∧ Xp.Gen.xrdWebhookBareStatusPanics = true then .panic w else .rejected w e

/-- the closure of dryRunUpdateOrCreateIfNotFound -/
def attempt (crd : Crd) : Prog Req Resp Resp :=
  .call (.get crd.name) fun r =>
    match r with
    | .found rv => .call (.update true rv crd) .ret
    | .err .notFound => .call (.create true crd) .ret
    | .err e => .ret (.err e)
    | .ok => .ret (.err .internal)

/-- retry.OnError(backoff, IsConflict, fn) with `n` steps left: a Conflict (from whichever call) is
retried, the last one is returned when the steps run out; zero steps never call `fn` and succeed -/
def retryOnConflict : Nat → Crd → Prog Req Resp Resp
  | 0, _ => .ret .ok
  | n+1, crd => Prog.bind (attempt crd) fun r =>
      match r with
      | .err .conflict => if n = 0 then .ret r else retryOnConflict n crd
      | r => .ret r

/-- the loop of ValidateUpdate -/
def dryRunAllUpdate (steps : Nat) : List (String × Crd) → Prog Req Resp Verdict
  | [] => .ret .allowed
  | (w, c) :: rest => Prog.bind (retryOnConflict steps c) fun r =>
      match r with
      | .ok => dryRunAllUpdate steps rest
      | .err e => .ret (rewriteError w e)
      | .found _ => .ret (rewriteError w .internal)

/-- the loop of ValidateCreate -/
def dryRunAllCreate : List (String × Crd) → Prog Req Resp Verdict
  | [] => .ret .allowed
  | (w, c) :: rest => .call (.create true c) fun r =>
      match r with
      | .ok => dryRunAllCreate rest
      | .err e => .ret (rewriteError w e)
      | .found _ => .ret (rewriteError w .internal)

def hook (errs : List String) (xrd : Xrd) (loop : List (String × Crd) → Prog Req Resp Verdict) : Prog Req Resp Verdict :=
  if errs ≠ [] then .ret (.invalid errs) else
  match allCrds xrd with
  | .error (w, e) => .ret (.crdError w e)
  | .ok crds => loop crds

def hookCreate (xrd : Xrd) : Prog Req Resp Verdict := hook (validate xrd) xrd dryRunAllCreate
def hookUpdate (new old : Xrd) : Prog Req Resp Verdict :=
  hook (validateUpdate new old) new (dryRunAllUpdate Xp.Gen.xrdWebhookRetrySteps)

/-- the statements of `ValidateCreate / ValidateUpdate / dryRunUpdateOrCreateIfNotFound / rewriteError` (internal/validation/apiextensions/v1/xrd/handler.go) that the definitions above mirror, one entry per
statement with the model step that mirrors it (Props/C11: skeleton obligations against the list
regenerated from the current tree) -/
def skelHookValidateCreate : List String := [
  "func (v *validator) ValidateCreate(ctx context.Context, obj runtime.Object) (warns admission.Warnings, err error)",  -- hookCreate xrd = hook (validate xrd) xrd dryRunAllCreate
  "in, ok := obj.(*v1.CompositeResourceDefinition)",  -- not modelled: the harness always hands the validator XRDs
  "if !ok",  -- not modelled
  "return nil, errors.New(errNotCompositeResourceDefinition)",  -- not modelled
  "end",
  "validationWarns, validationErr := in.Validate()",  -- hookCreate: validate xrd
  "warns = append(warns, validationWarns...)",  -- warnings are always nil (validate returns none): not modelled
  "if validationErr != nil",  -- hook: if errs ≠ []
  "return validationWarns, validationErr.ToAggregate()",  -- .ret (.invalid errs)
  "end",
  "crds, err := getAllCRDsForXRD(in)",  -- hook: match allCrds xrd
  "if err != nil",  -- | .error (w, e)
  "return warns, xperrors.Wrap(err, \"cannot get CRDs for CompositeResourceDefinition\")",  -- .ret (.crdError w e)
  "end",
  "for _, crd := range crds",  -- dryRunAllCreate: recursion over the CRDs
  "if err := v.client.Create(ctx, crd, client.DryRunAll); err != nil",  -- .call (.create true c)
  "return warns, v.rewriteError(err, in, crd)",  -- | .err e => .ret (rewriteError w e)
  "end",
  "end",
  "return warns, nil"]  -- dryRunAllCreate [] = .ret .allowed


def skelHookValidateUpdate : List String := [
  "func (v *validator) ValidateUpdate(ctx context.Context, oldObj, newObj runtime.Object) (warns admission.Warnings, err error)",  -- hookUpdate new old = hook (validateUpdate new old) new (dryRunAllUpdate xrdWebhookRetrySteps)
  "oldXRD, ok := oldObj.(*v1.CompositeResourceDefinition)",  -- not modelled: the harness always hands the validator XRDs
  "if !ok",  -- not modelled
  "return nil, errors.New(errUnexpectedType)",  -- not modelled
  "end",
  "newXRD, ok := newObj.(*v1.CompositeResourceDefinition)",  -- not modelled
  "if !ok",  -- not modelled
  "return nil, errors.New(errUnexpectedType)",  -- not modelled
  "end",
  "validationWarns, validationErr := newXRD.ValidateUpdate(oldXRD)",  -- hookUpdate: validateUpdate new old
  "warns = append(warns, validationWarns...)",  -- warnings are always nil: not modelled
  "if validationErr != nil",  -- hook: if errs ≠ []
  "return validationWarns, validationErr.ToAggregate()",  -- .ret (.invalid errs) (immutable_webhook_no_call)
  "end",
  "crds, err := getAllCRDsForXRD(newXRD)",  -- hook: match allCrds new (the NEW XRD)
  "if err != nil",  -- | .error (w, e)
  "return warns, xperrors.Wrap(err, \"cannot get CRDs for CompositeResourceDefinition\")",  -- .ret (.crdError w e)
  "end",
  "for _, crd := range crds",  -- dryRunAllUpdate: recursion over the CRDs
  "err := v.dryRunUpdateOrCreateIfNotFound(ctx, crd)",  -- Prog.bind (retryOnConflict steps c)
  "if err != nil",  -- | .err e
  "return warns, v.rewriteError(err, newXRD, crd)",  -- .ret (rewriteError w e)
  "end",
  "end",
  "return warns, nil"]  -- dryRunAllUpdate _ [] = .ret .allowed


def skelHookDryRun : List String := [
  "func (v *validator) dryRunUpdateOrCreateIfNotFound(ctx context.Context, crd *apiextv1.CustomResourceDefinition) error",  -- retryOnConflict steps crd
  "return retry.RetryOnConflict(retry.DefaultRetry, func() error {}, )",  -- retryOnConflict: Xp.Gen.xrdWebhookRetrySteps attempts, a Conflict is retried (client-go retry.OnError: mirrored, steps regenerated)
  "got := crd.DeepCopy()",  -- attempt crd: the derived object
  "err := v.client.Get(ctx, client.ObjectKey{Name: crd.Name}, got)",  -- .call (.get crd.name) (answered by the informer cache)
  "if err == nil",  -- | .found rv
  "got.Spec = crd.Spec",  -- Req.update carries the derived crd and the read resourceVersion rv
  "return v.client.Update(ctx, got, client.DryRunAll)",  -- .call (.update true rv crd) .ret
  "end",
  "if kerrors.IsNotFound(err)",  -- | .err .notFound
  "return v.client.Create(ctx, crd, client.DryRunAll)",  -- .call (.create true crd) .ret
  "end",
  "return err"]  -- | .err e => .ret (.err e)


def skelHookRewriteError : List String := [
  "func (v *validator) rewriteError(err error, in *v1.CompositeResourceDefinition, crd *apiextv1.CustomResourceDefinition) error",  -- rewriteError (w : String) (e : ErrClass) : Verdict
  "if err == nil",  -- not modelled: the callers pass non-nil errors only
  "return nil",  -- not modelled
  "end",
  "var apiErr *kerrors.StatusError",
  "if errors.As(err, &apiErr)",  -- every ErrClass but transport / deadline is a *StatusError
  "apiErr.ErrStatus.Message = \"invalid CRD generated for CompositeResourceDefinition: \" + apiErr.ErrStatus.Message",  -- message text not modelled
  "apiErr.ErrStatus.Details.Kind = v1.CompositeResourceDefinitionKind",  -- if e = .bare ∧ xrdWebhookBareStatusPanics then .panic w (Details is nil: level_note (5))
  "apiErr.ErrStatus.Details.Group = v1.Group",  -- details not modelled
  "apiErr.ErrStatus.Details.Name = in.GetName()",  -- details not modelled
  "for i, cause := range apiErr.ErrStatus.Details.Causes",  -- causes not modelled
  "cause.Field = fmt.Sprintf(\"<generated_CRD_%q>.%s\", crd.GetName(), cause.Field)",  -- causes not modelled
  "apiErr.ErrStatus.Details.Causes[i] = cause",  -- causes not modelled
  "end",
  "return apiErr",  -- .rejected w e
  "end",
  "return err"]  -- .rejected w e (transport, deadline)


/-! the calls through the validator's client as a FUNCTION of the model: the verbs of the requests of
a program in preorder, exploring at every call the replies in `resps` (Props/C11: equal to the
verbs go/ast finds on `v.client` in the current tree, source order) -/

def Req.verb : Req → String
  | .get _ => "Get"
  | .update dry _ _ => if dry then "Update:dryRun" else "Update"
  | .create dry _ => if dry then "Create:dryRun" else "Create"

def progVerbs (resps : List Resp) : Prog Req Resp α → List String
  | .ret _ => []
  | .call r k => r.verb :: resps.flatMap fun x => progVerbs resps (k x)

/-- the closure of dryRunUpdateOrCreateIfNotFound: Get, then Update (found) or Create (NotFound) -/
def callsHookDryRun (crd : Crd) : List String := progVerbs [.found 0, .err .notFound] (attempt crd)

/-- the loop body of ValidateCreate: one dry-run Create per CRD -/
def callsHookValidateCreate (crd : Crd) : List String := progVerbs [.ok] (dryRunAllCreate [("xr", crd)])

/-- the world is quiet: the cache is up to date, no call is about to fail -/
def World.quiet (w : World) : Prop := w.inject = none ∧ ∀ n, lookup n w.cache = lookup n w.live

end Xp.C11

import Xp.Model.C07World
import Xp.Gen.C07Skel
/-
C07 model of the managed-fields upgrader:
  internal/controller/apiextensions/claim/syncer_ssa.go  PatchingManagedFieldsUpgrader.Upgrade
mirrored statement by statement over the list of manager names of metadata.managedFields
(the only part of an entry the function reads). The manager name it looks for besides the
syncer's own, and the paths of its JSON patches, are regenerated from the source
(Xp.Gen.c07UpgradeManagerLits, Xp.Gen.c07UpgradePatchOps).

The differential harness runs `upgradeRun` side by side with the real Upgrade on probe
objects whose managedFields list any managers in any order (op `upgradeProbe`).
-/
namespace Xp.C07
open Xp

/-- the manager server-side apply attributes pre-existing fields to ("before-first-apply") -/
def bfaManager : String := Xp.Gen.c07UpgradeManagerLits.headD ""

/-- the three loop variables of Upgrade -/
structure Scan where
  foundSSA : Bool := false
  foundBFA : Bool := false
  idxBFA : Nat := 0
  deriving DecidableEq, Repr

/-- `for i, e := range obj.GetManagedFields() { … }` from index `i` on -/
def scan (ssa : String) : List String → Nat → Scan → Scan
  | [], _, a => a
  | m :: rest, i, a =>
    scan ssa rest (i + 1)
      { foundSSA := a.foundSSA || m == ssa
        foundBFA := a.foundBFA || m == bfaManager
        idxBFA := if m == bfaManager then i else a.idxBFA }

/-- what Upgrade decides to send -/
inductive UpgAct where
  /-- no API call -/
  | nothing
  /-- JSON patch `remove /metadata/managedFields/<i>` (+ resourceVersion test by replace) -/
  | removeAt (i : Nat)
  /-- JSON patch `replace /metadata/managedFields [{}]` (+ resourceVersion) -/
  | clearAll
  deriving DecidableEq, Repr

/-- the `switch` of Upgrade. `created` = meta.WasCreated(obj). -/
def upgradePlan (created : Bool) (ssa : String) (mf : List String) : UpgAct :=
  if !created then .nothing else
  let a := scan ssa mf 0 {}
  if a.foundSSA && !a.foundBFA then .nothing
  else if a.foundSSA && a.foundBFA then .removeAt a.idxBFA
  else .clearAll

/-- what the API server makes of the patch: the managers afterwards -/
def applyUpg (mf : List String) : UpgAct → List String
  | .nothing => mf
  | .removeAt i => mf.eraseIdx i
  | .clearAll => []

structure UpgOut where
  managers : List String
  calls : Nat := 0
  err : String := ""
  deriving DecidableEq, Repr

/-- One run of Upgrade against an object listing the managers `mf`; `inj`: its (only) API
call fails with an error of this class and nothing reaches the store.
`resource.IgnoreNotFound`: a NotFound answer is not an error. -/
def upgradeRun (created : Bool) (ssa : String) (mf : List String) (inj : Option String) : UpgOut :=
  match upgradePlan created ssa mf with
  | .nothing => { managers := mf }
  | act =>
    match inj with
    | some e => { managers := mf, calls := 1, err := if e == "notFound" then "" else apiErr e }
    | none => { managers := applyUpg mf act, calls := 1 }

/-- the JSON-pointer paths the upgrader's patches write (`--` separates the patches) -/
def upgradePaths : List String :=
  (Xp.Gen.c07UpgradePatchOps.filter (· != "--")).map fun o => String.ofList ((o.toList.dropWhile (· != ':')).drop 1)

/-- a path inside metadata.managedFields, or metadata.resourceVersion: nothing the
projection {name, labels, annotations, spec, status} keeps -/
def bookkeepingPath (p : String) : Bool :=
  "/metadata/managedFields".toList.isPrefixOf p.toList || p == "/metadata/resourceVersion"

end Xp.C07

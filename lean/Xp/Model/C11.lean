import Xp.Gen.Xcrd
/-
C11 model: derivation of the composite and claim CRDs from an XRD
(internal/xcrd/crd.go: ForCompositeResource, ForCompositeResourceClaim,
genCrdVersion, validateClaimNames, setCrdMetadata), the XRD update validation
(apis/apiextensions/v1/xrd_validation.go: Validate, validateConversion,
ValidateUpdate) and the admission decision of the XRD webhook
(internal/validation/apiextensions/v1/xrd/handler.go) with the API server's
dry-run verdicts as an input.

Schemas are `Xp.Gen.XSchema` trees (the structure is emitted by the table dumper
next to the machinery tables): `props` is an association list standing for the Go
map `Properties`; the fields the code reads or writes are explicit, every other
JSONSchemaProps field is opaque JSON text in `rest`.  JSON (un)marshalling of
`extv1.JSONSchemaProps` is library code and is not modelled: the harness hands the
model the author's schema as `json.Unmarshal` produced it.

Go maps: `m[k] = v` is `setKey`, `for k, v := range t { m[k] = v }` is `setAll`
(a left fold of `setKey`), `m[k]` on a missing key is the zero value (`prop`).
Map iteration order cannot be observed in the result because the tables have no
duplicate keys (a `decide`d fact over the generated tables in Props/C11).
-/
namespace Xp.C11

abbrev Schema := Xp.Gen.XSchema

/-- first binding of `k` -/
def lookup (k : String) : List (String × α) → Option α
  | [] => none
  | (k', v) :: rest => if k' = k then some v else lookup k rest

/-- Go `m[k] = v` on an association list: replace the binding in place, else append -/
def setKey (k : String) (v : α) : List (String × α) → List (String × α)
  | [] => [(k, v)]
  | (k', v') :: rest => if k' = k then (k, v) :: rest else (k', v') :: setKey k v rest

/-- Go `for k, v := range t { m[k] = v }` -/
def setAll (m : List (String × α)) : List (String × α) → List (String × α)
  | [] => m
  | (k, v) :: rest => setAll (setKey k v m) rest

def keys (m : List (String × α)) : List String := m.map (·.1)

/-- Go `s.Properties[k]`: the zero schema when the key is missing -/
def prop (s : Schema) (k : String) : Schema := (lookup k s.props).getD {}

/-! ### the XRD -/

structure Names where
  kind : String
  plural : String
  singular : String := ""
  listKind : String := ""
  shortNames : List String := []
  categories : List String := []
  deriving DecidableEq, Repr

/-- `vr.Schema`: nil, a RawExtension that does not unmarshal into JSONSchemaProps, or the parsed schema -/
inductive SchemaIn where
  | absent
  | bad
  | ok (s : Schema)

structure Version where
  name : String
  served : Bool
  referenceable : Bool
  deprecated : Option Bool := none
  deprecationWarning : Option String := none
  /-- author's additionalPrinterColumns, each opaque JSON text -/
  columns : List String := []
  schema : SchemaIn

/-- spec.conversion as far as validateConversion looks into it; `raw` is the whole value (opaque) -/
structure Conversion where
  strategy : String
  hasWebhook : Bool
  hasClientConfig : Bool
  raw : String
  deriving DecidableEq, Repr

structure Xrd where
  name : String
  uid : String := ""
  labels : List (String × String) := []
  /-- spec.metadata.labels / annotations (nil and empty are not distinguished) -/
  metaLabels : List (String × String) := []
  metaAnnotations : List (String × String) := []
  group : String
  names : Names
  claimNames : Option Names := none
  versions : List Version
  conversion : Option Conversion := none
  defaultCompositionUpdatePolicy : Option String := none
  defaultCompositeDeletePolicy : Option String := none

/-! ### the derived CRD -/

structure OwnerRef where
  apiVersion : String
  kind : String
  name : String
  uid : String
  controller : Bool
  blockOwnerDeletion : Bool
  deriving DecidableEq, Repr

structure CrdVersion where
  name : String
  served : Bool
  storage : Bool
  deprecated : Bool
  deprecationWarning : Option String
  columns : List String
  schema : Schema
  statusSubresource : Bool
  scaleSubresource : Bool := false

structure Crd where
  name : String
  labels : List (String × String)
  annotations : List (String × String)
  owners : List OwnerRef
  scope : String
  group : String
  names : Names
  versions : List CrdVersion
  conversion : Option Conversion

inductive Err where
  | parseSchema
  | nilValidation
  | missingClaimNames
  | conflictingClaimName (n : String)
  deriving DecidableEq, Repr

/-! ### genCrdVersion -/

/-- the name length limit: the author's `metadata.name.maxLength` when it is smaller -/
def nameMaxLength (s : Schema) (maxNameLength : Int) : Int :=
  match (prop (prop s "metadata") "name").maxLength with
  | some old => if old < maxNameLength then old else maxNameLength
  | none => maxNameLength

/-- the `spec` node: BaseProps' node, author's required / preserve-unknown / rules / oneOf /
description / properties merged in (nothing else of the author's node is read) -/
def genSpec (base : Schema) (s : Schema) : Schema :=
  let xSpec := prop s "spec"
  let cSpec := prop base "spec"
  { cSpec with
    required := cSpec.required ++ xSpec.required
    preserveUnknown := xSpec.preserveUnknown
    xValidations := cSpec.xValidations ++ xSpec.xValidations
    oneOf := cSpec.oneOf ++ xSpec.oneOf
    description := xSpec.description
    props := setAll cSpec.props xSpec.props }

/-- the `status` node: author's fields first, then the machinery status properties -/
def genStatus (base : Schema) (s : Schema) : Schema :=
  let xStatus := prop s "status"
  let cStatus := prop base "status"
  { cStatus with
    required := xStatus.required
    xValidations := xStatus.xValidations
    description := xStatus.description
    oneOf := xStatus.oneOf
    props := setAll (setAll cStatus.props xStatus.props) Xp.Gen.xcrdStatusProps }

def genMetadata (base : Schema) (s : Schema) (maxNameLength : Int) : Schema :=
  let xName : Schema := { prop (prop base "metadata") "name" with
                          maxLength := some (nameMaxLength s maxNameLength), type := "string" }
  { prop base "metadata" with props := [("name", xName)] }

def genSchema (s : Schema) (maxNameLength : Int) : Schema :=
  let base := Xp.Gen.xcrdBaseProps
  { base with
    description := s.description
    props := setKey "status" (genStatus base s)
              (setKey "spec" (genSpec base s)
                (setKey "metadata" (genMetadata base s maxNameLength) base.props)) }

/-- the CRD version built from XRD version `vr` whose schema parsed to `s` -/
def mkVersion (vr : Version) (s : Schema) (maxNameLength : Int) : CrdVersion :=
  { name := vr.name
    served := vr.served
    storage := vr.referenceable
    deprecated := vr.deprecated.getD false
    deprecationWarning := vr.deprecationWarning
    columns := vr.columns
    schema := genSchema s maxNameLength
    statusSubresource := true }

def genVersion (vr : Version) (maxNameLength : Int) : Except Err CrdVersion :=
  match vr.schema with
  | .bad => .error .parseSchema
  | .absent => .error .nilValidation
  | .ok s => .ok (mkVersion vr s maxNameLength)

/-! ### ForCompositeResource / ForCompositeResourceClaim -/

/-- `cup.Default = &extv1.JSON{Raw: "\"<policy>\""}` when the XRD sets a default policy -/
def applyDefault (policy : Option String) (s : Schema) : Schema :=
  match policy with
  | none => s
  | some p => { s with default := some ("\"" ++ p ++ "\"") }

/-- `cup := props[key]; cup.Default = ...; props[key] = cup` (only when a default policy is set) -/
def withDefault (key : String) (policy : Option String) (table : List (String × Schema)) : List (String × Schema) :=
  match policy with
  | none => table
  | some _ => setKey key (applyDefault policy ((lookup key table).getD {})) table

def xrSpecMachinery (xrd : Xrd) : List (String × Schema) :=
  withDefault "compositionUpdatePolicy" xrd.defaultCompositionUpdatePolicy Xp.Gen.xcrdSpecPropsXR

def claimSpecMachinery (xrd : Xrd) : List (String × Schema) :=
  withDefault "compositeDeletePolicy" xrd.defaultCompositeDeletePolicy Xp.Gen.xcrdSpecPropsClaim

/-- `crdv.Schema.OpenAPIV3Schema.Properties["spec"].Properties[k] = v` for every machinery property -/
def writeSpecProps (root : Schema) (mach : List (String × Schema)) : Schema :=
  let spec := prop root "spec"
  { root with props := setKey "spec" { spec with props := setAll spec.props mach } root.props }

/-- loop body of the For* functions -/
def decorate (cv : CrdVersion) (columns : List String) (mach : List (String × Schema)) : CrdVersion :=
  { cv with columns := cv.columns ++ columns, schema := writeSpecProps cv.schema mach }

/-- the version loop: the first failing version aborts -/
def genVersions (vs : List Version) (maxNameLength : Int) (columns : List String) (mach : List (String × Schema)) :
    Except Err (List CrdVersion) :=
  match vs with
  | [] => .ok []
  | vr :: rest =>
    match genVersion vr maxNameLength with
    | .error e => .error e
    | .ok cv =>
      match genVersions rest maxNameLength columns mach with
      | .error e => .error e
      | .ok cvs => .ok (decorate cv columns mach :: cvs)

/-- setCrdMetadata: XRD labels overlaid with spec.metadata.labels -/
def crdLabels (xrd : Xrd) : List (String × String) := setAll xrd.labels xrd.metaLabels

def controllerRef (xrd : Xrd) : OwnerRef :=
  { apiVersion := Xp.Gen.xrdApiVersion, kind := Xp.Gen.xrdKind, name := xrd.name, uid := xrd.uid,
    controller := true, blockOwnerDeletion := true }

def forXR (xrd : Xrd) : Except Err Crd :=
  match genVersions xrd.versions Xp.Gen.xcrdMaxNameLengthXR Xp.Gen.xcrdPrinterColumnsXR (xrSpecMachinery xrd) with
  | .error e => .error e
  | .ok vs => .ok {
      name := xrd.name
      labels := crdLabels xrd
      annotations := xrd.metaAnnotations
      owners := [controllerRef xrd]
      scope := "Cluster"
      group := xrd.group
      names := { xrd.names with categories := xrd.names.categories ++ [Xp.Gen.categoryComposite] }
      versions := vs
      conversion := xrd.conversion }

def validateClaimNames (d : Xrd) : Except Err Names :=
  match d.claimNames with
  | none => .error .missingClaimNames
  | some c =>
    if c.kind = d.names.kind then .error (.conflictingClaimName c.kind)
    else if c.plural = d.names.plural then .error (.conflictingClaimName c.plural)
    else if c.singular ≠ "" ∧ c.singular = d.names.singular then .error (.conflictingClaimName c.singular)
    else if c.listKind ≠ "" ∧ c.listKind = d.names.listKind then .error (.conflictingClaimName c.listKind)
    else .ok c

def forClaim (xrd : Xrd) : Except Err Crd :=
  match validateClaimNames xrd with
  | .error e => .error e
  | .ok c =>
    match genVersions xrd.versions Xp.Gen.xcrdMaxNameLengthClaim Xp.Gen.xcrdPrinterColumnsClaim (claimSpecMachinery xrd) with
    | .error e => .error e
    | .ok vs => .ok {
        name := c.plural ++ "." ++ xrd.group
        labels := crdLabels xrd
        annotations := xrd.metaAnnotations
        owners := [controllerRef xrd]
        scope := "Namespaced"
        group := xrd.group
        names := { c with categories := c.categories ++ [Xp.Gen.categoryClaim] }
        versions := vs
        conversion := xrd.conversion }

/-! ### Validate / ValidateUpdate (field paths of the errors, in order) -/

def validateConversion (c : Xrd) : List String :=
  match c.conversion with
  | some conv =>
    if conv.strategy = "Webhook" ∧ (conv.hasWebhook = false ∨ conv.hasClientConfig = false)
    then ["spec.conversion.webhook"] else []
  | none => []

def validate (c : Xrd) : List String := validateConversion c

def validateUpdate (c old : Xrd) : List String :=
  (if c.group ≠ old.group then ["spec.group"] else []) ++
  (if c.names.plural ≠ old.names.plural then ["spec.names.plural"] else []) ++
  (if c.names.kind ≠ old.names.kind then ["spec.names.kind"] else []) ++
  (match c.claimNames, old.claimNames with
   | some cn, some on =>
     (if cn.plural ≠ on.plural then ["spec.claimNames.plural"] else []) ++
     (if cn.kind ≠ on.kind then ["spec.claimNames.kind"] else [])
   | _, _ => []) ++
  validate c

/-! ### the webhook's decision (handler.go) -/

inductive Admission where
  | allowed
  | invalid (fields : List String)      -- Validate / ValidateUpdate errors
  | crdError (which : String) (e : Err) -- getAllCRDsForXRD failed ("xr" / "claim")
  | rejectedByServer (which : String)   -- the dry-run of a generated CRD was refused
  deriving DecidableEq, Repr

/-- getAllCRDsForXRD: the XR CRD, and the claim CRD iff claim names are set -/
def allCrds (xrd : Xrd) : Except (String × Err) (List (String × Crd)) :=
  match forXR xrd with
  | .error e => .error ("xr", e)
  | .ok x =>
    match xrd.claimNames with
    | none => .ok [("xr", x)]
    | some _ =>
      match forClaim xrd with
      | .error e => .error ("claim", e)
      | .ok c => .ok [("xr", x), ("claim", c)]

/-- the dry-run loop; `server` is the API server's verdict on a generated CRD (an input) -/
def dryRun (server : Crd → Bool) : List (String × Crd) → Admission
  | [] => .allowed
  | (w, c) :: rest => if server c then dryRun server rest else .rejectedByServer w

def admission (errs : List String) (xrd : Xrd) (server : Crd → Bool) : Admission :=
  if errs ≠ [] then .invalid errs else
  match allCrds xrd with
  | .error (w, e) => .crdError w e
  | .ok crds => dryRun server crds

def admissionCreate (xrd : Xrd) (server : Crd → Bool) : Admission := admission (validate xrd) xrd server
def admissionUpdate (new old : Xrd) (server : Crd → Bool) : Admission := admission (validateUpdate new old) new server

/-! ### position-wise relation between the XRD's versions and the CRD's versions (for statements) -/

/-- `Zip R as bs`: the lists have equal length and `R` relates the elements at every position -/
inductive Zip (R : α → β → Prop) : List α → List β → Prop
  | nil : Zip R [] []
  | cons {a b as bs} : R a b → Zip R as bs → Zip R (a :: as) (b :: bs)

/-! ### the two derivations under one name (so that each theorem is stated once for both CRDs) -/

inductive Which where
  | xr | claim
  deriving DecidableEq, Repr

def derive : Which → Xrd → Except Err Crd
  | .xr => forXR
  | .claim => forClaim

/-- the machinery spec table of the current tree -/
def tableOf : Which → List (String × Schema)
  | .xr => Xp.Gen.xcrdSpecPropsXR
  | .claim => Xp.Gen.xcrdSpecPropsClaim

/-- the one machinery property whose `default` an XRD may set, and the XRD's setting -/
def policyKey : Which → String
  | .xr => "compositionUpdatePolicy"
  | .claim => "compositeDeletePolicy"

def policyOf : Which → Xrd → Option String
  | .xr, d => d.defaultCompositionUpdatePolicy
  | .claim, d => d.defaultCompositeDeletePolicy

def machineryOf : Which → Xrd → List (String × Schema)
  | .xr, d => xrSpecMachinery d
  | .claim, d => claimSpecMachinery d

def columnsOf : Which → List String
  | .xr => Xp.Gen.xcrdPrinterColumnsXR
  | .claim => Xp.Gen.xcrdPrinterColumnsClaim

def maxNameLengthOf : Which → Int
  | .xr => Xp.Gen.xcrdMaxNameLengthXR
  | .claim => Xp.Gen.xcrdMaxNameLengthClaim

/-- the four corresponding name fields validateClaimNames compares -/
def claimNamesCollide (c n : Names) : Prop :=
  c.kind = n.kind ∨ c.plural = n.plural ∨ (c.singular ≠ "" ∧ c.singular = n.singular) ∨ (c.listKind ≠ "" ∧ c.listKind = n.listKind)

/-! ### shape of a machinery table (used to state what "standard schema" means independently of the table) -/

/-- (key, type, required, property names) of every entry -/
def shape (t : List (String × Schema)) : List (String × String × List String × List String) :=
  t.map fun (k, s) => (k, s.type, s.required, keys s.props)

/-! ### the reconcile step that WRITES a derived CRD (definition / offered reconciler)

`r.client.Apply(ctx, crd, MustBeControllableBy(uid))` with the reconcilers' own
`NewClientApplicator` = `resource.NewAPIUpdatingApplicator`: Get, then Create if there is
no CRD, else Update of the rendered object carrying the stored resourceVersion. An Update
REPLACES labels, annotations, owner references and spec (the status subresource is kept by
the server). `stored` is the XRD's own CRD as an earlier reconcile left it. -/

/-- the API server's Update of the main resource: the submitted object replaces the stored one -/
def serverUpdate (_stored desired : Crd) : Crd := desired

/-- what an RFC 7386 merge patch of the rendered object would leave instead (NOT what the code
does; kept to show that `reconcile_stores_derived` distinguishes the two): absent optional
fields keep the stored value, maps are merged, lists replaced -/
def serverMergePatch (stored desired : Crd) : Crd :=
  { desired with
    labels := setAll stored.labels desired.labels
    annotations := setAll stored.annotations desired.annotations
    conversion := match desired.conversion with | some c => some c | none => stored.conversion
    names := { desired.names with
      singular := if desired.names.singular = "" then stored.names.singular else desired.names.singular
      listKind := if desired.names.listKind = "" then stored.names.listKind else desired.names.listKind
      shortNames := if desired.names.shortNames = [] then stored.names.shortNames else desired.names.shortNames } }

/-- one successful pass of the definition (`.xr`) / offered (`.claim`) reconciler over the CRD -/
def reconcileStep (w : Which) (xrd : Xrd) (stored : Option Crd) : Except Err Crd :=
  match derive w xrd with
  | .error e => .error e
  | .ok d =>
    match stored with
    | none => .ok d
    | some s => .ok (serverUpdate s d)

/-! ### example input used by the non-vacuity examples of Props/C11 -/

/-- an author schema that tries to shadow machinery: `spec.claimRef` and `status.conditions` as strings -/
def exSchema : Schema :=
  { type := "object", description := "A database.",
    props := [
      ("spec", { type := "object", required := ["region"], xValidations := ["{\"rule\":\"self.region != ''\"}"],
                 oneOf := ["{\"required\":[\"region\"]}"], preserveUnknown := some true,
                 props := [("region", { type := "string" }), ("claimRef", { type := "string", description := "mine" })] }),
      ("status", { type := "object", props := [("conditions", { type := "string" }), ("address", { type := "string" })] }),
      ("metadata", { type := "object", props := [("name", { maxLength := some 30 })] })] }

def exXrd : Xrd :=
  { name := "xdatabases.example.org", uid := "u1", group := "example.org",
    names := { kind := "XDatabase", plural := "xdatabases", singular := "xdatabase" },
    claimNames := some { kind := "Database", plural := "databases", singular := "database" },
    defaultCompositionUpdatePolicy := some "Manual",
    versions := [{ name := "v1alpha1", served := true, referenceable := false, schema := .ok exSchema },
                 { name := "v1", served := true, referenceable := true, schema := .ok {} }] }

end Xp.C11

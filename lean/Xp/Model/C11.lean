import Xp.Gen.Xcrd
/-
C11 model: derivation of the composite and claim CRDs from an XRD
(internal/xcrd/crd.go: ForCompositeResource, ForCompositeResourceClaim,
genCrdVersion, validateClaimNames, setCrdMetadata), the XRD update validation
(apis/apiextensions/v1/xrd_validation.go: Validate, validateConversion,
ValidateUpdate) and the admission decision of the XRD webhook
(internal/validation/apiextensions/v1/xrd/handler.go) with the API server's
dry-run verdicts as an input.

Schemas are `Xp.Gen.XSchema` trees (the structure is emitted by the table dumper
next to the machinery tables): `props` is an association list standing for the Go
map `Properties`; the fields the code reads or writes are explicit, every other
JSONSchemaProps field is opaque JSON text in `rest`.  JSON (un)marshalling of
`extv1.JSONSchemaProps` is library code and is not modelled: the harness hands the
model the author's schema as `json.Unmarshal` produced it.

Go maps: `m[k] = v` is `setKey`, `for k, v := range t { m[k] = v }` is `setAll`
(a left fold of `setKey`), `m[k]` on a missing key is the zero value (`prop`).
Map iteration order cannot be observed in the result because the tables have no
duplicate keys (a `decide`d fact over the generated tables in Props/C11).
-/
namespace Xp.C11

abbrev Schema := Xp.Gen.XSchema

/-- first binding of `k` -/
def lookup (k : String) : List (String × α) → Option α
  | [] => none
  | (k', v) :: rest => if k' = k then some v else lookup k rest

/-- Go `m[k] = v` on an association list: replace the binding in place, else append -/
def setKey (k : String) (v : α) : List (String × α) → List (String × α)
  | [] => [(k, v)]
  | (k', v') :: rest => if k' = k then (k, v) :: rest else (k', v') :: setKey k v rest

/-- Go `for k, v := range t { m[k] = v }` -/
def setAll (m : List (String × α)) : List (String × α) → List (String × α)
  | [] => m
  | (k, v) :: rest => setAll (setKey k v m) rest

def keys (m : List (String × α)) : List String := m.map (·.1)

/-- Go `s.Properties[k]`: the zero schema when the key is missing -/
def prop (s : Schema) (k : String) : Schema := (lookup k s.props).getD {}

/-! ### the XRD -/

structure Names where
  kind : String
  plural : String
  singular : String := ""
  listKind : String := ""
  shortNames : List String := []
  categories : List String := []
  deriving DecidableEq, Repr

/-- `vr.Schema`: nil, a RawExtension that does not unmarshal into JSONSchemaProps, or the parsed schema -/
inductive SchemaIn where
  | absent
  | bad
  | ok (s : Schema)

structure Version where
  name : String
  served : Bool
  referenceable : Bool
  deprecated : Option Bool := none
  deprecationWarning : Option String := none
  /-- author's additionalPrinterColumns, each opaque JSON text -/
  columns : List String := []
  schema : SchemaIn

/-- spec.conversion as far as validateConversion looks into it; `raw` is the whole value (opaque) -/
structure Conversion where
  strategy : String
  hasWebhook : Bool
  hasClientConfig : Bool
  raw : String
  deriving DecidableEq, Repr

structure Xrd where
  name : String
  uid : String := ""
  labels : List (String × String) := []
  /-- spec.metadata.labels / annotations (nil and empty are not distinguished) -/
  metaLabels : List (String × String) := []
  metaAnnotations : List (String × String) := []
  group : String
  names : Names
  claimNames : Option Names := none
  versions : List Version
  conversion : Option Conversion := none
  defaultCompositionUpdatePolicy : Option String := none
  defaultCompositeDeletePolicy : Option String := none

/-! ### the derived CRD -/

structure OwnerRef where
  apiVersion : String
  kind : String
  name : String
  uid : String
  controller : Bool
  blockOwnerDeletion : Bool
  deriving DecidableEq, Repr

structure CrdVersion where
  name : String
  served : Bool
  storage : Bool
  deprecated : Bool
  deprecationWarning : Option String
  columns : List String
  schema : Schema
  statusSubresource : Bool
  scaleSubresource : Bool := false

structure Crd where
  name : String
  labels : List (String × String)
  annotations : List (String × String)
  owners : List OwnerRef
  scope : String
  group : String
  names : Names
  versions : List CrdVersion
  conversion : Option Conversion

inductive Err where
  | parseSchema
  | nilValidation
  | missingClaimNames
  | conflictingClaimName (n : String)
  deriving DecidableEq, Repr

/-! ### genCrdVersion -/

/-- the name length limit: the author's `metadata.name.maxLength` when it is smaller -/
def nameMaxLength (s : Schema) (maxNameLength : Int) : Int :=
  match (prop (prop s "metadata") "name").maxLength with
  | some old => if old < maxNameLength then old else maxNameLength
  | none => maxNameLength

/-- the `spec` node: BaseProps' node, author's required / preserve-unknown / rules / oneOf /
description / properties merged in (nothing else of the author's node is read) -/
def genSpec (base : Schema) (s : Schema) : Schema :=
  let xSpec := prop s "spec"
  let cSpec := prop base "spec"
  { cSpec with
    required := cSpec.required ++ xSpec.required
    preserveUnknown := xSpec.preserveUnknown
    xValidations := cSpec.xValidations ++ xSpec.xValidations
    oneOf := cSpec.oneOf ++ xSpec.oneOf
    description := xSpec.description
    props := setAll cSpec.props xSpec.props }

/-- the `status` node: author's fields first, then the machinery status properties -/
def genStatus (base : Schema) (s : Schema) : Schema :=
  let xStatus := prop s "status"
  let cStatus := prop base "status"
  { cStatus with
    required := xStatus.required
    xValidations := xStatus.xValidations
    description := xStatus.description
    oneOf := xStatus.oneOf
    props := setAll (setAll cStatus.props xStatus.props) Xp.Gen.xcrdStatusProps }

def genMetadata (base : Schema) (s : Schema) (maxNameLength : Int) : Schema :=
  let xName : Schema := { prop (prop base "metadata") "name" with
                          maxLength := some (nameMaxLength s maxNameLength), type := "string" }
  { prop base "metadata" with props := [("name", xName)] }

def genSchema (s : Schema) (maxNameLength : Int) : Schema :=
  let base := Xp.Gen.xcrdBaseProps
  { base with
    description := s.description
    props := setKey "status" (genStatus base s)
              (setKey "spec" (genSpec base s)
                (setKey "metadata" (genMetadata base s maxNameLength) base.props)) }

/-- the CRD version built from XRD version `vr` whose schema parsed to `s` -/
def mkVersion (vr : Version) (s : Schema) (maxNameLength : Int) : CrdVersion :=
  { name := vr.name
    served := vr.served
    storage := vr.referenceable
    deprecated := vr.deprecated.getD false
    deprecationWarning := vr.deprecationWarning
    columns := vr.columns
    schema := genSchema s maxNameLength
    statusSubresource := true }

def genVersion (vr : Version) (maxNameLength : Int) : Except Err CrdVersion :=
  match vr.schema with
  | .bad => .error .parseSchema
  | .absent => .error .nilValidation
  | .ok s => .ok (mkVersion vr s maxNameLength)

/-- the statements of `genCrdVersion` (internal/xcrd/crd.go) that the definitions above mirror, one entry per
statement with the model step that mirrors it (Props/C11: skeleton obligations against the list
regenerated from the current tree) -/
def skelGenCrdVersion : List String := [
  "func genCrdVersion(vr v1.CompositeResourceDefinitionVersion, maxNameLength int64) (*extv1.CustomResourceDefinitionVersion, error)",  -- genVersion : Version → Int → Except Err CrdVersion
  "crdv := extv1.CustomResourceDefinitionVersion{ Name: vr.Name, Served: vr.Served, Storage: vr.Referenceable, Deprecated: ptr.Deref(vr.Deprecated, false), DeprecationWarning: vr.DeprecationWarning, AdditionalPrinterColumns: vr.AdditionalPrinterColumns, Schema: &extv1.CustomResourceValidation{ OpenAPIV3Schema: BaseProps(), }, Subresources: &extv1.CustomResourceSubresources{ Status: &extv1.CustomResourceSubresourceStatus{}, }, }",  -- mkVersion: name, served, storage := vr.referenceable, deprecated := vr.deprecated.getD false, deprecationWarning, columns := vr.columns, schema from Xp.Gen.xcrdBaseProps (genSchema), statusSubresource := true
  "s, err := parseSchema(vr.Schema)",  -- genVersion: match vr.schema (parseSchema: SchemaIn)
  "if err != nil",  -- genVersion: | .bad
  "return nil, errors.Wrapf(err, errParseValidation)",  -- genVersion: .error .parseSchema
  "end",
  "if s == nil",  -- genVersion: | .absent
  "return nil, errors.New(errCustomResourceValidationNil)",  -- genVersion: .error .nilValidation
  "end",
  "crdv.Schema.OpenAPIV3Schema.Description = s.Description",  -- genSchema: description := s.description
  "maxLength := maxNameLength",  -- nameMaxLength: | none => maxNameLength
  "if old := s.Properties[\"metadata\"].Properties[\"name\"].MaxLength; old != nil && *old < maxLength",  -- nameMaxLength: | some old => if old < maxNameLength
  "maxLength = *old",  -- nameMaxLength: then old
  "end",
  "xName := crdv.Schema.OpenAPIV3Schema.Properties[\"metadata\"].Properties[\"name\"]",  -- genMetadata: prop (prop base "metadata") "name"
  "xName.MaxLength = ptr.To(maxLength)",  -- genMetadata: maxLength := some (nameMaxLength s maxNameLength)
  "xName.Type = \"string\"",  -- genMetadata: type := "string"
  "xMetaData := crdv.Schema.OpenAPIV3Schema.Properties[\"metadata\"]",  -- genMetadata: prop base "metadata"
  "xMetaData.Properties = map[string]extv1.JSONSchemaProps{\"name\": xName}",  -- genMetadata: props := [("name", xName)]
  "crdv.Schema.OpenAPIV3Schema.Properties[\"metadata\"] = xMetaData",  -- genSchema: setKey "metadata" (genMetadata …) base.props
  "xSpec := s.Properties[\"spec\"]",  -- genSpec: xSpec := prop s "spec"
  "cSpec := crdv.Schema.OpenAPIV3Schema.Properties[\"spec\"]",  -- genSpec: cSpec := prop base "spec"
  "cSpec.Required = append(cSpec.Required, xSpec.Required...)",  -- genSpec: required := cSpec.required ++ xSpec.required
  "cSpec.XPreserveUnknownFields = xSpec.XPreserveUnknownFields",  -- genSpec: preserveUnknown := xSpec.preserveUnknown
  "cSpec.XValidations = append(cSpec.XValidations, xSpec.XValidations...)",  -- genSpec: xValidations := cSpec.xValidations ++ xSpec.xValidations
  "cSpec.OneOf = append(cSpec.OneOf, xSpec.OneOf...)",  -- genSpec: oneOf := cSpec.oneOf ++ xSpec.oneOf
  "cSpec.Description = xSpec.Description",  -- genSpec: description := xSpec.description
  "for k, v := range xSpec.Properties",  -- genSpec: props := setAll cSpec.props xSpec.props
  "cSpec.Properties[k] = v",  -- genSpec: setAll = fold of setKey
  "end",
  "crdv.Schema.OpenAPIV3Schema.Properties[\"spec\"] = cSpec",  -- genSchema: setKey "spec" (genSpec base s)
  "xStatus := s.Properties[\"status\"]",  -- genStatus: xStatus := prop s "status"
  "cStatus := crdv.Schema.OpenAPIV3Schema.Properties[\"status\"]",  -- genStatus: cStatus := prop base "status"
  "cStatus.Required = xStatus.Required",  -- genStatus: required := xStatus.required
  "cStatus.XValidations = xStatus.XValidations",  -- genStatus: xValidations := xStatus.xValidations
  "cStatus.Description = xStatus.Description",  -- genStatus: description := xStatus.description
  "cStatus.OneOf = xStatus.OneOf",  -- genStatus: oneOf := xStatus.oneOf
  "for k, v := range xStatus.Properties",  -- genStatus: setAll cStatus.props xStatus.props (author's first)
  "cStatus.Properties[k] = v",  -- genStatus: setAll = fold of setKey
  "end",
  "for k, v := range CompositeResourceStatusProps()",  -- genStatus: setAll (…) Xp.Gen.xcrdStatusProps (machinery LAST: machinery_intact_status)
  "cStatus.Properties[k] = v",  -- genStatus: setAll = fold of setKey
  "end",
  "crdv.Schema.OpenAPIV3Schema.Properties[\"status\"] = cStatus",  -- genSchema: setKey "status" (genStatus base s)
  "return &crdv, nil"]  -- genVersion: .ok (mkVersion vr s maxNameLength)


/-- the statements of `parseSchema` (internal/xcrd/crd.go) that the definitions above mirror, one entry per
statement with the model step that mirrors it (Props/C11: skeleton obligations against the list
regenerated from the current tree) -/
def skelParseSchema : List String := [
  "func parseSchema(v *v1.CompositeResourceValidation) (*extv1.JSONSchemaProps, error)",  -- SchemaIn (the result of parseSchema is the model's input)
  "if v == nil",  -- SchemaIn.absent
  "return nil, nil",  -- SchemaIn.absent (genVersion turns it into .nilValidation)
  "end",
  "s := &extv1.JSONSchemaProps{}",  -- a fresh decode target per call: the model is per version (state carried over shows as a difference)
  "if err := json.Unmarshal(v.OpenAPIV3Schema.Raw, s); err != nil",  -- not modelled: encoding/json into extv1.JSONSchemaProps (oracle: the harness hands the model the decoded schema)
  "return nil, errors.Wrap(err, errParseValidation)",  -- SchemaIn.bad
  "end",
  "return s, nil"]  -- SchemaIn.ok s


/-! ### what genCrdVersion READS of the author's schema

Of the author's document only these fields are read: the top-level description; of the `spec`
node required, x-kubernetes-preserve-unknown-fields, x-kubernetes-validations, oneOf, description
and properties; of the `status` node required, x-kubernetes-validations, oneOf, description and
properties; and `metadata.name.maxLength`. Everything else the author writes at those levels
(type, default, enum, anyOf / allOf / not, additionalProperties, nullable, status
preserve-unknown-fields, further top-level properties and keywords, ...) is dropped:
`readSchema` is that projection and Props/C11 `author_read_exactly` states that the derivation
cannot tell a schema from its projection. -/

def readSpec (x : Schema) : Schema :=
  { required := x.required, preserveUnknown := x.preserveUnknown, xValidations := x.xValidations,
    oneOf := x.oneOf, description := x.description, props := x.props }

def readStatus (x : Schema) : Schema :=
  { required := x.required, xValidations := x.xValidations, oneOf := x.oneOf,
    description := x.description, props := x.props }

def readSchema (s : Schema) : Schema :=
  { description := s.description,
    props := [("spec", readSpec (prop s "spec")), ("status", readStatus (prop s "status")),
              ("metadata", { props := [("name", { maxLength := (prop (prop s "metadata") "name").maxLength })] })] }

def Version.read (v : Version) : Version :=
  { v with schema := match v.schema with
                     | .ok s => .ok (readSchema s)
                     | .absent => .absent
                     | .bad => .bad }

/-! ### ForCompositeResource / ForCompositeResourceClaim -/

/-- `cup.Default = &extv1.JSON{Raw: "\"<policy>\""}` when the XRD sets a default policy -/
def applyDefault (policy : Option String) (s : Schema) : Schema :=
  match policy with
  | none => s
  | some p => { s with default := some ("\"" ++ p ++ "\"") }

/-- `cup := props[key]; cup.Default = ...; props[key] = cup` (only when a default policy is set) -/
def withDefault (key : String) (policy : Option String) (table : List (String × Schema)) : List (String × Schema) :=
  match policy with
  | none => table
  | some _ => setKey key (applyDefault policy ((lookup key table).getD {})) table

def xrSpecMachinery (xrd : Xrd) : List (String × Schema) :=
  withDefault "compositionUpdatePolicy" xrd.defaultCompositionUpdatePolicy Xp.Gen.xcrdSpecPropsXR

def claimSpecMachinery (xrd : Xrd) : List (String × Schema) :=
  withDefault "compositeDeletePolicy" xrd.defaultCompositeDeletePolicy Xp.Gen.xcrdSpecPropsClaim

/-- `crdv.Schema.OpenAPIV3Schema.Properties["spec"].Properties[k] = v` for every machinery property -/
def writeSpecProps (root : Schema) (mach : List (String × Schema)) : Schema :=
  let spec := prop root "spec"
  { root with props := setKey "spec" { spec with props := setAll spec.props mach } root.props }

/-- loop body of the For* functions -/
def decorate (cv : CrdVersion) (columns : List String) (mach : List (String × Schema)) : CrdVersion :=
  { cv with columns := cv.columns ++ columns, schema := writeSpecProps cv.schema mach }

/-- the version loop: the first failing version aborts -/
def genVersions (vs : List Version) (maxNameLength : Int) (columns : List String) (mach : List (String × Schema)) :
    Except Err (List CrdVersion) :=
  match vs with
  | [] => .ok []
  | vr :: rest =>
    match genVersion vr maxNameLength with
    | .error e => .error e
    | .ok cv =>
      match genVersions rest maxNameLength columns mach with
      | .error e => .error e
      | .ok cvs => .ok (decorate cv columns mach :: cvs)

/-- setCrdMetadata: XRD labels overlaid with spec.metadata.labels -/
def crdLabels (xrd : Xrd) : List (String × String) := setAll xrd.labels xrd.metaLabels

/-- the statements of `setCrdMetadata` (internal/xcrd/crd.go) that the definitions above mirror, one entry per
statement with the model step that mirrors it (Props/C11: skeleton obligations against the list
regenerated from the current tree) -/
def skelSetCrdMetadata : List String := [
  "func setCrdMetadata(crd *extv1.CustomResourceDefinition, xrd *v1.CompositeResourceDefinition) *extv1.CustomResourceDefinition",  -- crdLabels / Crd.annotations
  "crd.SetLabels(xrd.GetLabels())",  -- crdLabels: setAll xrd.labels … (starts from the XRD's own labels)
  "if xrd.Spec.Metadata != nil",  -- Xrd.metaLabels / metaAnnotations are [] without spec.metadata (driver: hasMeta)
  "if xrd.Spec.Metadata.Labels != nil",  -- nil and empty spec.metadata.labels are not distinguished (setAll m [] = m)
  "inheritedLabels := crd.GetLabels()",  -- crdLabels: the map set at 1
  "if inheritedLabels == nil",  -- nil map = []
  "inheritedLabels = map[string]string{}",  -- nil map = []
  "end",
  "for k, v := range xrd.Spec.Metadata.Labels",  -- crdLabels: setAll xrd.labels xrd.metaLabels (spec.metadata.labels win: labels_propagated)
  "inheritedLabels[k] = v",  -- setAll = fold of setKey
  "end",
  "crd.SetLabels(inheritedLabels)",  -- forXR / forClaim: labels := crdLabels xrd
  "end",
  "if xrd.Spec.Metadata.Annotations != nil",  -- nil and empty are not distinguished
  "crd.SetAnnotations(xrd.Spec.Metadata.Annotations)",  -- forXR / forClaim: annotations := xrd.metaAnnotations (the XRD's own annotations are not propagated)
  "end",
  "end",
  "return crd"]  -- return value unused by the callers


def controllerRef (xrd : Xrd) : OwnerRef :=
  { apiVersion := Xp.Gen.xrdApiVersion, kind := Xp.Gen.xrdKind, name := xrd.name, uid := xrd.uid,
    controller := true, blockOwnerDeletion := true }

def forXR (xrd : Xrd) : Except Err Crd :=
  match genVersions xrd.versions Xp.Gen.xcrdMaxNameLengthXR Xp.Gen.xcrdPrinterColumnsXR (xrSpecMachinery xrd) with
  | .error e => .error e
  | .ok vs => .ok {
      name := xrd.name
      labels := crdLabels xrd
      annotations := xrd.metaAnnotations
      owners := [controllerRef xrd]
      scope := "Cluster"
      group := xrd.group
      names := { xrd.names with categories := xrd.names.categories ++ [Xp.Gen.categoryComposite] }
      versions := vs
      conversion := xrd.conversion }

/-- the statements of `ForCompositeResource` (internal/xcrd/crd.go) that the definitions above mirror, one entry per
statement with the model step that mirrors it (Props/C11: skeleton obligations against the list
regenerated from the current tree) -/
def skelForCompositeResource : List String := [
  "func ForCompositeResource(xrd *v1.CompositeResourceDefinition) (*extv1.CustomResourceDefinition, error)",  -- forXR : Xrd → Except Err Crd
  "crd := &extv1.CustomResourceDefinition{ Spec: extv1.CustomResourceDefinitionSpec{ Scope: extv1.ClusterScoped, Group: xrd.Spec.Group, Names: xrd.Spec.Names, Versions: make([]extv1.CustomResourceDefinitionVersion, len(xrd.Spec.Versions)), Conversion: xrd.Spec.Conversion, }, }",  -- forXR: scope := "Cluster", group, names := xrd.names, versions (one per XRD version: genVersions), conversion
  "crd.SetName(xrd.GetName())",  -- forXR: name := xrd.name
  "setCrdMetadata(crd, xrd)",  -- forXR: labels := crdLabels xrd, annotations := xrd.metaAnnotations (setCrdMetadata)
  "crd.SetOwnerReferences([]metav1.OwnerReference{meta.AsController( meta.TypedReferenceTo(xrd, v1.CompositeResourceDefinitionGroupVersionKind), )})",  -- forXR: owners := [controllerRef xrd] (meta.AsController / TypedReferenceTo are crossplane-runtime: compared by correspondence)
  "crd.Spec.Names.Categories = append(crd.Spec.Names.Categories, CategoryComposite)",  -- forXR: categories := xrd.names.categories ++ [categoryComposite]
  "const maxCompositeNameLength = 63",  -- Xp.Gen.xcrdMaxNameLengthXR (probed by the dumper; obligation name_limit)
  "for i, vr := range xrd.Spec.Versions",  -- genVersions: recursion over xrd.versions
  "crdv, err := genCrdVersion(vr, maxCompositeNameLength)",  -- genVersions: genVersion vr maxNameLength
  "if err != nil",  -- genVersions: | .error e => .error e (the first failing version aborts)
  "return nil, errors.Wrapf(err, errFmtGenCrd, \"Composite Resource\", xrd.Name)",  -- Err (wrapping text not modelled; class compared)
  "end",
  "crdv.AdditionalPrinterColumns = append(crdv.AdditionalPrinterColumns, CompositeResourcePrinterColumns()...)",  -- decorate: columns := cv.columns ++ columns (author's first, machinery's last)
  "props := CompositeResourceSpecProps()",  -- xrSpecMachinery: Xp.Gen.xcrdSpecPropsXR (a fresh table per version)
  "if xrd.Spec.DefaultCompositionUpdatePolicy != nil",  -- withDefault: | some _
  "cup := props[\"compositionUpdatePolicy\"]",  -- withDefault: (lookup key table).getD {}
  "cup.Default = &extv1.JSON{Raw: []byte(fmt.Sprintf(\"\\\"%s\\\"\", *xrd.Spec.DefaultCompositionUpdatePolicy))}",  -- applyDefault: default := some ("\"" ++ p ++ "\"")
  "props[\"compositionUpdatePolicy\"] = cup",  -- withDefault: setKey key … table
  "end",
  "for k, v := range props",  -- writeSpecProps: setAll spec.props mach (machinery written LAST: machinery_intact)
  "crdv.Schema.OpenAPIV3Schema.Properties[\"spec\"].Properties[k] = v",  -- writeSpecProps: setKey "spec" { spec with props := … }
  "end",
  "crd.Spec.Versions[i] = *crdv",  -- genVersions: decorate cv columns mach :: cvs
  "end",
  "return crd, nil"]  -- forXR: .ok { … }


def validateClaimNames (d : Xrd) : Except Err Names :=
  match d.claimNames with
  | none => .error .missingClaimNames
  | some c =>
    if c.kind = d.names.kind then .error (.conflictingClaimName c.kind)
    else if c.plural = d.names.plural then .error (.conflictingClaimName c.plural)
    else if c.singular ≠ "" ∧ c.singular = d.names.singular then .error (.conflictingClaimName c.singular)
    else if c.listKind ≠ "" ∧ c.listKind = d.names.listKind then .error (.conflictingClaimName c.listKind)
    else .ok c

/-- the statements of `validateClaimNames` (internal/xcrd/crd.go) that the definitions above mirror, one entry per
statement with the model step that mirrors it (Props/C11: skeleton obligations against the list
regenerated from the current tree) -/
def skelValidateClaimNames : List String := [
  "func validateClaimNames(d *v1.CompositeResourceDefinition) error",  -- validateClaimNames : Xrd → Except Err Names
  "if d.Spec.ClaimNames == nil",  -- | none
  "return errors.New(errMissingClaimNames)",  -- .error .missingClaimNames
  "end",
  "if n := d.Spec.ClaimNames.Kind; n == d.Spec.Names.Kind",  -- if c.kind = d.names.kind
  "return errors.Errorf(errFmtConflictingClaimName, n)",  -- .error (.conflictingClaimName c.kind)
  "end",
  "if n := d.Spec.ClaimNames.Plural; n == d.Spec.Names.Plural",  -- else if c.plural = d.names.plural
  "return errors.Errorf(errFmtConflictingClaimName, n)",  -- .error (.conflictingClaimName c.plural)
  "end",
  "if n := d.Spec.ClaimNames.Singular; n != \"\" && n == d.Spec.Names.Singular",  -- else if c.singular ≠ "" ∧ c.singular = d.names.singular
  "return errors.Errorf(errFmtConflictingClaimName, n)",  -- .error (.conflictingClaimName c.singular)
  "end",
  "if n := d.Spec.ClaimNames.ListKind; n != \"\" && n == d.Spec.Names.ListKind",  -- else if c.listKind ≠ "" ∧ c.listKind = d.names.listKind
  "return errors.Errorf(errFmtConflictingClaimName, n)",  -- .error (.conflictingClaimName c.listKind)
  "end",
  "return nil"]  -- else .ok c


def forClaim (xrd : Xrd) : Except Err Crd :=
  match validateClaimNames xrd with
  | .error e => .error e
  | .ok c =>
    match genVersions xrd.versions Xp.Gen.xcrdMaxNameLengthClaim Xp.Gen.xcrdPrinterColumnsClaim (claimSpecMachinery xrd) with
    | .error e => .error e
    | .ok vs => .ok {
        name := c.plural ++ "." ++ xrd.group
        labels := crdLabels xrd
        annotations := xrd.metaAnnotations
        owners := [controllerRef xrd]
        scope := "Namespaced"
        group := xrd.group
        names := { c with categories := c.categories ++ [Xp.Gen.categoryClaim] }
        versions := vs
        conversion := xrd.conversion }

/-- the statements of `ForCompositeResourceClaim` (internal/xcrd/crd.go) that the definitions above mirror, one entry per
statement with the model step that mirrors it (Props/C11: skeleton obligations against the list
regenerated from the current tree) -/
def skelForCompositeResourceClaim : List String := [
  "func ForCompositeResourceClaim(xrd *v1.CompositeResourceDefinition) (*extv1.CustomResourceDefinition, error)",  -- forClaim : Xrd → Except Err Crd
  "if err := validateClaimNames(xrd); err != nil",  -- forClaim: match validateClaimNames xrd
  "return nil, errors.Wrap(err, errInvalidClaimNames)",  -- forClaim: | .error e => .error e
  "end",
  "crd := &extv1.CustomResourceDefinition{ Spec: extv1.CustomResourceDefinitionSpec{ Scope: extv1.NamespaceScoped, Group: xrd.Spec.Group, Names: *xrd.Spec.ClaimNames, Versions: make([]extv1.CustomResourceDefinitionVersion, len(xrd.Spec.Versions)), Conversion: xrd.Spec.Conversion, }, }",  -- forClaim: scope := "Namespaced", group, names := c (the claim names), versions, conversion
  "crd.SetName(xrd.Spec.ClaimNames.Plural + \".\" + xrd.Spec.Group)",  -- forClaim: name := c.plural ++ "." ++ xrd.group
  "setCrdMetadata(crd, xrd)",  -- forClaim: labels := crdLabels xrd, annotations := xrd.metaAnnotations
  "crd.SetOwnerReferences([]metav1.OwnerReference{meta.AsController( meta.TypedReferenceTo(xrd, v1.CompositeResourceDefinitionGroupVersionKind), )})",  -- forClaim: owners := [controllerRef xrd]
  "crd.Spec.Names.Categories = append(crd.Spec.Names.Categories, CategoryClaim)",  -- forClaim: categories := c.categories ++ [categoryClaim]
  "const maxClaimNameLength = 63",  -- Xp.Gen.xcrdMaxNameLengthClaim (probed; obligation name_limit)
  "for i, vr := range xrd.Spec.Versions",  -- genVersions: recursion over xrd.versions
  "crdv, err := genCrdVersion(vr, maxClaimNameLength)",  -- genVersions: genVersion vr maxNameLength
  "if err != nil",  -- genVersions: | .error e => .error e
  "return nil, errors.Wrapf(err, errFmtGenCrd, \"Composite Resource Claim\", xrd.Name)",  -- Err (wrapping text not modelled; class compared)
  "end",
  "crdv.AdditionalPrinterColumns = append(crdv.AdditionalPrinterColumns, CompositeResourceClaimPrinterColumns()...)",  -- decorate: columns := cv.columns ++ columns
  "props := CompositeResourceClaimSpecProps()",  -- claimSpecMachinery: Xp.Gen.xcrdSpecPropsClaim
  "if xrd.Spec.DefaultCompositeDeletePolicy != nil",  -- withDefault: | some _
  "cdp := props[\"compositeDeletePolicy\"]",  -- withDefault: (lookup key table).getD {}
  "cdp.Default = &extv1.JSON{Raw: []byte(fmt.Sprintf(\"\\\"%s\\\"\", *xrd.Spec.DefaultCompositeDeletePolicy))}",  -- applyDefault
  "props[\"compositeDeletePolicy\"] = cdp",  -- withDefault: setKey key … table
  "end",
  "for k, v := range props",  -- writeSpecProps: setAll spec.props mach
  "crdv.Schema.OpenAPIV3Schema.Properties[\"spec\"].Properties[k] = v",  -- writeSpecProps: setKey "spec" …
  "end",
  "crd.Spec.Versions[i] = *crdv",  -- genVersions: decorate cv columns mach :: cvs
  "end",
  "return crd, nil"]  -- forClaim: .ok { … }


/-! ### Validate / ValidateUpdate (field paths of the errors, in order) -/

def validateConversion (c : Xrd) : List String :=
  match c.conversion with
  | some conv =>
    if conv.strategy = "Webhook" ∧ (conv.hasWebhook = false ∨ conv.hasClientConfig = false)
    then ["spec.conversion.webhook"] else []
  | none => []

def validate (c : Xrd) : List String := validateConversion c

def validateUpdate (c old : Xrd) : List String :=
  (if c.group ≠ old.group then ["spec.group"] else []) ++
  (if c.names.plural ≠ old.names.plural then ["spec.names.plural"] else []) ++
  (if c.names.kind ≠ old.names.kind then ["spec.names.kind"] else []) ++
  (match c.claimNames, old.claimNames with
   | some cn, some on =>
     (if cn.plural ≠ on.plural then ["spec.claimNames.plural"] else []) ++
     (if cn.kind ≠ on.kind then ["spec.claimNames.kind"] else [])
   | _, _ => []) ++
  validate c

/-- the statements of `Validate / validateConversion / ValidateUpdate` (apis/apiextensions/v1/xrd_validation.go) that the definitions above mirror, one entry per
statement with the model step that mirrors it (Props/C11: skeleton obligations against the list
regenerated from the current tree) -/
def skelValidate : List String := [
  "func (c *CompositeResourceDefinition) Validate() (warns []string, errs field.ErrorList)",  -- validate : Xrd → List String (field paths of the errors; warnings are always nil)
  "type validationFunc func() field.ErrorList",
  "validations := []validationFunc{ c.validateConversion, }",  -- validate := validateConversion (the only entry)
  "for _, f := range validations",
  "errs = append(errs, f()...)",  -- validate
  "end",
  "return nil, errs"]  -- validate


def skelValidateConversion : List String := [
  "func (c *CompositeResourceDefinition) validateConversion() (errs field.ErrorList)",  -- validateConversion
  "if conv := c.Spec.Conversion; conv != nil && conv.Strategy == extv1.WebhookConverter && (conv.Webhook == nil || conv.Webhook.ClientConfig == nil)",  -- | some conv => if conv.strategy = "Webhook" ∧ (conv.hasWebhook = false ∨ conv.hasClientConfig = false)
  "errs = append(errs, field.Required(field.NewPath(\"spec\", \"conversion\", \"webhook\"), fmt.Sprintf(\"webhook configuration is required when conversion strategy is %q\", extv1.WebhookConverter)))",  -- ["spec.conversion.webhook"]
  "end",
  "return errs"]  -- else [] / | none => []


def skelValidateUpdate : List String := [
  "func (c *CompositeResourceDefinition) ValidateUpdate(old *CompositeResourceDefinition) (warns []string, errs field.ErrorList)",  -- validateUpdate (c old : Xrd) : List String
  "if c.Spec.Group != old.Spec.Group",  -- if c.group ≠ old.group
  "errs = append(errs, field.Invalid(field.NewPath(\"spec\", \"group\"), c.Spec.Group, \"field is immutable\"))",  -- ["spec.group"]
  "end",
  "if c.Spec.Names.Plural != old.Spec.Names.Plural",  -- if c.names.plural ≠ old.names.plural
  "errs = append(errs, field.Invalid(field.NewPath(\"spec\", \"names\", \"plural\"), c.Spec.Names.Plural, \"field is immutable\"))",  -- ["spec.names.plural"]
  "end",
  "if c.Spec.Names.Kind != old.Spec.Names.Kind",  -- if c.names.kind ≠ old.names.kind
  "errs = append(errs, field.Invalid(field.NewPath(\"spec\", \"names\", \"kind\"), c.Spec.Names.Kind, \"field is immutable\"))",  -- ["spec.names.kind"]
  "end",
  "if c.Spec.ClaimNames != nil && old.Spec.ClaimNames != nil",  -- | some cn, some on
  "if c.Spec.ClaimNames.Plural != old.Spec.ClaimNames.Plural",  -- if cn.plural ≠ on.plural
  "errs = append(errs, field.Invalid(field.NewPath(\"spec\", \"claimNames\", \"plural\"), c.Spec.ClaimNames.Plural, \"field is immutable\"))",  -- ["spec.claimNames.plural"]
  "end",
  "if c.Spec.ClaimNames.Kind != old.Spec.ClaimNames.Kind",  -- if cn.kind ≠ on.kind
  "errs = append(errs, field.Invalid(field.NewPath(\"spec\", \"claimNames\", \"kind\"), c.Spec.ClaimNames.Kind, \"field is immutable\"))",  -- ["spec.claimNames.kind"]
  "end",
  "end",
  "warns, newErr := c.Validate()",  -- ++ validate c
  "errs = append(errs, newErr...)",  -- ++ validate c
  "return warns, errs"]  -- the list of field paths


/-! ### the webhook's decision (handler.go) -/

inductive Admission where
  | allowed
  | invalid (fields : List String)      -- Validate / ValidateUpdate errors
  | crdError (which : String) (e : Err) -- getAllCRDsForXRD failed ("xr" / "claim")
  | rejectedByServer (which : String)   -- the dry-run of a generated CRD was refused
  deriving DecidableEq, Repr

/-- getAllCRDsForXRD: the XR CRD, and the claim CRD iff claim names are set -/
def allCrds (xrd : Xrd) : Except (String × Err) (List (String × Crd)) :=
  match forXR xrd with
  | .error e => .error ("xr", e)
  | .ok x =>
    match xrd.claimNames with
    | none => .ok [("xr", x)]
    | some _ =>
      match forClaim xrd with
      | .error e => .error ("claim", e)
      | .ok c => .ok [("xr", x), ("claim", c)]

/-- the statements of `getAllCRDsForXRD` (internal/validation/apiextensions/v1/xrd/handler.go) that the definitions above mirror, one entry per
statement with the model step that mirrors it (Props/C11: skeleton obligations against the list
regenerated from the current tree) -/
def skelGetAllCRDsForXRD : List String := [
  "func getAllCRDsForXRD(in *v1.CompositeResourceDefinition) (out []*apiextv1.CustomResourceDefinition, err error)",  -- allCrds : Xrd → Except (String × Err) (List (String × Crd))
  "crd, err := xcrd.ForCompositeResource(in)",  -- match forXR xrd
  "if err != nil",  -- | .error e
  "return out, xperrors.Wrap(err, \"cannot get CRD for Composite Resource\")",  -- .error ("xr", e)
  "end",
  "out = append(out, crd)",  -- ("xr", x) ::
  "if in.Spec.ClaimNames == nil",  -- match xrd.claimNames | none
  "return out, nil",  -- .ok [("xr", x)]
  "end",
  "crdClaim, err := xcrd.ForCompositeResourceClaim(in)",  -- match forClaim xrd
  "if err != nil",  -- | .error e
  "return out, xperrors.Wrap(err, \"cannot get Claim CRD for Composite Claim\")",  -- .error ("claim", e)
  "end",
  "out = append(out, crdClaim)",  -- [("xr", x), ("claim", c)]
  "return out, nil"]  -- .ok …


/-- the dry-run loop; `server` is the API server's verdict on a generated CRD (an input) -/
def dryRun (server : Crd → Bool) : List (String × Crd) → Admission
  | [] => .allowed
  | (w, c) :: rest => if server c then dryRun server rest else .rejectedByServer w

def admission (errs : List String) (xrd : Xrd) (server : Crd → Bool) : Admission :=
  if errs ≠ [] then .invalid errs else
  match allCrds xrd with
  | .error (w, e) => .crdError w e
  | .ok crds => dryRun server crds

def admissionCreate (xrd : Xrd) (server : Crd → Bool) : Admission := admission (validate xrd) xrd server
def admissionUpdate (new old : Xrd) (server : Crd → Bool) : Admission := admission (validateUpdate new old) new server

/-! ### position-wise relation between the XRD's versions and the CRD's versions (for statements) -/

/-- `Zip R as bs`: the lists have equal length and `R` relates the elements at every position -/
inductive Zip (R : α → β → Prop) : List α → List β → Prop
  | nil : Zip R [] []
  | cons {a b as bs} : R a b → Zip R as bs → Zip R (a :: as) (b :: bs)

/-! ### the two derivations under one name (so that each theorem is stated once for both CRDs) -/

inductive Which where
  | xr | claim
  deriving DecidableEq, Repr

def derive : Which → Xrd → Except Err Crd
  | .xr => forXR
  | .claim => forClaim

/-- the machinery spec table of the current tree -/
def tableOf : Which → List (String × Schema)
  | .xr => Xp.Gen.xcrdSpecPropsXR
  | .claim => Xp.Gen.xcrdSpecPropsClaim

/-- the one machinery property whose `default` an XRD may set, and the XRD's setting -/
def policyKey : Which → String
  | .xr => "compositionUpdatePolicy"
  | .claim => "compositeDeletePolicy"

def policyOf : Which → Xrd → Option String
  | .xr, d => d.defaultCompositionUpdatePolicy
  | .claim, d => d.defaultCompositeDeletePolicy

def machineryOf : Which → Xrd → List (String × Schema)
  | .xr, d => xrSpecMachinery d
  | .claim, d => claimSpecMachinery d

def columnsOf : Which → List String
  | .xr => Xp.Gen.xcrdPrinterColumnsXR
  | .claim => Xp.Gen.xcrdPrinterColumnsClaim

def maxNameLengthOf : Which → Int
  | .xr => Xp.Gen.xcrdMaxNameLengthXR
  | .claim => Xp.Gen.xcrdMaxNameLengthClaim

/-- the four corresponding name fields validateClaimNames compares -/
def claimNamesCollide (c n : Names) : Prop :=
  c.kind = n.kind ∨ c.plural = n.plural ∨ (c.singular ≠ "" ∧ c.singular = n.singular) ∨ (c.listKind ≠ "" ∧ c.listKind = n.listKind)

/-! ### shape of a machinery table (used to state what "standard schema" means independently of the table) -/

/-- (key, type, required, property names) of every entry -/
def shape (t : List (String × Schema)) : List (String × String × List String × List String) :=
  t.map fun (k, s) => (k, s.type, s.required, keys s.props)

/-! ### the reconcile step that WRITES a derived CRD (definition / offered reconciler)

`r.client.Apply(ctx, crd, MustBeControllableBy(uid))` with the reconcilers' own
`NewClientApplicator` = `resource.NewAPIUpdatingApplicator`: Get, then Create if there is
no CRD, else Update of the rendered object carrying the stored resourceVersion. An Update
REPLACES labels, annotations, owner references and spec (the status subresource is kept by
the server). `stored` is the XRD's own CRD as an earlier reconcile left it. -/

/-- the API server's Update of the main resource: the submitted object replaces the stored one -/
def serverUpdate (_stored desired : Crd) : Crd := desired

/-- what an RFC 7386 merge patch of the rendered object would leave instead (NOT what the code
does; kept to show that `reconcile_stores_derived` distinguishes the two): absent optional
fields keep the stored value, maps are merged, lists replaced -/
def serverMergePatch (stored desired : Crd) : Crd :=
  { desired with
    labels := setAll stored.labels desired.labels
    annotations := setAll stored.annotations desired.annotations
    conversion := match desired.conversion with | some c => some c | none => stored.conversion
    names := { desired.names with
      singular := if desired.names.singular = "" then stored.names.singular else desired.names.singular
      listKind := if desired.names.listKind = "" then stored.names.listKind else desired.names.listKind
      shortNames := if desired.names.shortNames = [] then stored.names.shortNames else desired.names.shortNames } }

/-- one successful pass of the definition (`.xr`) / offered (`.claim`) reconciler over the CRD -/
def reconcileStep (w : Which) (xrd : Xrd) (stored : Option Crd) : Except Err Crd :=
  match derive w xrd with
  | .error e => .error e
  | .ok d =>
    match stored with
    | none => .ok d
    | some s => .ok (serverUpdate s d)

/-- xcrd.IsEstablished (crd.go): the FIRST status condition of type Established decides; `conds` are the
(type, status) pairs of crd.Status.Conditions in order -/
def isEstablished : List (String × String) → Bool
  | [] => false
  | (t, s) :: rest => if t = "Established" then s == "True" else isEstablished rest

/-- the statements of `IsEstablished` (internal/xcrd/crd.go) that `isEstablished` mirrors -/
def skelIsEstablished : List String := [
  "func IsEstablished(s extv1.CustomResourceDefinitionStatus) bool",  -- isEstablished : List (String × String) → Bool
  "for _, c := range s.Conditions",  -- recursion over the conditions, in order
  "if c.Type == extv1.Established",  -- if t = "Established" (extv1.Established: obligation established_type)
  "return c.Status == extv1.ConditionTrue",  -- then s == "True" (the first one decides)
  "end",
  "end",
  "return false"]  -- | [] => false

/-- what the definition / offered reconciler answers after it applied the CRD without error:
`if !xcrd.IsEstablished(crd.Status) { return reconcile.Result{Requeue: true}, nil }`, else it goes on to
start the controller and finishes. `conds` is the status of the CRD as the Apply returned it (an Update
keeps the stored status, a Create starts with none). -/
def reconcileResult (conds : List (String × String)) : String :=
  if isEstablished conds then "ok" else "requeue"

/-- the calls of `(*Reconciler).Reconcile` of internal/controller/apiextensions/definition (verbs of
client.Client, Render, finalizers, engine), source order, and what `reconcileStep .xr` mirrors of them -/
def skelDefinitionReconcile : List String := [
  "client.Get",               -- not modelled: the XRD is the model's input (read once, live)
  "composite.Render",         -- reconcileStep: derive .xr xrd (NewReconciler: CRDRenderFn(xcrd.ForCompositeResource), obligation renderer_*)
  "client.Status.Update",     -- not modelled: deletion branch (C02 / C08)
  "client.Get",               -- not modelled: deletion branch
  "engine.Stop",              -- not modelled: deletion branch
  "composite.RemoveFinalizer", -- not modelled: deletion branch
  "client.DeleteAllOf",       -- not modelled: deletion branch
  "client.List",              -- not modelled: deletion branch
  "engine.Stop",              -- not modelled: deletion branch
  "client.Delete",            -- not modelled: deletion branch
  "composite.AddFinalizer",   -- not modelled: says nothing about the CRD (C02)
  "client.Apply",             -- reconcileStep: stored = none => Create d | some s => serverUpdate s d (APIUpdatingApplicator of crossplane-runtime: Get, Create | Update; MustBeControllableBy belongs to C02)
  "engine.Stop",              -- not modelled: controller engine (C02)
  "engine.IsRunning",         -- not modelled
  "client.Status.Update",     -- not modelled: XRD status
  "engine.Start",             -- not modelled
  "engine.StartWatches",      -- not modelled
  "client.Status.Update"]     -- not modelled: XRD status

/-- the same for internal/controller/apiextensions/offered and `reconcileStep .claim` -/
def skelOfferedReconcile : List String := [
  "client.Get",               -- not modelled: the XRD is the model's input
  "claim.Render",             -- reconcileStep: derive .claim xrd (NewReconciler: CRDRenderFn(xcrd.ForCompositeResourceClaim))
  "client.Status.Update",     -- not modelled: deletion branch (C02 / C08)
  "client.Get",               -- not modelled: deletion branch
  "engine.Stop",              -- not modelled: deletion branch
  "claim.RemoveFinalizer",    -- not modelled: deletion branch
  "client.List",              -- not modelled: deletion branch
  "client.Delete",            -- not modelled: deletion branch (claims one by one)
  "engine.Stop",              -- not modelled: deletion branch
  "client.Delete",            -- not modelled: deletion branch (the CRD)
  "claim.AddFinalizer",       -- not modelled
  "client.Apply",             -- reconcileStep: Create d | serverUpdate s d
  "engine.Stop",              -- not modelled
  "engine.IsRunning",         -- not modelled
  "client.Status.Update",     -- not modelled
  "engine.Start",             -- not modelled
  "engine.StartWatches",      -- not modelled
  "client.Status.Update"]     -- not modelled

/-- which derivation each reconciler is built with -/
def rendererOf : Which → List String
  | .xr => ["ForCompositeResource"]
  | .claim => ["ForCompositeResourceClaim"]

/-! ### example input used by the non-vacuity examples of Props/C11 -/

/-- an author schema that tries to shadow machinery: `spec.claimRef` and `status.conditions` as strings -/
def exSchema : Schema :=
  { type := "object", description := "A database.",
    props := [
      ("spec", { type := "object", required := ["region"], xValidations := ["{\"rule\":\"self.region != ''\"}"],
                 oneOf := ["{\"required\":[\"region\"]}"], preserveUnknown := some true,
                 props := [("region", { type := "string" }), ("claimRef", { type := "string", description := "mine" })] }),
      ("status", { type := "object", props := [("conditions", { type := "string" }), ("address", { type := "string" })] }),
      ("metadata", { type := "object", props := [("name", { maxLength := some 30 })] })] }

def exXrd : Xrd :=
  { name := "xdatabases.example.org", uid := "u1", group := "example.org",
    names := { kind := "XDatabase", plural := "xdatabases", singular := "xdatabase" },
    claimNames := some { kind := "Database", plural := "databases", singular := "database" },
    defaultCompositionUpdatePolicy := some "Manual",
    versions := [{ name := "v1alpha1", served := true, referenceable := false, schema := .ok exSchema },
                 { name := "v1", served := true, referenceable := true, schema := .ok {} }] }

end Xp.C11

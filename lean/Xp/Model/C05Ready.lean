import Xp.Model.C05
/-
C05 model: when the P&T composer counts a composed resource as ready (ready.go: IsReady,
ReadinessCheck.Validate / IsReady, ReadinessCheckFromV1).
-/
namespace Xp.C05

inductive FieldV where
  | absent
  | str (s : String)
  | int (n : Int)
  | bool (b : Bool)
  deriving DecidableEq, Repr

structure RObj where
  s : FieldV     -- status.s
  n : FieldV     -- status.n
  b : FieldV     -- status.b
  conds : List Cond
  deriving Repr

structure RCheck where
  type : String
  path : String      -- "" = unset
  ms : String        -- "" = unset (ReadinessCheckFromV1)
  mi : Int           -- 0 = unset (ReadinessCheckFromV1)
  hasCond : Bool
  ct : String
  cs : String
  deriving Repr

def RObj.field (o : RObj) (path : String) : FieldV :=
  if path = "status.s" then o.s else if path = "status.n" then o.n else if path = "status.b" then o.b else .absent

/-- one readiness check: none = an error (invalid check, or a field of the wrong type) -/
def evalCheck (o : RObj) (c : RCheck) : Option Bool :=
  if c.type = "None" then some true
  else if c.type = "NonEmpty" then
    (if c.path = "" then none else some (o.field c.path != .absent))
  else if c.type = "MatchString" then
    (if c.ms = "" || c.path = "" then none else
      match o.field c.path with
      | .absent => some false
      | .str s => some (s == c.ms)
      | _ => none)
  else if c.type = "MatchInteger" then
    (if c.mi = 0 || c.path = "" then none else
      match o.field c.path with
      | .absent => some false
      | .int n => some (n == c.mi)
      | _ => none)
  else if c.type = "MatchTrue" || c.type = "MatchFalse" then
    (if c.path = "" then none else
      match o.field c.path with
      | .absent => some false
      | .bool b => some (b == (c.type == "MatchTrue"))
      | _ => none)
  else if c.type = "MatchCondition" then
    (if !c.hasCond then none else some ((getCond o.conds c.ct).status == c.cs))
  else none

/-- the loop of IsReady: stops at the first check that does not hold or fails -/
def checksHold (o : RObj) : List RCheck → Option Bool
  | [] => some true
  | c :: cs =>
    match evalCheck o c with
    | none => none
    | some false => some false
    | some true => checksHold o cs

/-- composite.IsReady -/
def isReady (o : RObj) (cs : List RCheck) : Option Bool :=
  if cs.isEmpty then some (statusOf o.conds "Ready" == some "True") else checksHold o cs

end Xp.C05

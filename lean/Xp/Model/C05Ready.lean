import Xp.Model.C05
/-
C05 model: when the P&T composer counts a composed resource as ready (ready.go: IsReady,
ReadinessCheck.Validate / IsReady, ReadinessCheckFromV1).
-/
namespace Xp.C05

inductive FieldV where
  | absent
  | str (s : String)
  | int (n : Int)
  | bool (b : Bool)
  deriving DecidableEq, Repr

structure RObj where
  s : FieldV     -- status.s
  n : FieldV     -- status.n
  b : FieldV     -- status.b
  conds : List Cond
  deriving Repr

structure RCheck where
  type : String
  path : String      -- "" = unset
  ms : String        -- "" = unset (ReadinessCheckFromV1)
  mi : Int           -- 0 = unset (ReadinessCheckFromV1)
  hasCond : Bool
  ct : String
  cs : String
  deriving Repr

def RObj.field (o : RObj) (path : String) : FieldV :=
  if path = "status.s" then o.s else if path = "status.n" then o.n else if path = "status.b" then o.b else .absent

/-- one readiness check: none = an error (invalid check, or a field of the wrong type) -/
def evalCheck (o : RObj) (c : RCheck) : Option Bool :=
  if c.type = "None" then some true
  else if c.type = "NonEmpty" then
    (if c.path = "" then none else some (o.field c.path != .absent))
  else if c.type = "MatchString" then
    (if c.ms = "" || c.path = "" then none else
      match o.field c.path with
      | .absent => some false
      | .str s => some (s == c.ms)
      | _ => none)
  else if c.type = "MatchInteger" then
    (if c.mi = 0 || c.path = "" then none else
      match o.field c.path with
      | .absent => some false
      | .int n => some (n == c.mi)
      | _ => none)
  else if c.type = "MatchTrue" || c.type = "MatchFalse" then
    (if c.path = "" then none else
      match o.field c.path with
      | .absent => some false
      | .bool b => some (b == (c.type == "MatchTrue"))
      | _ => none)
  else if c.type = "MatchCondition" then
    (if !c.hasCond then none else some ((getCond o.conds c.ct).status == c.cs))
  else none

/-- the loop of IsReady: stops at the first check that does not hold or fails -/
def checksHold (o : RObj) : List RCheck → Option Bool
  | [] => some true
  | c :: cs =>
    match evalCheck o c with
    | none => none
    | some false => some false
    | some true => checksHold o cs

/-- composite.IsReady -/
def isReady (o : RObj) (cs : List RCheck) : Option Bool :=
  if cs.isEmpty then some (statusOf o.conds "Ready" == some "True") else checksHold o cs

/-! ### declared call skeletons of ready.go (`Xp.Gen.c05Skel*` are regenerated from the source;
`skeleton_*` in Xp.Props.C05 state the equalities) -/

/-- `IsReady` (the package function): no checks => the Ready condition (isReady: `cs.isEmpty`
branch); else pave the object and run the checks in order, stopping at the first error / the first
check that does not hold (checksHold) -/
def skelIsReady : List String :=
  ["return", "resource.IsConditionTrue", "o.GetCondition",   -- isReady: statusOf o.conds "Ready" == some "True"
   "fieldpath.PaveObject", "return",                           -- not modelled: paving an unstructured object cannot fail
   "rc.IsReady",                                               -- checksHold: evalCheck o c
   "return",                                                   -- checksHold: none => none
   "return",                                                   -- checksHold: some false => some false
   "return"]                                                   -- checksHold: [] => some true

/-- `ReadinessCheck.IsReady`: Validate first (evalCheck: the `none` answers for unset fields), then
per type one lookup; a missing field is "not ready", any other lookup error (wrong type) an error -/
def skelCheckIsReady : List String :=
  ["Validate", "return",                                       -- evalCheck: invalid check => none
   "return",                                                   -- None => some true
   "p.GetValue", "return", "resource.Ignore", "return",        -- NonEmpty: field != .absent
   "p.GetString", "return", "resource.Ignore", "return",       -- MatchString: .absent => false, .str s => s == ms, other => none
   "p.GetInteger", "return", "resource.Ignore", "return",      -- MatchInteger
   "o.GetCondition", "return",                                 -- MatchCondition: (getCond o.conds ct).status == cs
   "p.GetBool", "return", "resource.Ignore", "return",         -- MatchFalse
   "p.GetBool", "return", "resource.Ignore", "return",         -- MatchTrue
   "return"]                                                   -- unreachable after Validate (unknown type)

/-- `ReadinessCheck.Validate`: None needs nothing; MatchString / MatchInteger / MatchCondition need
their operand (RCheck.ms = "" / mi = 0 / hasCond = false are "unset", see ReadinessCheckFromV1);
an unknown type is an error; every type but None and MatchCondition needs a field path -/
def skelCheckValidate : List String :=
  ["return",                                                   -- None
   "return", "errors.Errorf",                                  -- MatchString without match string
   "return", "errors.Errorf",                                  -- MatchInteger without match integer
   "return", "errors.Errorf",                                  -- MatchCondition without match condition
   "return",                                                   -- MatchCondition is valid without a field path
   "return", "errors.Errorf",                                  -- unknown type
   "return", "errors.Errorf",                                  -- field path missing
   "return"]

/-- `ReadinessCheckFromV1`: the empty string and 0 mean "unset" (RCheck.path/ms = "", mi = 0);
the third ptr.To is generic (`ptr.To[int64]`) and not a selector call -/
def skelCheckFromV1 : List String := ["return", "ptr.To", "ptr.To", "return"]

/-- `ReadinessChecksFromComposedTemplate`: one ReadinessCheckFromV1 per entry, order kept -/
def skelChecksFromTemplate : List String := ["ReadinessCheckFromV1"]

end Xp.C05

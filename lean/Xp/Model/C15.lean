import Xp.Gen.C15Tables
import Xp.Gen.C15Skel
/-
C15 model: what a package revision installs.

Mirrors, call by call,
  internal/controller/pkg/revision/reconciler.go  Reconciler.Reconcile
    (deletion, signature-verification gate, inactive shortcut, source selection
     `cache.Has ? cache.Get : backend.Init + tee into cache.Store`, Parse, wait for
     the cache write, delete-on-failure, Lint, one-meta check, Update, Crossplane
     version gate, Establish, Healthy),
  internal/xpkg/cache.go FsPackageCache (Has/Get/Store/Delete on a path derived
     from the id), internal/xpkg/reader.go (tee / gzip readers),
  internal/xpkg/lint.go (the three per-type linters; their accepted kinds are the
     tables of `Xp.Gen.C15Tables`, regenerated from the tree on every run),
  internal/controller/pkg/signature/reconciler.go Reconciler.Reconcile,
  internal/xpkg/config.go ImageConfigStore.bestMatch / ImageVerificationConfigFor.

A package stream is a `List Doc`.  Bytes, YAML, tar, gzip and OCI are libraries:
what matters of them is kept as data of the scenario / fault plan
 * a *cache entry* is either `content ds` – a gzip file that reads back cleanly
   to EOF and whose YAML stream is `ds` – or `broken hdr` – a file that cannot be
   read to EOF (truncated or corrupt gzip; `hdr` = the gzip header is intact, so
   `Get` succeeds and the failure shows while parsing);
 * a source read fault at byte `b` is `f.read = true`; the prefix it leaves behind
   (if anything keeps it) reads back as the arbitrary doc list `f.cut`;
 * a store fault (`f.store`) may or may not reach the parser (`f.seen`) and leaves
   `f.left` behind until `Delete` runs.

The model is PER CALL: `recStep` / `sigStep` are functions of the revision object the call
reads, the cache, the ImageConfigs and the fault plan of that call.  The real controllers are
long-lived (one reconciler, parser, image backend, linter, establisher per package type, one
cache – see Setup*Revision); the harness builds them once per scenario and drives every step
of a history through them, so whatever they carry from one call to the next shows as a
difference to this model.

A fault plan also fixes
 * the class of every API error the code distinguishes (`GetE`, `WErr`, `Upd`,
   `estConflict`; `err` stands for Invalid / Forbidden / AlreadyExists / a temporary
   transport error / a deadline, which the code treats alike), and
 * `env`: what a third party did to the revision object between the reconciler's read and
   its first write – equivalently how the informer cache lagged behind when the reconciler
   read.  Then every write of the reconciler to the revision is rejected with Conflict
   (`Faults.stale`), and the live object is what the third party made of it (`applyEnv`).

`fixed = true` is the code with fixes/D6.diff (the reconciler closes the pipe into
`cache.Store` with the parse error, so a failed read/parse fails the store and the
entry is deleted) and fixes/D18.diff (`teeReadCloser` keeps returning a write error).
`fixed = false` is the pinned tree: the parser's `Close` ends the copy with EOF, so
`Store` succeeds with whatever was read so far (D6), and a write error of the tee can
be overlooked by the parser (D18).
-/
namespace Xp.C15

inductive PType where
  | provider | configuration | function
  deriving DecidableEq, Repr

/-- `spec.crossplane.version` of a meta object, as judged by Masterminds/semver
against the running version (library verdicts; the harness supplies them). -/
inductive Con where
  | none | inRange | outOfRange | malformed
  deriving DecidableEq, Repr

structure Meta where
  gvk : String
  name : String
  con : Con
  deriving DecidableEq, Repr

structure Obj where
  gvk : String
  name : String
  deriving DecidableEq, Repr

/-- one YAML document of a package stream -/
inductive Doc where
  | md (m : Meta)     -- decodes with the meta scheme
  | ob (o : Obj)      -- decodes with the object scheme
  | empty             -- only comments / separators: skipped by the parser
  | bad               -- decodes with neither scheme: the parser returns an error
  deriving DecidableEq, Repr

structure Pkg where
  metas : List Meta
  objs : List Obj
  deriving DecidableEq, Repr

/-- crossplane-runtime `parser.PackageParser.Parse` on a stream that is read to EOF
without a read error (`none` = error). -/
def parse : List Doc → Option Pkg
  | [] => some ⟨[], []⟩
  | .bad :: _ => none
  | .empty :: ds => parse ds
  | .md m :: ds => (parse ds).map fun p => { p with metas := m :: p.metas }
  | .ob o :: ds => (parse ds).map fun p => { p with objs := o :: p.objs }

/-! ### linters (tables regenerated from the tree) -/

def lintObjKinds : PType → List String
  | .provider => Xp.Gen.c15ProviderObjectKinds
  | .configuration => Xp.Gen.c15ConfigurationObjectKinds
  | .function => Xp.Gen.c15FunctionObjectKinds

def lintMetaKinds : PType → List String
  | .provider => Xp.Gen.c15ProviderMetaKinds
  | .configuration => Xp.Gen.c15ConfigurationMetaKinds
  | .function => Xp.Gen.c15FunctionMetaKinds

/-- `xpkg.New{Provider,Configuration,Function}Linter().Lint`: OneMeta; every meta is
of the revision's type (`IsProvider` …) with well-formed constraints
(`PackageValidSemver`); every object is of an accepted kind. -/
def lint (t : PType) (p : Pkg) : Bool :=
  p.metas.length == 1 &&
  p.metas.all (fun m => (lintMetaKinds t).contains m.gvk && m.con != .malformed) &&
  p.objs.all (fun o => (lintObjKinds t).contains o.gvk)

/-! ### the linters as lint.go composes them (structure regenerated by go/ast)

`parser.NewPackageLinter(pre, perMeta, perObject).Lint` (crossplane-runtime) runs every
package check, then every meta check on every meta object, then every object check on every
object; `parser.Or(a, b, …)` passes when one of its members does.  Which checks each
constructor passes is `Xp.Gen.c15Lint*` (read from the source of New*Linter), what a check
accepts is `Xp.Gen.c15CheckAccepts` (the real function called on a fresh object of every
scheme kind); `PackageValidSemver` additionally looks at the constraints. -/

def lintPkgFns : PType → List String
  | .provider => Xp.Gen.c15LintProviderPkg
  | .configuration => Xp.Gen.c15LintConfigurationPkg
  | .function => Xp.Gen.c15LintFunctionPkg

def lintMetaFns : PType → List String
  | .provider => Xp.Gen.c15LintProviderMeta
  | .configuration => Xp.Gen.c15LintConfigurationMeta
  | .function => Xp.Gen.c15LintFunctionMeta

def lintObjFns : PType → List (List String)
  | .provider => Xp.Gen.c15LintProviderObj
  | .configuration => Xp.Gen.c15LintConfigurationObj
  | .function => Xp.Gen.c15LintFunctionObj

/-- the scheme kinds a check function accepts (an unknown check accepts nothing) -/
def accepts (fn : String) : List String := (Xp.Gen.c15CheckAccepts.lookup fn).getD []

/-- a package-level check: `OneMeta` (`len(pkg.GetMeta()) != 1`); any other name fails -/
def pkgCheck (fn : String) (p : Pkg) : Bool :=
  if fn == "OneMeta" then p.metas.length == 1 else false

/-- a check run on a meta object: the kind is one the function accepts; `PackageValidSemver`
also parses the constraints (`semver.NewConstraint`) -/
def metaCheck (fn : String) (m : Meta) : Bool :=
  (accepts fn).contains m.gvk && (fn != "PackageValidSemver" || m.con != .malformed)

/-- the object checks of a linter on one kind: every `ObjectLinterFn` passes, an `Or` when one member does -/
def objKindOk (t : PType) (k : String) : Bool :=
  (lintObjFns t).all fun d => d.any fun fn => (accepts fn).contains k

def metaKindOk (t : PType) (k : String) : Bool :=
  (lintMetaFns t).all fun fn => (accepts fn).contains k

/-- `xpkg.New{Provider,Configuration,Function}Linter().Lint`, computed from the structure of
the constructor -/
def lintS (t : PType) (p : Pkg) : Bool :=
  (lintPkgFns t).all (fun fn => pkgCheck fn p) &&
  p.metas.all (fun m => (lintMetaFns t).all fun fn => metaCheck fn m) &&
  p.objs.all (fun o => objKindOk t o.gvk)

/-- `xpkg.PackageCrossplaneCompatible(versioner)` on the (single) meta object. -/
def compatible (p : Pkg) : Bool :=
  p.metas.all fun m => m.con == .none || m.con == .inRange

/-! ### the package specification (contributing/specifications/xpkg.md), by hand -/

def specObjKinds : PType → List String
  | .provider => ["apiextensions.k8s.io/v1/CustomResourceDefinition",
                  "apiextensions.k8s.io/v1beta1/CustomResourceDefinition",
                  "admissionregistration.k8s.io/v1/MutatingWebhookConfiguration",
                  "admissionregistration.k8s.io/v1/ValidatingWebhookConfiguration"]
  | .configuration => ["apiextensions.crossplane.io/v1/CompositeResourceDefinition",
                       "apiextensions.crossplane.io/v1/Composition"]
  | .function => ["apiextensions.k8s.io/v1/CustomResourceDefinition",
                  "apiextensions.k8s.io/v1beta1/CustomResourceDefinition"]

def specMetaKinds : PType → List String
  | .provider => ["meta.pkg.crossplane.io/v1/Provider", "meta.pkg.crossplane.io/v1alpha1/Provider"]
  | .configuration => ["meta.pkg.crossplane.io/v1/Configuration", "meta.pkg.crossplane.io/v1alpha1/Configuration"]
  | .function => ["meta.pkg.crossplane.io/v1/Function", "meta.pkg.crossplane.io/v1beta1/Function"]

/-- "installable" as the specification words it -/
def specOK (t : PType) (p : Pkg) : Bool :=
  p.metas.length == 1 &&
  p.metas.all (fun m => (specMetaKinds t).contains m.gvk && m.con != .malformed) &&
  p.objs.all (fun o => (specObjKinds t).contains o.gvk)

/-! ### the cache -/

inductive Entry where
  | content (ds : List Doc)
  | broken (hdr : Bool)
  deriving DecidableEq, Repr

/-- `FsPackageCache`: path ↦ file.  Keys are the paths `BuildPath(dir, id, ".gz")`. -/
abbrev Cache := String → Option Entry

def Cache.empty : Cache := fun _ => none
def Cache.put (c : Cache) (k : String) (e : Entry) : Cache := fun k' => if k' = k then some e else c k'
def Cache.erase (c : Cache) (k : String) : Cache := fun k' => if k' = k then none else c k'

/-! ### the image: `ImageBackend.Init` (imageback.go) -/

/-- the `io.crossplane.xpkg` annotation of a layer descriptor: absent, `base`, another value -/
inductive Ann where
  | none | base | other
  deriving DecidableEq, Repr

/-- one layer of an OCI image: its annotation and the `package.yaml` of its tarball, if it has one -/
structure Layer where
  ann : Ann
  file : Option (List Doc)
  deriving DecidableEq, Repr

/-- `xpkg.StreamFile` (regenerated) -/
def streamFile : String := Xp.Gen.c15StreamFile

/-- the loop over the entries of the selected tarball (`t.Next()` until
`h.Name == xpkg.StreamFile`): the FIRST entry named exactly `package.yaml`; entries of any
other name – `.package.yaml`, `package.yaml.bak`, `dir/package.yaml` – are passed over -/
def tarFind : List (String × List Doc) → Option (List Doc)
  | [] => none
  | (n, ds) :: es => if n == streamFile then some ds else tarFind es

/-- a layer, given the entries of its tarball -/
def Layer.ofTar (ann : Ann) (entries : List (String × List Doc)) : Layer := ⟨ann, tarFind entries⟩

/-- `maxLayers` of imageback.go (regenerated) -/
def maxLayers : Nat := Xp.Gen.c15MaxLayersN

/-- the loop over `manifest.Layers`: layers not annotated `io.crossplane.xpkg: base` are
skipped; a second annotated layer is an error (`none`); the state is `tarc` of the annotated
layer found so far (`foundAnnotated` = `sel.isSome`) -/
def scanBase : List Layer → Option Layer → Option (Option Layer)
  | [], sel => some sel
  | l :: ls, sel =>
    if l.ann != .base then scanBase ls sel
    else if sel.isSome then none
    else scanBase ls (some l)

/-- `mutate.Extract`: the flattened file system, later layers override earlier ones -/
def flatFile (ls : List Layer) : Option (List Doc) := ls.reverse.findSome? (·.file)

/-- `ImageBackend.Init` on a fetched image: the package stream it hands to the parser
(`none`: an error – too many layers, two annotated base layers, no package.yaml in the
tarball it selected). -/
def initSel (ls : List Layer) : Option (List Doc) :=
  if ls.length > maxLayers then none
  else match scanBase ls none with
    | none => none
    | some (some l) => l.file       -- the annotated base layer only; `t.Next()` fails when it has no package.yaml
    | some none => flatFile ls

/-! ### revisions -/

structure Rev where
  ptype : PType
  key : String     -- cache path of the revision's name
  skey : String    -- cache path of the revision's source (pull policy Never)
  source : String := ""  -- spec.package, the image reference (what ImageConfig prefixes are matched against)
  layers : List Layer  -- the image the source resolves to
  never : Bool     -- packagePullPolicy: Never
  ignore : Bool    -- ignoreCrossplaneConstraints
  resolve : Bool := false  -- skipDependencyResolution is set and false: dependencies are resolved
  deriving Repr

/-- the package stream of the image the source resolves to: what `ImageBackend.Init` selects -/
def Rev.docs (r : Rev) : List Doc := (initSel r.layers).getD []
/-- `ImageBackend.Init` finds a stream -/
def Rev.imgOk (r : Rev) : Bool := (initSel r.layers).isSome

/-- the id under which this revision looks for cached content -/
def Rev.id (r : Rev) : String := if r.never then r.skey else r.key

inductive Health where
  | none | healthy | unhealthy | unknown | awaiting
  deriving DecidableEq, Repr

inductive Verif where
  | none | succeeded | skipped | failed | incomplete
  deriving DecidableEq, Repr

def Verif.isTrue : Verif → Bool
  | .succeeded | .skipped => true
  | _ => false

/-- `GetCondition(TypeHealthy).Status == Unknown` (an unset condition reads Unknown) -/
def Health.statusUnknown : Health → Bool
  | .none | .unknown => true
  | _ => false

structure RevSt where
  present : Bool := true
  deleting : Bool := false
  finalizer : Bool := false
  active : Bool := true
  health : Health := .none
  verif : Verif := .none
  refs : Nat := 0
  deriving DecidableEq, Repr

/-! ### fault plan of one revision reconcile -/

inductive Left where
  | none | nohdr | hdr | full
  deriving DecidableEq, Repr

inductive Upd where
  | ok | conflict | err
  deriving DecidableEq, Repr

/-- class of the error a write on the revision object returns (what the code branches on:
`kerrors.IsConflict`, `resource.IgnoreNotFound`); `err` stands for every other class
(Invalid, Forbidden, AlreadyExists, a temporary transport error, a deadline). -/
inductive WErr where
  | ok | conflict | notFound | err
  deriving DecidableEq, Repr

/-- the reconciler's `client.Get` of the revision: served, NotFound although the object
exists (informer cache has not seen it yet), or another error -/
inductive GetE where
  | ok | miss | err
  deriving DecidableEq, Repr

/-- What a third party (the package manager, the signature controller, a user, a
backup/restore tool) did to the revision object between the reconciler's read and its
first write.  Equivalently – the reconciler cannot tell the difference – what the informer
cache had not delivered yet when the reconciler read (a lagging cache): in both cases the
object the reconciler holds is not the live one, and every write it issues carries a
resourceVersion the API server rejects with Conflict.
 * `touch`    – a write that changes nothing the reconciler looks at (a label);
 * `wipe`     – the status subresource is lost (conditions, object references);
 * `recreate` – deleted and created again under the same name: new UID, no finalizer, no status;
 * `flip`     – spec.desiredState toggled. -/
inductive Env where
  | none | touch | wipe | recreate | flip
  deriving DecidableEq, Repr

structure Faults where
  init : Bool := false    -- backend.Init fails
  read : Bool := false    -- the source fails mid-stream (at some byte b)
  cut : List Doc := []    -- what the bytes delivered before the failure read back as (unfixed code keeps them)
  store : Bool := false   -- cache.Store fails (create / write at byte b / close)
  seen : Bool := false    -- … and the failure reaches the parser through the tee
  left : Left := .none    -- … leaving this behind until Delete runs
  lost : Option (List Doc) := none  -- unfixed tee only: the parser overlooks the write error and ends normally on this stream
  get : Bool := false     -- cache.Get fails
  del : Bool := false     -- cache.Delete fails
  upd : Upd := .ok        -- client.Update(revision)
  est : Bool := false     -- Establish fails
  estConflict : Bool := false  -- … with an error of class Conflict
  getE : GetE := .ok      -- client.Get(revision)
  fin : WErr := .ok       -- the Update issued by AddFinalizer / RemoveFinalizer
  stat : Bool := false    -- client.Status().Update(revision) fails
  env : Env := .none      -- third-party write between the read and the first write / stale cached read
  pullCfg : Bool := false -- config.PullSecretFor fails (listing ImageConfigs)
  rel : Upd := .ok        -- deactivateRevision: objects.ReleaseObjects (inactive revisions only)
  dep : Upd := .ok        -- lock.Resolve (revisions that resolve dependencies only)
  deriving Repr

/-- the object the reconciler holds is not the live one -/
def Faults.stale (f : Faults) : Bool := f.env != .none
/-- outcome of the finalizer's Update: an injected (transport / admission) error, else
Conflict when the object is stale -/
def Faults.finO (f : Faults) : WErr :=
  match f.fin with
  | .ok => if f.stale then .conflict else .ok
  | e => e
/-- outcome of the metadata Update -/
def Faults.updO (f : Faults) : Upd :=
  match f.upd with
  | .ok => if f.stale then .conflict else .ok
  | e => e
/-- a Status().Update fails -/
def Faults.statO (f : Faults) : Bool := f.stale || f.stat

/-- `pr.SetConditions(c); _ = r.client.Status().Update(ctx, pr)`: the condition is
recorded unless the status update fails (the error is ignored) -/
def setHealth (f : Faults) (st : RevSt) (h : Health) : RevSt :=
  if f.statO then st else { st with health := h }

/-- Outcome of obtaining and parsing the package. -/
inductive Fetch where
  | stop (res : String) (unhealthy : Bool)   -- returned before parsing
  | parsed (p : Option Pkg)                  -- the parser ran (`none`: it returned an error)
  deriving DecidableEq, Repr

def leftEntry (r : Rev) : Left → Option Entry
  | .none => none
  | .nohdr => some (.broken false)
  | .hdr => some (.broken true)
  | .full => some (.content r.docs)

/-- `c.set k x`: the file at path `k` becomes `x` (`none`: removed / never created). -/
def Cache.set (c : Cache) (k : String) : Option Entry → Cache
  | some e => c.put k e
  | none => c.erase k

/-- What the parser returns for the stream pulled from the image through the tee:
the parse of the whole stream, unless the source fails mid-stream or a failure of
the concurrent `cache.Store` comes back through the pipe as a read error.
Unfixed code (without fixes/D18.diff) only: `teeReadCloser` reports the write error
once; `bufio.Reader.ReadLine` (under the YAML reader) drops an error that arrives
together with a partial line, and if the source is at EOF by then the parser ends
normally on the stream `f.lost` – the bytes read while the write failed are gone. -/
def pulled (fixed : Bool) (r : Rev) (f : Faults) : Option Pkg :=
  if f.read then none
  else if f.store && f.seen then
    (if fixed then none else match f.lost with | some ds => parse ds | none => none)
  else parse r.docs

/-- The cache file under the revision's name after the tee'd pull, i.e. after
`cache.Store(pr.GetName(), pipeR)` returned and, if it returned an error,
`cache.Delete(id)` ran.
 * `Store` succeeds iff the file system does not fail and – in the fixed code – the
   pipe was not closed with the parse error; the entry then holds everything that was
   copied before the pipe was closed: the whole stream if the parser reached EOF,
   else the prefix read so far (`f.cut`).
 * Otherwise `Delete` removes what `Store` left behind (`f.left`), unless `Delete`
   fails too. -/
def storedEntry (fixed : Bool) (r : Rev) (f : Faults) : Option Entry :=
  if !f.store && ((pulled fixed r f).isSome || !fixed) then
    some (.content (if (pulled fixed r f).isSome then r.docs else f.cut))
  else if f.del then leftEntry r f.left
  else none

/-- Source selection, parsing and the cache write (reconciler.go lines 672–776). -/
def fetch (fixed : Bool) (r : Rev) (f : Faults) (c : Cache) : Cache × Fetch :=
  match c r.id with
  | some e =>
    -- r.cache.Has(id); rc, err = r.cache.Get(id)
    if f.get || e == .broken false then
      -- `_ = r.cache.Delete(id)`; return errGetCache
      ((if f.del then c else c.erase r.id), .stop "err:getcache" false)
    else
      match e with
      | .content ds => (c, .parsed (parse ds))
      | .broken _ => (c, .parsed none)          -- reading fails before EOF
  | none =>
    if r.never then (c, .stop "err:pullnever" true)
    else if f.init || !r.imgOk then (c, .stop "err:init" true)
    else
      -- backend.Init; tee of the image stream into cache.Store(pr.GetName(), pipeR); Parse;
      -- [fixed: pipeW.CloseWithError(parse error)]; <-cacheWrite; on error cache.Delete(id)
      (c.set r.key (storedEntry fixed r f), .parsed (pulled fixed r f))

structure Out where
  res : String
  est : Option (List Obj) := none
  control : Bool := false
  deriving DecidableEq, Repr

/-- Lint, one-meta check, metadata update, version gate, Establish (lines 778–931). -/
def gates (r : Rev) (f : Faults) (st : RevSt) (p : Pkg) : RevSt × Out :=
  if !lintS r.ptype p then (setHealth f st .unhealthy, { res := "err:lint" })
  else if p.metas.length != 1 then (setHealth f st .unhealthy, { res := "err:onemeta" })
  else match f.updO with
  | .conflict => (st, { res := "requeue" })
  | .err => (setHealth f st .unhealthy, { res := "err:updmeta" })
  | .ok =>
    if !r.ignore && !compatible p then
      -- SetConditions(Unhealthy); return Status().Update(...)
      (if f.statO then (st, { res := "err:status" }) else ({ st with health := .unhealthy }, { res := "ok" }))
    else if r.resolve && f.dep != .ok then
      -- lock.Resolve: IsConflict → requeue; else UnknownHealth, Status().Update ignored
      (if f.dep == .conflict then (st, { res := "requeue" }) else (setHealth f st .unknown, { res := "err:deps" }))
    else if f.est then
      (if f.estConflict then (st, { res := "requeue", est := some p.objs, control := st.active })
       else (setHealth f st .unhealthy, { res := "err:establish", est := some p.objs, control := st.active }))
    else if f.statO then (st, { res := "err:status", est := some p.objs, control := st.active })
    else ({ st with health := .healthy, refs := p.objs.length }, { res := "ok", est := some p.objs, control := st.active })

/-- Obtaining the package, then the gates (lines 672–941); `st` already carries the finalizer. -/
def install (fixed : Bool) (r : Rev) (f : Faults) (c : Cache) (st : RevSt) : Cache × RevSt × Out :=
  match fetch fixed r f c with
  | (c', .stop res unhealthy) => (c', (if unhealthy then setHealth f st .unhealthy else st), { res := res })
  | (c', .parsed none) => (c', setHealth f st .unhealthy, { res := "err:parse" })
  | (c', .parsed (some p)) => let (st', o) := gates r f st p; (c', st', o)

/-- What stops a reconcile between AddFinalizer and the source selection: `PullSecretFor`
fails (Unhealthy is recorded: `true`), or – inactive revisions – `deactivateRevision` fails
(`ReleaseObjects`; IsConflict → requeue; no condition is recorded). -/
def early (f : Faults) (st : RevSt) : Option (String × Bool) :=
  if f.pullCfg then some ("err:pullcfg", true)
  else if !st.active then
    match f.rel with
    | .ok => none
    | .conflict => some ("requeue", false)
    | .err => some ("err:deactivate", false)
  else none

/-- One `revision.Reconciler.Reconcile` of revision `r`; `st` is the revision object the
reconciler's `Get` returns. -/
def recStep (fixed : Bool) (feature : Bool) (r : Rev) (f : Faults) (c : Cache) (st : RevSt) : Cache × RevSt × Out :=
  if f.getE == .err then (c, st, { res := "err:get" })
  else if !st.present || f.getE == .miss then (c, st, { res := "ok" })     -- Get: NotFound is ignored
  else if st.deleting then
    -- cache.Delete(pr.GetName()); lock.RemoveSelf; RemoveFinalizer (IsConflict -> requeue, NotFound ignored)
    if f.del then (c, st, { res := "err:delcache" })
    else match f.finO with
      | .ok => (c.erase r.key, { st with present := false }, { res := "ok" })
      | .notFound => (c.erase r.key, st, { res := "ok" })
      | .conflict => (c.erase r.key, st, { res := "requeue" })
      | .err => (c.erase r.key, st, { res := "err:finalizer" })
  else if feature && !st.verif.isTrue then
    -- wait for the signature verification controller
    if st.health.statusUnknown then
      (if f.statO then (c, st, { res := "err:status" }) else (c, { st with health := .awaiting }, { res := "ok" }))
    else (c, st, { res := "ok" })
  else
    -- AddFinalizer: an Update only when the finalizer is missing (IsConflict -> requeue)
    match (if st.finalizer then WErr.ok else f.finO) with
    | .conflict => (c, st, { res := "requeue" })
    | .notFound => (c, st, { res := "err:finalizer" })
    | .err => (c, st, { res := "err:finalizer" })
    | .ok =>
      match early f st with
      | some e => (c, (if e.2 then setHealth f { st with finalizer := true } .unhealthy else { st with finalizer := true }), { res := e.1 })
      | none =>
      if !st.active && st.refs > 0 then
        (if f.statO then (c, { st with finalizer := true }, { res := "err:status" })
         else (c, { st with finalizer := true, health := .healthy }, { res := "ok" }))
      else install fixed r f c { st with finalizer := true }

/-! ### the signature verification controller -/

/-- `spec.verification` of an ImageConfig: absent (the config only carries e.g. a pull
secret), present with a cosign section, present without one -/
inductive CfgVerif where
  | none | cosign | nocosign
  deriving DecidableEq, Repr

/-- an ImageConfig, as far as image matching and verification go -/
structure ImgCfg where
  name : String
  prefixes : List String    -- spec.matchImages[*].prefix
  verif : CfgVerif
  ok : Bool                 -- the validator's verdict on the image under this config (a library verdict)
  deriving DecidableEq, Repr

/-- the inner loop of `ImageConfigStore.bestMatch` over one config's matchImages:
`strings.HasPrefix(image, m.Prefix) && len(m.Prefix) > longest` -/
def scanPrefixes (image : String) (c : ImgCfg) : List String → Nat × Option ImgCfg → Nat × Option ImgCfg
  | [], acc => acc
  | p :: ps, acc =>
    scanPrefixes image c ps (if p.isPrefixOf image && p.utf8ByteSize > acc.1 then (p.utf8ByteSize, some c) else acc)

/-- the outer loop: configs in list order, those that are not `valid` skipped -/
def scanCfgs (valid : ImgCfg → Bool) (image : String) : List ImgCfg → Nat × Option ImgCfg → Nat × Option ImgCfg
  | [], acc => acc
  | c :: cs, acc => scanCfgs valid image cs (if valid c then scanPrefixes image c c.prefixes acc else acc)

/-- `ImageConfigStore.bestMatch`: the valid config with the longest matching prefix
(the first one in list order among equally long ones); an empty prefix never matches. -/
def bestMatch (valid : ImgCfg → Bool) (image : String) (cfgs : List ImgCfg) : Option ImgCfg :=
  (scanCfgs valid image cfgs (0, none)).2

def ImgCfg.verifies (c : ImgCfg) : Bool := c.verif != .none

inductive SigCfg where
  | none | some | err
  deriving DecidableEq, Repr

/-- `ImageVerificationConfigFor(image)` and the verdict the validator would give under the
selected config: no verifying config matches / the best match (with cosign) / an error
(listing fails, or the best match has no cosign section). -/
def verifCfgFor (cfgs : List ImgCfg) (image : String) (listErr : Bool) : SigCfg × Bool :=
  if listErr then (.err, false)
  else match bestMatch ImgCfg.verifies image cfgs with
    | none => (.none, false)
    | some c => if c.verif == .nocosign then (.err, false) else (.some, c.ok)

/-- faults of one signature reconcile -/
structure SigF where
  getE : GetE := .ok      -- client.Get(revision)
  stat : Bool := false    -- client.Status().Update(revision) fails (injected, or Conflict after a stale read)
  listErr : Bool := false -- listing ImageConfigs fails
  deriving DecidableEq, Repr

def sigStep (cfg : SigCfg) (valid : Bool) (sf : SigF) (st : RevSt) : RevSt × String :=
  if sf.getE == .err then (st, "err:get")
  else if !st.present || sf.getE == .miss then (st, "ok")
  else if !st.active then (st, "ok")
  else if st.verif.isTrue then (st, "ok")
  else match cfg with
  | .err => ((if sf.stat then st else { st with verif := .incomplete }), "err:sigcfg")
  | .none => if sf.stat then (st, "err:status") else ({ st with verif := .skipped }, "ok")
  | .some =>
    if sf.stat then (st, "err:status")
    else if valid then ({ st with verif := .succeeded }, "ok") else ({ st with verif := .failed }, "err:sigfail")

/-! ### histories -/

inductive Step where
  /-- the environment sets the desired state / deletes the revision, then the revision controller reconciles it -/
  | reconcile (i : Nat) (active deleted : Bool) (f : Faults)
  /-- the signature controller reconciles it -/
  | verify (i : Nat) (sf : SigF)
  /-- a user replaces the ImageConfigs of the cluster -/
  | configs (cfgs : List ImgCfg)
  deriving Repr

structure World where
  cache : Cache
  sts : List RevSt
  cfgs : List ImgCfg := []

/-- the environment's part of a `rec` step (client Update of spec.desiredState, client Delete) -/
def envStep (active deleted : Bool) (st : RevSt) : RevSt :=
  if !st.present then st
  else
    let st := { st with active := active }
    if deleted then (if st.finalizer then { st with deleting := true } else { st with present := false }) else st

/-- the third party's write (see `Env`) on the live revision object -/
def applyEnv : Env → RevSt → RevSt
  | .none, st => st
  | .touch, st => st
  | .wipe, st => { st with health := .none, verif := .none, refs := 0 }
  | .recreate, st => { active := st.active }
  | .flip, st => { st with active := !st.active }

/-- the third party acts only when there is an object the reconciler has read -/
def envFires (f : Faults) (st : RevSt) : Bool := st.present && f.getE == .ok

def World.step (fixed feature : Bool) (revs : List Rev) (w : World) : Step → World × Out
  | .reconcile i active deleted f =>
    match revs[i]?, w.sts[i]? with
    | some r, some st =>
      let st0 := envStep active deleted st
      let (c', st', o) := recStep fixed feature r f w.cache st0
      -- when the object read was stale none of the reconciler's writes landed (`recStep_stale`): the
      -- live object is what the third party made of it
      ({ w with cache := c', sts := w.sts.set i (if envFires f st0 then applyEnv f.env st' else st') }, o)
    | _, _ => (w, { res := "skip" })
  | .verify i sf =>
    match revs[i]?, w.sts[i]? with
    | some r, some st =>
      let cv := verifCfgFor w.cfgs r.source sf.listErr
      let sr := sigStep cv.1 cv.2 sf st
      ({ w with sts := w.sts.set i sr.1 }, { res := sr.2 })
    | _, _ => (w, { res := "skip" })
  | .configs cfgs => ({ w with cfgs := cfgs }, { res := "ok" })

/-- run a history; returns the final world and every step's outcome -/
def World.run (fixed feature : Bool) (revs : List Rev) : World → List Step → World × List Out
  | w, [] => (w, [])
  | w, s :: ss =>
    let (w', o) := w.step fixed feature revs s
    let (w'', os) := World.run fixed feature revs w' ss
    (w'', o :: os)

end Xp.C15

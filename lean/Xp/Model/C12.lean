import Xp.Base.Prog
import Xp.Gen.C12
import Xp.Model.C12Spec
/-
C12 model: the revision controller
(internal/controller/apiextensions/composition/reconciler.go `Reconcile`,
revision.go `NewCompositionRevision`, apis/apiextensions/v1/composition_revision.go
`LatestRevision`) and the XR side revision selection
(internal/controller/apiextensions/composite/api.go `APIRevisionFetcher.Fetch`),
each written call by call as a `Xp.Prog` over an abstract store.

Abstractions (recorded in props/C12.json):
* the content of a Composition is `(labels, annotations, spec)` with a structural
  `Spec` (Model/C12Spec.lean); the content hash (`Composition.Hash`) and the revision
  name derived from it are a `Naming`. The history theorems are stated for an abstract
  `Naming` assumed injective on the contents that occur (`Naming.Inj`);
  `Naming.ofDigest` is the naming the code implements: the digest (sha256, an oracle)
  of the INPUT `hashToks c` = yaml(labels) ++ yaml(annotations) ++ yaml(spec) without
  separator, label = first 63 digits, name = `<composition>-<first 7 digits>`.
  `Proofs/C12H.lean` proves for which pairs of contents that input is injective
  (`hashToks_eq_iff`) and derives `Naming.Inj` from a collision-free digest on every
  set of contents without a label<->annotation move (`ofDigest_inj`);
* a revision carries what the property talks about: name, the two crossplane.io
  labels, `spec.revision`, the UID of its controller owner reference, the user
  labels copied from the Composition, and the rest of its spec (`RevSpec`,
  the field-by-field image `toRevisionSpec` of the Composition's spec);
* resourceVersion conflicts: revisions and XRs carry a per-object `rv` that every
  change of the object bumps; an `Update` of a revision carries the revision as
  the controller read it (`base`) and is answered `conflict` when the stored
  revision differs from it (i.e. has another `rv`); the merge patch of an XR (the
  full desired object, its resourceVersion included) likewise. Without
  interference the stored object always equals `base` and no conflict arises,
  which is the situation of the original theorems;
* interference (`runX`): other clients act on the store right before API call `k`
  (`Xp.Env`); a call may also be answered with any error class without being
  applied (`Fault.reply`); reads may be served by a lagging informer cache
  (`semV`, a `View` of older revisions / Compositions / XRs).

`reconcile` mirrors the code *with fixes/D4.diff applied* (adoption loop first,
`LatestRevision` afterwards); `reconcileD4` mirrors the unchanged tree.
-/
namespace Xp.C12

/-- What `Composition.Hash` hashes. -/
structure Content where
  labels : Labels
  annos : Labels
  spec : Spec
  deriving DecidableEq, Repr

/-- the input of `Composition.Hash`: `y = yaml(labels); y = append(y, yaml(annotations)...);
y = append(y, yaml(spec)...)` — no separator between the three -/
def hashToks (c : Content) : List Tok :=
  mapToks c.labels ++ mapToks c.annos ++ [.spec c.spec]

/-- `hash c` is the value of the composition-hash label (first 63 hex digits),
`name comp c` the revision name `<comp>-<first 7 hex digits>`. -/
structure Naming where
  hash : Content → String
  name : String → Content → String

/-- `s[0:n]` when `len(s) >= n`, else `s` -/
def takeStr (n : Nat) (s : String) : String := String.ofList (s.toList.take n)

/-- The naming `Composition.Hash` + `NewCompositionRevision` implement, given the digest
`dg` (sha256 in hex, as a function of the hash input): the hash label is its first 63
characters (`hash[0:63]`), the revision name `fmt.Sprintf("%s-%s", c.GetName(), hash[0:7])`. -/
def Naming.ofDigest (dg : List Tok → String) : Naming where
  hash := fun c => takeStr Xp.Gen.revisionHashLabelLen (dg (hashToks c))
  name := fun n c => n ++ "-" ++ takeStr Xp.Gen.revisionNameSuffixLen (takeStr Xp.Gen.revisionHashLabelLen (dg (hashToks c)))

structure Comp where
  name : String
  uid : Nat
  content : Content
  deleting : Bool
  deriving DecidableEq, Repr

structure Rev where
  name : String
  comp : String        -- label crossplane.io/composition-name
  hash : String        -- label crossplane.io/composition-hash
  num : Nat            -- spec.revision
  ctrl : Option Nat    -- UID of the controller owner reference
  labels : Labels      -- the other labels (copied from the Composition at creation)
  spec : RevSpec       -- the spec apart from `revision`
  rv : Nat             -- resourceVersion (per object: bumped by every change of the object)
  deriving DecidableEq, Repr

inductive Policy where
  | manual | automatic
  deriving DecidableEq, Repr

structure XR where
  name : String
  comp : String               -- spec.compositionRef.name
  policy : Option Policy      -- spec.compositionUpdatePolicy
  selector : Option Labels    -- spec.compositionRevisionSelector.matchLabels
  ref : Option String         -- spec.compositionRevisionRef.name
  rv : Nat                    -- resourceVersion
  deriving DecidableEq, Repr

structure Store where
  comps : List Comp
  revs : List Rev      -- kept sorted by name: the order the API server lists them in
  xrs : List XR
  deriving DecidableEq, Repr

def Store.empty : Store := ⟨[], [], []⟩

inductive Req where
  | getComp (name : String)
  | listRevs (sel : Labels) (comp : String)
  /-- `Update` of a revision: `base` is the revision as the controller read it
  (its resourceVersion), `r` what it sends -/
  | updateRev (base r : Rev)
  | createRev (r : Rev)
  | getRev (name : String)
  | getXR (name : String)
  /-- merge patch of the whole desired XR (`base` as read, resourceVersion included,
  with the revision reference set to `ref`) -/
  | patchXR (base : XR) (ref : String)
  | createXR (x : XR)
  deriving Repr

inductive Resp where
  | comp (c : Comp)
  | revs (l : List Rev)
  | rev (r : Rev)
  | xr (x : XR)
  | ok
  | notFound
  | alreadyExists
  | conflict
  | error
  deriving Repr

/-- label lookup on a revision, the two reserved keys included -/
def Rev.label (r : Rev) (k : String) : Option String :=
  if k = Xp.Gen.labelCompositionName then some r.comp
  else if k = Xp.Gen.labelCompositionHash then some r.hash
  else r.labels.lookup k

/-- `client.MatchingLabels` -/
def selOK (sel : Labels) (r : Rev) : Bool :=
  sel.all fun kv => r.label kv.1 == some kv.2

def insertRev (r : Rev) : List Rev → List Rev
  | [] => [r]
  | x :: xs => if r.name < x.name then r :: x :: xs else x :: insertRev r xs

def setXRRef (n : String) (ref : String) (xs : List XR) : List XR :=
  xs.map fun x => if x.name = n then { x with ref := some ref, rv := x.rv + 1 } else x

/-- The API server as seen by these two controllers. -/
def exec (s : Store) : Req → Store × Resp
  | .getComp n =>
    (s, match s.comps.find? (·.name = n) with | some c => .comp c | none => .notFound)
  | .listRevs sel comp =>
    -- the caller always overrides the composition-name key of the selector
    (s, .revs (s.revs.filter fun r => r.comp = comp && selOK (sel.filter (·.1 ≠ Xp.Gen.labelCompositionName)) r))
  | .updateRev b r =>
    match s.revs.find? (·.name = r.name) with
    | none => (s, .notFound)
    | some x =>
      if x = b then
        ({ s with revs := s.revs.map fun y => if y.name = r.name then { r with rv := x.rv + 1 } else y },
          .rev { r with rv := x.rv + 1 })
      else (s, .conflict)
  | .createRev r =>
    if s.revs.any (·.name = r.name) then (s, .alreadyExists)
    else ({ s with revs := insertRev r s.revs }, .ok)
  | .getRev n =>
    (s, match s.revs.find? (·.name = n) with | some r => .rev r | none => .notFound)
  | .getXR n =>
    (s, match s.xrs.find? (·.name = n) with | some x => .xr x | none => .notFound)
  | .patchXR b ref =>
    match s.xrs.find? (·.name = b.name) with
    | none => (s, .notFound)
    | some x => if x = b then ({ s with xrs := setXRRef b.name ref s.xrs }, .ok) else (s, .conflict)
  | .createXR x =>
    if s.xrs.any (·.name = x.name) then (s, .alreadyExists) else ({ s with xrs := s.xrs ++ [x] }, .ok)

def Req.isWrite : Req → Bool
  | .updateRev _ _ | .createRev _ | .patchXR _ _ | .createXR _ => true
  | _ => false

def sem : Sem Store Req Resp where
  exec := exec
  errResp := fun o r => match o with
    | .conflict => if r.isWrite then .conflict else .error
    | _ => .error

abbrev P := Prog Req Resp

/-- `v1.LatestRevision`: the first revision with the strictly highest number among
those controlled by `uid`; numbers start at 1, so 0 means none. -/
def latestGo (uid : Nat) (best : Option Rev) : List Rev → Option Rev
  | [] => best
  | r :: rs =>
    if r.ctrl = some uid ∧ (best.map (·.num)).getD 0 < r.num then latestGo uid (some r) rs
    else latestGo uid best rs

def latestRev (uid : Nat) (l : List Rev) : Option Rev := latestGo uid none l

def latestNum (uid : Nat) (l : List Rev) : Nat := ((latestRev uid l).map (·.num)).getD 0

/-- `NewCompositionRevision`, field by field -/
def newRev (H : Naming) (c : Comp) (n : Nat) : Rev :=
  { name := H.name c.name c.content,      -- Name: fmt.Sprintf("%s-%s", c.GetName(), nameSuffix)
    comp := c.name,                       -- Labels[LabelCompositionName] = c.GetName()
    hash := H.hash c.content,             -- Labels[LabelCompositionHash] = hash[0:63]
    spec := toRevisionSpec c.content.spec,  -- Spec: NewCompositionRevisionSpec(c.Spec, revision)
    num := n,                             --   rs.Revision = revision
    ctrl := some c.uid,                   -- meta.AddOwnerReference(cr, meta.AsController(ref))
    labels := c.content.labels,           -- for k, v := range c.GetLabels() { cr.Labels[k] = v }
    rv := 1 }

/-- calls of `NewCompositionRevision` in source order (see `Xp.Gen.c12NewRevisionSkel`) -/
def newRevSkel : List String :=
  [ "c.Hash",                       -- `H.hash` / `H.name` (`Naming.ofDigest`: the digest of `hashToks`)
    "len", "len",                   -- the two truncations [0:63], [0:7]
    "fmt.Sprintf", "c.GetName",     -- `name`
    "c.GetName",                    -- `comp`
    "NewCompositionRevisionSpec",   -- `spec := toRevisionSpec …`, `num`
    "meta.TypedReferenceTo", "meta.AddOwnerReference", "meta.AsController",  -- `ctrl`
    "c.GetLabels" ]                 -- `labels` (a Composition label named like one of the two
                                    -- reserved keys would override it: assumed absent)

inductive Res where
  | done      -- nothing (more) to do
  | created   -- a new revision was created
  | requeue   -- conflict while renumbering
  | err
  deriving DecidableEq, Repr

/-- First loop of the repaired `Reconcile`: re-adopt every listed revision that is
not controlled by the Composition. `k` receives the list as the controller holds
it afterwards. A revision controlled by somebody else aborts the reconcile
(`meta.AddControllerReference` fails) without an API call. -/
def adoptLoop (uid : Nat) : List Rev → (List Rev → P Res) → P Res
  | [], k => k []
  | r :: rs, k =>
    if r.ctrl = some uid then adoptLoop uid rs (fun l => k (r :: l))
    else if r.ctrl.isSome then .ret .err
    else .call (.updateRev r { r with ctrl := some uid }) fun
      | .rev r' => adoptLoop uid rs (fun l => k (r' :: l))
      | _ => .ret .err

/-- Second loop: the revision(s) whose hash label equals the current hash get
`latest+1` unless they already carry `latest`. `ex` is `existingRev`. -/
def renumLoop (h : String) (latest : Nat) : List Rev → Nat → (Nat → P Res) → P Res
  | [], ex, k => k ex
  | r :: rs, ex, k =>
    if r.hash ≠ h then renumLoop h latest rs ex k
    else if r.num = latest then renumLoop h latest rs r.num k
    else .call (.updateRev r { r with num := latest + 1 }) fun
      | .rev _ => renumLoop h latest rs r.num k
      | .conflict => .ret .requeue
      | _ => .ret .err

/-- `Reconciler.Reconcile` of the composition (revision) controller, repaired. -/
def reconcile (H : Naming) (name : String) : P Res :=
  .call (.getComp name) fun
  | .comp c =>
    if c.deleting then .ret .done else
    .call (.listRevs [] c.name) fun
    | .revs l =>
      adoptLoop c.uid l fun l' =>
        let latest := latestNum c.uid l'
        renumLoop (H.hash c.content) latest l' 0 fun ex =>
          if ex > 0 then .ret .done
          else .call (.createRev (newRev H c (latest + 1))) fun
            | .ok => .ret .created
            | _ => .ret .err
    | _ => .ret .err
  | .notFound => .ret .done
  | _ => .ret .err

/-- The single loop of the unchanged tree: adoption and renumbering interleaved,
`latest` fixed before the loop. -/
def d4Loop (uid : Nat) (h : String) (latest : Nat) : List Rev → Nat → (Nat → P Res) → P Res
  | [], ex, k => k ex
  | r :: rs, ex, k =>
    let cont (r : Rev) : P Res :=
      if r.hash ≠ h then d4Loop uid h latest rs ex k
      else if r.num = latest then d4Loop uid h latest rs r.num k
      else .call (.updateRev r { r with num := latest + 1 }) fun
        | .rev _ => d4Loop uid h latest rs r.num k
        | .conflict => .ret .requeue
        | _ => .ret .err
    if r.ctrl = some uid then cont r
    else if r.ctrl.isSome then .ret .err
    else .call (.updateRev r { r with ctrl := some uid }) fun
      | .rev r' => cont r'
      | _ => .ret .err

/-- `Reconcile` as it is on the unchanged tree (defect D4): `latestRev` is computed
from the revisions controlled *before* the owner references are restored. -/
def reconcileD4 (H : Naming) (name : String) : P Res :=
  .call (.getComp name) fun
  | .comp c =>
    if c.deleting then .ret .done else
    .call (.listRevs [] c.name) fun
    | .revs l =>
      let latest := latestNum c.uid l
      d4Loop c.uid (H.hash c.content) latest l 0 fun ex =>
        if ex > 0 then .ret .done
        else .call (.createRev (newRev H c (latest + 1))) fun
          | .ok => .ret .created
          | _ => .ret .err
    | _ => .ret .err
  | .notFound => .ret .done
  | _ => .ret .err

/-- ordered API calls of the modelled `Reconcile`, in the vocabulary of the
go/ast walk (`Xp.Gen.compositionReconcileSkeleton`) -/
def reconcileSkeleton : List String :=
  ["Get", "List", "loop{", "AddControllerReference", "Update", "}", "LatestRevision", "loop{", "Update", "}", "Create"]

def reconcileD4Skeleton : List String :=
  ["Get", "List", "LatestRevision", "loop{", "AddControllerReference", "Update", "Update", "}", "Create"]

inductive FRes where
  | rev (r : Rev)
  | err
  deriving DecidableEq, Repr

/-- the label selector `getCompositionRevisionList` adds to the composition name -/
def fetchSel (x : XR) : Labels :=
  if x.policy = some .automatic then x.selector.getD [] else []

/-- The XR reconciler's `Get` of the XR followed by `APIRevisionFetcher.Fetch`
(`Apply` of the patching applicator = Get, then Create or merge Patch). -/
def fetch (xrName : String) : P FRes :=
  .call (.getXR xrName) fun
  | .xr x =>
    match x.policy, x.ref with
    | some .manual, some n =>
      .call (.getRev n) fun
      | .rev r => .ret (.rev r)
      | _ => .ret .err
    | _, _ =>
      .call (.getComp x.comp) fun
      | .comp c =>
        .call (.listRevs (fetchSel x) c.name) fun
        | .revs l =>
          match latestRev c.uid l with
          | none => .ret .err
          | some r =>
            if x.ref = some r.name then .ret (.rev r)
            else .call (.getXR x.name) fun
              | .xr _ => .call (.patchXR x r.name) fun
                | .ok => .ret (.rev r)
                | _ => .ret .err
              | .notFound => .call (.createXR { x with ref := some r.name }) fun
                | .ok => .ret (.rev r)
                | _ => .ret .err
              | _ => .ret .err
        | _ => .ret .err
      | _ => .ret .err
  | _ => .ret .err

/-! ### histories: environment actions interleaved with faulty reconciles -/

def putComp (c : Comp) (cs : List Comp) : List Comp :=
  if cs.any (·.name = c.name) then cs.map (fun x => if x.name = c.name then c else x) else cs ++ [c]

def putXR (x : XR) (xs : List XR) : List XR :=
  if xs.any (·.name = x.name) then xs.map (fun y => if y.name = x.name then x else y) else xs ++ [x]

inductive Ev where
  /-- the user creates/edits a Composition (labels, annotations, spec), marks it
  deleted, or a restore recreates it under a new UID -/
  | putComp (c : Comp)
  /-- the controller owner reference of the named revisions is stripped (`none`,
  backup/restore) or replaced -/
  | setCtrl (names : List String) (v : Option Nat)
  /-- the user creates/edits an XR (policy, selector, pinned revision) -/
  | putXR (x : XR)
  /-- one run of the revision controller for `comp` under a fault plan -/
  | reconcile (comp : String) (plan : Plan)
  /-- one XR revision selection under a fault plan -/
  | fetch (xr : String) (plan : Plan)

def envStep (s : Store) : Ev → Store
  | .putComp c => { s with comps := putComp c s.comps }
  | .setCtrl names v =>
    { s with revs := s.revs.map fun r =>
        if names.contains r.name ∧ r.ctrl ≠ v then { r with ctrl := v, rv := r.rv + 1 } else r }
  | .putXR x => { s with xrs := putXR x s.xrs }
  | _ => s

/-- final store of one event -/
def stepEv (H : Naming) (s : Store) : Ev → Store
  | .reconcile comp plan => (run sem plan 0 (reconcile H comp) s).1
  | .fetch xr plan => (run sem plan 0 (fetch xr) s).1
  | e => envStep s e

/-- every store visible at some instant of one event (oldest first) -/
def reachEv (H : Naming) (s : Store) : Ev → List Store
  | .reconcile comp plan => reach sem plan 0 (reconcile H comp) s
  | .fetch xr plan => reach sem plan 0 (fetch xr) s
  | e => [s, envStep s e]

def runHist (H : Naming) : List Ev → Store → Store
  | [], s => s
  | e :: es, s => runHist H es (stepEv H s e)

def reachHist (H : Naming) : List Ev → Store → List Store
  | [], s => [s]
  | e :: es, s => reachEv H s e ++ reachHist H es (stepEv H s e)

/-! ### interference, error classes, informer-cache lag

The definitions above are the interference-free, fresh-read special case
(`runX_plain`, `semV_fresh` in `Proofs/C12I.lean`). -/

/-- What happens to one API call: an outcome of the shared fault model, or the call
is not applied and the controller sees the error reply `e` (an error *class*:
`notFound`, `alreadyExists`, `conflict`, or `error` for everything the code does
not tell apart — Invalid, Forbidden, timeouts, transport errors). -/
inductive Fault where
  | out (o : Outcome)
  | reply (e : Resp)

abbrev FPlan := Nat → Fault

def FPlan.ofPlan (p : Plan) : FPlan := fun k => .out (p k)

/-- error replies a controller can be handed instead of the result of its call -/
def Resp.isErr : Resp → Bool
  | .notFound | .alreadyExists | .conflict | .error => true
  | _ => false

def FPlan.errOnly (p : FPlan) : Prop := ∀ k e, p k = .reply e → e.isErr = true

/-- `run` with other clients acting on the store right before every call (`env k`),
error classes, and an API semantics that may differ from call to call (`sm k`: what
the informer cache serves at that moment); final store and result (`none` = crashed). -/
def runX (sm : Nat → Sem Store Req Resp) (env : Env Store) (plan : FPlan) : Nat → P α → Store → Store × Option α
  | _, .ret a, s => (s, some a)
  | k, .call r c, s =>
    match plan k with
    | .out .ok => runX sm env plan (k+1) (c ((sm k).exec (env k s) r).2) ((sm k).exec (env k s) r).1
    | .out .fail => runX sm env plan (k+1) (c ((sm k).errResp .fail r)) (env k s)
    | .out .conflict => runX sm env plan (k+1) (c ((sm k).errResp .conflict r)) (env k s)
    | .out .crashBefore => (env k s, none)
    | .out .crashAfter => (((sm k).exec (env k s) r).1, none)
    | .reply e => runX sm env plan (k+1) (c e) (env k s)

/-- every store visible at some instant of such a run, oldest first: the start,
the store after each environment step and after each own call -/
def reachX (sm : Nat → Sem Store Req Resp) (env : Env Store) (plan : FPlan) : Nat → P α → Store → List Store
  | _, .ret _, s => [s]
  | k, .call r c, s =>
    match plan k with
    | .out .ok => s :: env k s :: reachX sm env plan (k+1) (c ((sm k).exec (env k s) r).2) ((sm k).exec (env k s) r).1
    | .out .fail => s :: reachX sm env plan (k+1) (c ((sm k).errResp .fail r)) (env k s)
    | .out .conflict => s :: reachX sm env plan (k+1) (c ((sm k).errResp .conflict r)) (env k s)
    | .out .crashBefore => [s, env k s]
    | .out .crashAfter => [s, env k s, ((sm k).exec (env k s) r).1]
    | .reply e => s :: reachX sm env plan (k+1) (c e) (env k s)

/-- the controller's own applied calls: (store at the moment of the call, request) -/
def ownX (sm : Nat → Sem Store Req Resp) (env : Env Store) (plan : FPlan) : Nat → P α → Store → List (Store × Req)
  | _, .ret _, _ => []
  | k, .call r c, s =>
    match plan k with
    | .out .ok => (env k s, r) :: ownX sm env plan (k+1) (c ((sm k).exec (env k s) r).2) ((sm k).exec (env k s) r).1
    | .out .fail => ownX sm env plan (k+1) (c ((sm k).errResp .fail r)) (env k s)
    | .out .conflict => ownX sm env plan (k+1) (c ((sm k).errResp .conflict r)) (env k s)
    | .out .crashBefore => []
    | .out .crashAfter => [(env k s, r)]
    | .reply e => ownX sm env plan (k+1) (c e) (env k s)

/-- What the informer cache serves instead of the live store (`none` = fresh). -/
structure View where
  revs : Option (List Rev) := none
  comps : Option (List Comp) := none
  xrs : Option (List XR) := none

def View.fresh : View := {}

def View.apply (v : View) (s : Store) : Store :=
  ⟨v.comps.getD s.comps, v.revs.getD s.revs, v.xrs.getD s.xrs⟩

/-- The API as seen through a cached client: reads are answered from the view,
writes go to the API server. -/
def semV (v : View) : Sem Store Req Resp where
  exec := fun s r => if r.isWrite then exec s r else (s, (exec (v.apply s) r).2)
  errResp := sem.errResp

/-- `EnqueueForCompositionRevision` (definition/handlers.go), CreateFunc: the XRs
enqueued when revision `r` is created — every XR whose policy is not Manual and
whose `compositionRef` names the Composition in the revision's
composition-name label (none if that label is empty). -/
def enqueueFor (xrs : List XR) (r : Rev) : List String :=
  if r.comp = "" then [] else
  (xrs.filter fun x => x.policy ≠ some .manual && x.comp = r.comp).map (·.name)

/-! ### declared call skeletons (equated with the regenerated `Xp.Gen.c12*Skel` in Props/C12.lean)

One entry per call of the Go function, source order, with the model step mirroring it. -/

/-- `Reconciler.Reconcile` (composition/reconciler.go): client verbs and the pure helpers whose
position decides the outcome. Not in the verb set, not modelled: `r.record.Event`, logging,
`context.WithTimeout`. -/
def reconcileCallSkel : List String :=
  [ "client.Get",                    -- `reconcile`: `.getComp name`
    "resource.IgnoreNotFound",       --   `| .notFound => .ret .done`
    "meta.WasDeleted",               --   `if c.deleting then .ret .done`
    "comp.Hash",                     --   `H.hash c.content` (argument of `renumLoop`)
    "client.List",                   --   `.listRevs [] c.name` (MatchingLabels{composition-name})
    "metav1.IsControlledBy",         -- `adoptLoop`: `r.ctrl = some uid`
    "meta.AddControllerReference",   --   `else if r.ctrl.isSome then .ret .err`
    "client.Update",                 --   `.updateRev r { r with ctrl := some uid }`, any error aborts
    "v1.LatestRevision",             -- `latestNum c.uid l'` on the list as updated by the loop
    "client.Update",                 -- `renumLoop`: `.updateRev r { r with num := latest + 1 }`
    "kerrors.IsConflict",            --   `| .conflict => .ret .requeue`
    "client.Create",                 -- `.createRev (newRev H c (latest + 1))`
    "NewCompositionRevision" ]       --   `newRev`

/-- the client verb a request of the model stands for -/
def Req.verb : Req → String
  | .getComp _ | .getRev _ | .getXR _ => "Get"
  | .listRevs _ _ => "List"
  | .updateRev _ _ => "Update"
  | .createRev _ | .createXR _ => "Create"
  | .patchXR _ _ => "Patch"

/-- the client verbs the program issues along the path chosen by the answers `as` -/
def pathVerbs {α : Type} : P α → List Resp → List String
  | .ret _, _ => []
  | .call r _, [] => [r.verb]
  | .call r k, a :: as => r.verb :: pathVerbs (k a) as

/-- `v1.LatestRevision` (apis/apiextensions/v1/composition_revision.go) -/
def latestRevisionSkel : List String :=
  [ "metav1.IsControlledBy" ]        -- `latestGo`: `r.ctrl = some uid`

/-- `APIRevisionFetcher.Fetch` (composite/api.go) -/
def fetchSkel : List String :=
  [ "cr.GetCompositionRevisionReference",  -- `x.ref`
    "cr.GetCompositionUpdatePolicy",       -- `x.policy`
    "ca.Get",                              -- Manual and referenced: `.getRev n`
    "ca.Get",                              -- `.getComp x.comp`
    "cr.GetCompositionReference",          --   (its argument)
    "getCompositionRevisionList",          -- `.listRevs (fetchSel x) c.name`
    "v1.LatestRevision",                   -- `latestRev c.uid l`, `none => .ret .err`
    "cr.SetCompositionRevisionReference",  -- `if x.ref = some r.name then … else` the ref of the object patched
    "ca.Apply" ]                           -- `.getXR` then `.patchXR x r.name` / `.createXR` (APIPatchingApplicator
                                           -- of crossplane-runtime: Get, then Create or merge Patch of the whole object)

/-- `APIRevisionFetcher.getCompositionRevisionList` -/
def revisionListSkel : List String :=
  [ "cr.GetCompositionUpdatePolicy", "cr.GetCompositionUpdatePolicy",          -- `fetchSel`: `x.policy = some .automatic`
    "cr.GetCompositionRevisionSelector", "cr.GetCompositionRevisionSelector",  --   `x.selector.getD []`
    "ca.List" ]   -- `.listRevs sel comp`; `ml[LabelCompositionName] = comp.GetName()` is the override in `exec`

/-- `EnqueueForCompositionRevision`, CreateFunc (definition/handlers.go) -/
def enqueueSkel : List String :=
  [ "c.List",                          -- `enqueueFor xrs`: all XRs of the kind
    "xr.GetCompositionUpdatePolicy",   --   `x.policy ≠ some .manual`
    "xr.GetCompositionReference",      --   `x.comp = r.comp`
    "q.Add" ]                          --   `.map (·.name)`

end Xp.C12

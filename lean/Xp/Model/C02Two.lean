/-
C02, site "two composite resources, one composed-resource name".

The function composer writes composed resources with a server-side apply
(`client.Patch(ctx, cd, client.Apply, client.ForceOwnership, client.FieldOwner(ComposedFieldOwnerName(xr)))`,
composition_functions.go Compose) that carries the XR's controller reference. There is no
client-side ownership check in front of it: what keeps XR `x` from taking over an object that XR
`y` controls is the API server — ownerReferences are merged BY UID across field managers, the
merged object has two controller references, the apply is rejected as Invalid. That rests on
`x` and `y` applying with DIFFERENT field managers: a manager's apply REMOVES the list entries
that same manager applied before and does not apply any more, so with a shared manager `y`'s
controller reference is dropped, `x`'s put in, and the object changes hands.

This module models exactly that: objects with controller references tagged with the manager
that applied them (`Obj.refs`), `applySSA` (the API server's merge + "at most one controller"
validation) and one reconcile of an XR whose pipeline asks for a composed resource with an
explicit metadata.name (`step`: observe through spec.resourceRefs, persist the reference,
apply). The field-manager function `mgr` is a PARAMETER of the model: the theorems say what
holds when it separates the two XRs and what happens when it does not; the tie to
`ComposedFieldOwnerName` is differential (every scenario compares `mgrSame`) and by regenerated
facts (`Xp.Gen.c02FieldOwnerLens`, `c02FieldOwnerLongNamesDiffer`).
-/
namespace Xp.C02Two

structure Obj where
  name : String
  /-- controller references: (index of the XR named, field manager that applied the entry) -/
  refs : List (Nat × String)
  content : Nat
  deriving DecidableEq, Repr, Inhabited

/-- the XR an object is controlled by -/
def Obj.ctrl (o : Obj) : Option Nat := o.refs.head?.map (·.1)

/-- the API server's merge of ownerReferences for an apply by manager `m` that carries one
controller reference, to XR `x`: entries `m` applied before and does not apply now are removed,
the reference is merged in by uid -/
def mergeRefs (refs : List (Nat × String)) (x : Nat) (m : String) : List (Nat × String) :=
  if (refs.filter fun r => r.2 ≠ m ∨ r.1 = x).any (·.1 = x) then refs.filter fun r => r.2 ≠ m ∨ r.1 = x
  else (refs.filter fun r => r.2 ≠ m ∨ r.1 = x) ++ [(x, m)]

/-- server-side apply by manager `m` of an object named `n` carrying a controller reference to
XR `x` and content `c`: more than one controller after the merge is Invalid (nothing written) -/
def applySSA (objs : List Obj) (n : String) (x : Nat) (m : String) (c : Nat) : List Obj × Bool :=
  match objs.find? (·.name = n) with
  | none => (objs ++ [⟨n, [(x, m)], c⟩], true)
  | some o =>
    if (mergeRefs o.refs x m).all (·.1 = x) then (objs.map fun p => if p.name = n then ⟨n, mergeRefs o.refs x m, c⟩ else p, true)
    else (objs, false)

structure St where
  objs : List Obj
  /-- XRs whose spec.resourceRefs already names their composed resource -/
  hasRef : List Nat
  deriving DecidableEq, Repr, Inhabited

structure StepObs where
  calls : List String
  synced : Bool
  deriving DecidableEq, Repr, Inhabited

/-- one reconcile of XR `x` (field manager `mgr x`) whose pipeline asks for a composed resource
named `res` with content `c`: ObserveComposedResources reads it if spec.resourceRefs names it (an
object controlled by somebody else is ignored, which changes nothing for an explicitly named
resource), the reference is persisted, the resource applied; an Invalid apply is tolerated and
reported as unsynced -/
def step (mgr : Nat → String) (res : Nat → String) (x c : Nat) (s : St) : St × StepObs :=
  let n := res x
  let get := if x ∈ s.hasRef then [s!"get KA/{n} ok>"] else []
  let r := applySSA s.objs n x (mgr x) c
  ({ objs := r.1, hasRef := if x ∈ s.hasRef then s.hasRef else x :: s.hasRef },
   { calls := get ++ [s!"patch KA/{n} apply ok>" ++ (if r.2 then "" else "invalid")], synced := r.2 })

def runSteps (mgr : Nat → String) (res : Nat → String) : List (Nat × Nat) → St → St
  | [], s => s
  | (x, c) :: h, s => runSteps mgr res h (step mgr res x c s).1

end Xp.C02Two

/-
C02 — declared call skeletons (tie "a") of the Go functions the C02 theorems speak about.

`harness/main/c02_skel.go` regenerates, on every check run, the ordered list of API calls,
wrapped helpers and ownership GUARDS of each function from the current source tree
(`Xp.Gen.c02Skel*`, go/ast); `Xp.Props.C02.skeleton_*` state that the lists below are what the
source has. Each entry names the model step that mirrors the call, or says why there is none.
The models: `Xp.C02Crd` (definition / offered reconcilers), `Xp.C01` (XR reconciler and both
composers; shared with C01/C03), `Xp.C02World` (the same programs over a store with
resourceVersions and a third party), `Xp.C09` (connection secrets).
-/
namespace Xp.C02Skel

/-- definition/reconciler.go `Reconciler.Reconcile` ↔ `Xp.C02Crd.reconcile .definition` -/
def definitionReconcile : List String := [
  "client.Get",                   -- Req.getXRD (`reconcile`; NotFound ignored → `.ret .ok`)
  "composite.Render",             -- xcrd.ForCompositeResource: always succeeds for the XRDs of the world (offered: the `renderable` test)
  "meta.WasDeleted",              -- `if d.del then deletion w d else live d`
  "client.Status.Update",         -- Req.statusXRD .terminating (`deletion`)
  "client.Get",                   -- Req.getCRD (`deletion`)
  "meta.WasCreated",              -- `.crd none` branch of `deletion`
  "metav1.IsControlledBy",        -- GUARD: `if c.ctrl = .xrd then deleteControlled w else removeFinalizer`
  "engine.Stop",                  -- not modelled: NopEngine.Stop does nothing and returns nil
  "composite.RemoveFinalizer",    -- `removeFinalizer` (APIFinalizer: Update of the XRD, no call when absent)
  "client.DeleteAllOf",           -- Req.deleteInstances (`deleteControlled .definition`); no instances exist in the model (C08 owns their order)
  "client.List",                  -- Req.listInstances; always empty in the model
  "engine.Stop",                  -- not modelled: NopEngine
  "client.Delete",                -- Req.deleteCRD (`deleteControlled`)
  "composite.AddFinalizer",       -- Req.updateXRD true (`live`; APIFinalizer: no call when present)
  "client.Apply",                 -- `applyCRD`: APIUpdatingApplicator = Req.getCRD; Req.createCRD | Req.updateCRD at the rv read
  "resource.MustBeControllableBy",-- GUARD: `if c.ctrl = .other then .ret .err` in `applyCRD`
  "engine.Stop",                  -- not modelled: status.controllers is empty in the world, the branch is not taken
  "engine.IsRunning",             -- NopEngine.IsRunning = true: `afterApply` goes straight to the status update
  "client.Status.Update",         -- Req.statusXRD .watching (`afterApply`)
  "engine.Start",                 -- not reached with the NopEngine (IsRunning is true)
  "engine.StartWatches",          -- not reached with the NopEngine
  "client.Status.Update"]         -- not reached with the NopEngine

/-- offered/reconciler.go `Reconciler.Reconcile` ↔ `Xp.C02Crd.reconcile .offered` -/
def offeredReconcile : List String := [
  "client.Get",                   -- Req.getXRD
  "claim.Render",                 -- xcrd.ForCompositeResourceClaim: fails iff the XRD offers no claim (`w = .offered ∧ d.claim = false → .ret .err`)
  "meta.WasDeleted",              -- `if d.del then deletion w d else live d`
  "client.Status.Update",         -- Req.statusXRD .terminating
  "client.Get",                   -- Req.getCRD
  "meta.WasCreated",              -- `.crd none` branch
  "metav1.IsControlledBy",        -- GUARD: `if c.ctrl = .xrd then deleteControlled w else removeFinalizer`
  "engine.Stop",                  -- not modelled: NopEngine
  "claim.RemoveFinalizer",        -- `removeFinalizer`
  "client.List",                  -- Req.listInstances (`deleteControlled .offered`)
  "client.Delete",                -- Delete of each listed claim: not modelled, the list is empty in the model
  "engine.Stop",                  -- not modelled: NopEngine
  "client.Delete",                -- Req.deleteCRD
  "claim.AddFinalizer",           -- Req.updateXRD true
  "client.Apply",                 -- `applyCRD`
  "resource.MustBeControllableBy",-- GUARD in `applyCRD`
  "engine.Stop",                  -- not modelled (status.controllers empty)
  "engine.IsRunning",             -- NopEngine: true
  "client.Status.Update",         -- Req.statusXRD .watching
  "engine.Start",                 -- not reached with the NopEngine
  "engine.StartWatches",          -- not reached with the NopEngine
  "client.Status.Update"]         -- not reached with the NopEngine

/-- composition_functions.go `ExistingComposedResourceObserver.ObserveComposedResources`
↔ `Xp.C01.observeFn` -/
def observe : List String := [
  "cached.Get",                   -- Req.getCached
  "uncached.Get",                 -- Req.getObj (fallback after a cached NotFound)
  "metav1.GetControllerOf",       -- GUARD: `if o.ctrl = .other then observeFn lrv rs acc k` (skipped, as if absent)
  "details.FetchConnection"]      -- not modelled here: connection details are C09's (`Xp.C09.observeDetails`)

/-- composition_functions.go `DeletingComposedResourceGarbageCollector.GarbageCollectComposedResources`
↔ `Xp.C01.gcFn` (the candidates come from `observeFn`, which has dropped everything foreign) -/
def garbageCollect : List String := [
  "metav1.GetControllerOf",       -- GUARD on the OBSERVED copy: unreachable after `observeFn` (observed objects are never foreign); kept by the code as a second fence
  "meta.RemoveLabels",            -- local edit carried by the Update below
  "client.Update",                -- Req.gcUpdate: carries the resourceVersion read by `observeFn` (`Xp.C02World.exec`: Conflict when the object changed since)
  "client.Delete"]                -- Req.delete: no precondition (D36 window, `Xp.C02World`)

/-- composition_functions.go `FunctionComposer.Compose` ↔ `Xp.C01.composeFn` -/
def fnCompose : List String := [
  "composite.ObserveComposedResources",      -- `observeFn`
  "composite.FetchConnection",               -- not modelled here (C09)
  "client.Get",                              -- function credentials secret: not modelled, the world's pipeline step has no credentials
  "pipeline.RunFunction",                    -- the input `out : Obs → FnOut` (C03/C04 own the pipeline)
  "composite.GenerateName",                  -- `renderFn` (one Req.getCached probe per generated name)
  "composite.GarbageCollectComposedResources", -- `gcFn`
  "client.Patch",                            -- Req.patchRefs (server-side apply of spec.resourceRefs)
  "composite.ManagedFieldsUpgrader.Upgrade", -- not modelled: no object of the world has client-side-apply managers, Upgrade issues no call
  "client.Patch",                            -- Req.apply (server-side apply of each desired resource, `applyFn`); the guard is the API server's (two controllers ⇒ Invalid)
  "client.Status.Patch"]                     -- Req.statusPatch

/-- composition_pt.go `GarbageCollectingAssociator.AssociateTemplates` ↔ `Xp.C01.associatePT` -/
def associate : List String := [
  "cached.Get",                   -- Req.getCached
  "uncached.Get",                 -- Req.getObj
  "metav1.GetControllerOf",       -- GUARD: `else if o.ctrl = .other then onError lrv`
  "meta.RemoveLabels",            -- local edit carried by the Update below
  "cached.Update",                -- Req.gcUpdate (resourceVersion of the read just above)
  "cached.Delete"]                -- Req.delete

/-- composition_pt.go `PTComposer.Compose` ↔ `Xp.C01.composePT` -/
def ptCompose : List String := [
  "composition.AssociateTemplates",   -- `associatePT`
  "composed.GenerateName",            -- `renderPT`
  "xr.SetResourceReferences",         -- the `rs.map rkey` argument of Req.updateXR
  "client.Update",                    -- Req.updateXR
  "resource.MustBeControllableBy",    -- GUARD: `if o.ctrl = .other then onError lrv` in `applyPT`
  "client.Apply",                     -- `applyPT`: APIPatchingApplicator = Req.getCached; Req.create | Req.mergePatch (no resourceVersion: D37 window, `Xp.C02World`)
  "composed.FetchConnection",         -- not modelled here (C09)
  "composed.ExtractConnection",       -- not modelled here (C09)
  "composed.IsReady",                 -- not modelled here (C05)
  "client.Apply"]                     -- Req.getXR; Req.patchXR

/-- composite/reconciler.go `Reconciler.Reconcile` ↔ `Xp.C01.reconcile` (live, unpaused XR;
selector, fetcher, validator and configurator are stubs in the world and issue no call) -/
def xrReconcile : List String := [
  "client.Get",                   -- Req.getXR
  "client.Status.Update",         -- paused XR: not modelled (the world's XR is not paused)
  "meta.WasDeleted",              -- deleting XR: not modelled (C08's)
  "composite.UnpublishConnection",--   "
  "client.Status.Update",         --   "
  "composite.RemoveFinalizer",    --   "
  "client.Status.Update",         --   "
  "client.Status.Update",         --   "
  "composite.AddFinalizer",       -- Req.addFinalizer (no call when present)
  "client.Status.Update",         -- `onError` after a failed AddFinalizer
  "composite.SelectComposition",  -- stub
  "client.Status.Update",         -- not reached (the stub never fails)
  "revision.Fetch",               -- stub
  "client.Status.Update",         -- not reached
  "revision.Validate",            -- stub
  "client.Status.Update",         -- not reached
  "composite.Configure",          -- stub
  "client.Status.Update",         -- not reached
  "resource.Compose",             -- `composeFn` / `composePT`
  "client.Status.Update",         -- `onError` / `onErrorO` after a failed Compose
  "engine.StartWatches",          -- not modelled: no engine in the world (C13's)
  "composite.PublishConnection",  -- not modelled here: the XR of this world wants no connection secret (C09's `publish`)
  "client.Status.Update",         -- not reached (publishing cannot fail without a secret reference)
  "client.Status.Update",         -- `finish … false` (some resource unsynced / not ready)
  "client.Status.Update"]         -- `finish … true`

/-- composite/api.go `APIFilteredSecretPublisher.PublishConnection` ↔ `Xp.C09.publish` -/
def publish : List String := [
  "client.Apply",                                   -- `Xp.C09.publish`: Get; Create | guarded Patch
  "resource.ConnectionSecretMustBeControllableBy",  -- GUARD: `Xp.C09.controllable`
  "resource.AllowUpdateIf",                         -- the no-op test of `publish`
  "resource.IsNotAllowed"]                          -- no-op ⇒ published = false

/-- claim/connection.go `APIConnectionPropagator.PropagateConnection` ↔ `Xp.C09.propagate` -/
def propagate : List String := [
  "client.Get",                                     -- the XR's secret (`fs`)
  "metav1.GetControllerOf",                         -- GUARD: the source must be controlled by the XR (`fs.ctrl = .xr`)
  "client.Apply",                                   -- Get; Create | guarded Patch of the claim's secret
  "resource.ConnectionSecretMustBeControllableBy",  -- GUARD: `Xp.C09.controllable`
  "resource.AllowUpdateIf",                         -- the no-op test
  "resource.IsNotAllowed"]

end Xp.C02Skel

import Xp.Base.Prog
/-
C16 model: `revision.APIEstablisher` (internal/controller/pkg/revision/establisher.go)
— `Establish` = `validate` (every create/update as a DRY RUN) then `establish`
(the same creates/updates for real), `create`, `update`, `ReleaseObjects` — and the
way `revision.Reconciler.Reconcile` uses them (active: Establish control=true;
inactive: ReleaseObjects, then Establish control=false only while
status.objectRefs is empty), over an abstract API server:

* objects are `(key, resourceVersion, ownerReferences, body)`; an owner reference is
  `(uid, controller : *bool, blockOwnerDeletion : *bool)`;
* the server rejects a write whose resourceVersion is stale (Conflict), that
  names an existing/missing object (AlreadyExists/NotFound), or that carries two
  controller references (Invalid); a write equal to what is stored is a no-op;
* `rejects : Obj → Bool` is an ARBITRARY deterministic predicate "the API server
  rejects this object" (schema validation, admission, …), the same for dry-run
  and real requests;
* `fault : Nat → Phase → Outcome` injects a transient error / crash at the Get,
  the dry-run write or the real write of the i-th object (every call of the
  code is one of those), universally quantified in the theorems;
* goroutine completion orders are the inputs `vorder` / `eorder` (the order in
  which results arrive on the channels); `ran` says which ReleaseObjects
  goroutines passed the `ctx.Done()` check.

The store carries the log of non-dry-run writes, so "the store is unchanged"
includes "no real write was even attempted".

Third-party interference (section "third-party interference with Establish" below):
`establishI` / `reconcileRevI` / `runHistoryI` are the same code with another client
deleting, re-creating or re-owning objects after the validate phase, right before
each real write, and between reconciles; `establish` is `establishI … Interf.none`.

`Model/C16World.lean` goes on: third-party writes also DURING the validate phase and
INSIDE ReleaseObjects, cached reads of the validate phase that miss or lag, and a stale
read of the revision itself (`establishV`, `releaseV`, `reconcileRevV`, `runHistoryV`;
`establishI` etc. are the special case).
-/
namespace Xp.C16

structure ORef where
  uid : Nat
  controller : Option Bool
  block : Option Bool
  deriving DecidableEq, Repr

/-- `r.Controller != nil && *r.Controller` -/
def ORef.isCtrl (r : ORef) : Bool := r.controller == some true

structure Obj where
  key : String
  rv : Nat
  owners : List ORef
  body : Nat
  deriving DecidableEq, Repr

inductive Verb where
  | create | update
  deriving DecidableEq, Repr

inductive Err where
  | notFound | alreadyExists | conflict | invalid | other | crashed | notControllable
  deriving DecidableEq, Repr

structure LogEntry where
  verb : Verb
  key : String
  err : Option Err
  changed : Bool
  deriving DecidableEq, Repr

structure Store where
  objs : List Obj
  nextRv : Nat
  /-- non-dry-run writes issued so far, oldest first -/
  log : List LogEntry
  deriving DecidableEq, Repr

def Store.get (s : Store) (k : String) : Option Obj := s.objs.find? (fun o => o.key = k)

/-! ### crossplane-runtime `meta` helpers -/

/-- `meta.AddOwnerReference`: replace the first entry with the same UID, else append. -/
def addOwner : List ORef → ORef → List ORef
  | [], r => [r]
  | x :: xs, r => if x.uid = r.uid then r :: xs else x :: addOwner xs r

/-- `metav1.GetControllerOf`: the first reference with controller=true. -/
def controllerOf (l : List ORef) : Option ORef := l.find? ORef.isCtrl

/-- `meta.AddControllerReference` -/
def addController (l : List ORef) (r : ORef) : Except Err (List ORef) :=
  match controllerOf l with
  | some c => if c.uid = r.uid then .ok (addOwner l r) else .error .notControllable
  | none => .ok (addOwner l r)

/-! ### the parent revision -/

structure PRef where
  name : String
  ref : ORef
  deriving DecidableEq, Repr

/-- the webhook TLS server secret as `getWebhookTLSCert` finds it -/
inductive Tls where
  | noRuntime   -- the revision type has no runtime (ConfigurationRevision)
  | noName      -- spec.tlsServerSecretName is nil
  | present     -- the secret exists and tls.crt is not empty
  | missing     -- the secret does not exist
  | empty       -- tls.crt is empty
  deriving DecidableEq, Repr

structure Parent where
  uid : Nat
  /-- label pkg.crossplane.io/package ("" when absent) -/
  label : String
  /-- the revision's own owner references -/
  owners : List PRef
  tls : Tls := .noRuntime
  deriving DecidableEq, Repr

/-- `GetPackageOwnerReference` followed by `pkgRef.Controller = ptr.To(false)` -/
def pkgRef (p : Parent) : Option ORef :=
  (p.owners.find? (fun r => r.name = p.label)).map fun r => { r.ref with controller := some false }

/-- `meta.AsController(TypedReferenceTo(parent))` -/
def asController (p : Parent) : ORef := ⟨p.uid, some true, some true⟩
/-- `meta.AsOwner(TypedReferenceTo(parent))` -/
def asOwner (p : Parent) : ORef := ⟨p.uid, none, none⟩

/-- owner references `create` puts on a new object -/
def createRefs (p : Parent) : List ORef := asController p :: (pkgRef p).toList

/-- first statement of `update`: add the package as non-controlling owner -/
def withPkg (p : Parent) (l : List ORef) : List ORef :=
  match pkgRef p with
  | some q => addOwner l q
  | none => l

/-- `APIEstablisher.update` up to the API call: the object it submits, or the
error of `AddControllerReference`. -/
def updateSub (p : Parent) (control : Bool) (cur des : Obj) : Except Err Obj :=
  if control then
    match addController (withPkg p cur.owners) (asController p) with
    | .error e => .error e
    | .ok refs => .ok { des with owners := refs, rv := cur.rv }
  else
    .ok { cur with owners := addOwner (withPkg p cur.owners) (asOwner p) }

/-! ### the API server -/

inductive Phase where
  | get | dry | real | tls
  deriving DecidableEq, Repr

abbrev Fault := Nat → Phase → Outcome

def Fault.none : Fault := fun _ _ => .ok

/-- reply to a write -/
inductive WR where
  | ok | err (e : Err) | crash
  deriving DecidableEq, Repr

def ctrlCount (l : List ORef) : Nat := (l.filter ORef.isCtrl).length

/-- a deterministic rejection wins over the transient outcome -/
def effOutcome (rejects : Obj → Bool) (oc : Outcome) (o : Obj) : Outcome :=
  if rejects o then .fail else oc

/-- only non-dry-run writes are logged -/
def logW (dry : Bool) (s : Store) (e : LogEntry) : Store :=
  if dry then s else { s with log := s.log ++ [e] }

def checkCreate (s : Store) (o : Obj) : Option Err :=
  if (s.get o.key).isSome then some .alreadyExists
  else if ctrlCount o.owners > 1 then some .invalid
  else none

def insertObj (s : Store) (o : Obj) (e : LogEntry) : Store :=
  { objs := s.objs ++ [{ o with rv := s.nextRv }], nextRv := s.nextRv + 1, log := s.log ++ [e] }

def apiCreate (rejects : Obj → Bool) (dry : Bool) (oc : Outcome) (s : Store) (o : Obj) : Store × WR :=
  match effOutcome rejects oc o with
  | .fail => (logW dry s ⟨.create, o.key, some .other, false⟩, .err .other)
  | .conflict => (logW dry s ⟨.create, o.key, some .conflict, false⟩, .err .conflict)
  | .crashBefore => (logW dry s ⟨.create, o.key, some .crashed, false⟩, .crash)
  | .ok =>
    match checkCreate s o with
    | some e => (logW dry s ⟨.create, o.key, some e, false⟩, .err e)
    | none => if dry then (s, .ok) else (insertObj s o ⟨.create, o.key, none, true⟩, .ok)
  | .crashAfter =>
    match checkCreate s o with
    | some _ => (logW dry s ⟨.create, o.key, some .crashed, false⟩, .crash)
    | none => if dry then (s, .crash) else (insertObj s o ⟨.create, o.key, some .crashed, true⟩, .crash)

/-- the stored object an update would replace, or why the server refuses -/
def checkUpdate (s : Store) (o : Obj) : Except Err Obj :=
  match s.get o.key with
  | none => .error .notFound
  | some c =>
    if c.rv ≠ o.rv then .error .conflict
    else if ctrlCount o.owners > 1 then .error .invalid
    else .ok c

def sameContent (a b : Obj) : Bool := a.owners == b.owners && a.body == b.body

/-- replace the stored object; an update that changes nothing is a no-op (no new resourceVersion) -/
def replaceObj (s : Store) (c o : Obj) (err : Option Err) : Store :=
  if sameContent c o then { s with log := s.log ++ [⟨.update, o.key, err, false⟩] }
  else { objs := s.objs.map (fun x => if x.key = o.key then { o with rv := s.nextRv } else x),
         nextRv := s.nextRv + 1, log := s.log ++ [⟨.update, o.key, err, true⟩] }

def apiUpdate (rejects : Obj → Bool) (dry : Bool) (oc : Outcome) (s : Store) (o : Obj) : Store × WR :=
  match effOutcome rejects oc o with
  | .fail => (logW dry s ⟨.update, o.key, some .other, false⟩, .err .other)
  | .conflict => (logW dry s ⟨.update, o.key, some .conflict, false⟩, .err .conflict)
  | .crashBefore => (logW dry s ⟨.update, o.key, some .crashed, false⟩, .crash)
  | .ok =>
    match checkUpdate s o with
    | .error e => (logW dry s ⟨.update, o.key, some e, false⟩, .err e)
    | .ok c => if dry then (s, .ok) else (replaceObj s c o none, .ok)
  | .crashAfter =>
    match checkUpdate s o with
    | .error _ => (logW dry s ⟨.update, o.key, some .crashed, false⟩, .crash)
    | .ok c => if dry then (s, .crash) else (replaceObj s c o (some .crashed), .crash)

/-! ### Establish -/

/-- result of one goroutine / of a phase -/
inductive R (α : Type) where
  | ok (a : α) | err (e : Err) | crash
  deriving Repr, DecidableEq

/-- a package object as parsed -/
structure Desired where
  key : String
  body : Nat
  /-- a CRD whose conversion strategy is Webhook: it can only be deployed with the CA bundle -/
  needsCA : Bool := false
  deriving DecidableEq, Repr

/-- a `status.objectRefs` entry. `kinded = false`: apiVersion and kind are empty, because
the typed client clears TypeMeta on an object it has just created and `establish`
builds the reference from that object; `ReleaseObjects` cannot look such a reference up. -/
structure Ref where
  key : String
  kinded : Bool
  deriving DecidableEq, Repr

/-- `currentDesired` (Exists = `current.isSome`) -/
structure CD where
  desired : Obj
  current : Option Obj
  deriving DecidableEq, Repr

def desiredObj (d : Desired) : Obj := ⟨d.key, 0, [], d.body⟩

def liftW {α : Type} (a : α) : Store × WR → Store × R α
  | (s, .ok) => (s, .ok a)
  | (s, .err e) => (s, .err e)
  | (s, .crash) => (s, .crash)

/-- one goroutine of `validate`, after `enrichControlledResource` -/
def validateGo (rejects : Obj → Bool) (fault : Fault) (p : Parent) (control : Bool)
    (s : Store) (i : Nat) (d : Desired) : Store × R CD :=
  match fault i .get with
  | .crashBefore => (s, .crash)
  | .crashAfter => (s, .crash)
  | .fail => (s, .err .other)
  | .conflict => (s, .err .other)
  | .ok =>
    match s.get d.key with
    | none =>
      if control then
        let des := { desiredObj d with owners := createRefs p }
        liftW ⟨des, none⟩ (apiCreate rejects true (fault i .dry) s des)
      else (s, .ok ⟨desiredObj d, none⟩)
    | some cur =>
      match updateSub p control cur (desiredObj d) with
      | .error e => (s, .err e)
      | .ok sub =>
        -- after the dry run the Go objects hold: control: desired = reply, current = current + package owner;
        -- otherwise: current = reply
        let cd : CD := if control then ⟨sub, some { cur with owners := withPkg p cur.owners }⟩
                       else ⟨desiredObj d, some sub⟩
        liftW cd (apiUpdate rejects true (fault i .dry) s sub)

/-- one goroutine of `validate`: `enrichControlledResource` refuses a CRD with webhook
conversion strategy when there is no TLS bundle ("cannot deploy a CRD with webhook
conversion strategy without having a TLS bundle"), before any API call -/
def validateOne (rejects : Obj → Bool) (fault : Fault) (p : Parent) (control : Bool)
    (s : Store) (i : Nat) (d : Desired) : Store × R CD :=
  if control && d.needsCA && p.tls != .present then (s, .err .other)
  else validateGo rejects fault p control s i d

/-- combine the result of one goroutine with the result of the others: every
goroutine runs (errgroup does not stop the others); a crash ends the process. -/
def validateAll (rejects : Obj → Bool) (fault : Fault) (p : Parent) (control : Bool) :
    Store → List (Nat × Desired) → Store × R (List (Nat × CD))
  | s, [] => (s, .ok [])
  | s, (i, d) :: rest =>
    match validateOne rejects fault p control s i d with
    | (s1, .crash) => (s1, .crash)
    | (s1, .err e) =>
      match validateAll rejects fault p control s1 rest with
      | (s2, .crash) => (s2, .crash)
      | (s2, _) => (s2, .err e)
    | (s1, .ok cd) =>
      match validateAll rejects fault p control s1 rest with
      | (s2, .ok cds) => (s2, .ok ((i, cd) :: cds))
      | (s2, .err e) => (s2, .err e)
      | (s2, .crash) => (s2, .crash)

/-- one goroutine of `establish` -/
def establishOne (rejects : Obj → Bool) (fault : Fault) (p : Parent) (control : Bool)
    (s : Store) (i : Nat) (cd : CD) : Store × R Ref :=
  match cd.current with
  | none =>
    if control then
      liftW ⟨cd.desired.key, false⟩
        (apiCreate rejects false (fault i .real) s { cd.desired with owners := createRefs p })
    else (s, .ok ⟨cd.desired.key, true⟩)
  | some cur =>
    match updateSub p control cur cd.desired with
    | .error e => (s, .err e)
    | .ok sub => liftW ⟨cd.desired.key, true⟩ (apiUpdate rejects false (fault i .real) s sub)

def establishAll (rejects : Obj → Bool) (fault : Fault) (p : Parent) (control : Bool) :
    Store → List (Nat × CD) → Store × R (List Ref)
  | s, [] => (s, .ok [])
  | s, (i, cd) :: rest =>
    match establishOne rejects fault p control s i cd with
    | (s1, .crash) => (s1, .crash)
    | (s1, .err e) =>
      match establishAll rejects fault p control s1 rest with
      | (s2, .crash) => (s2, .crash)
      | (s2, _) => (s2, .err e)
    | (s1, .ok k) =>
      match establishAll rejects fault p control s1 rest with
      | (s2, .ok ks) => (s2, .ok (k :: ks))
      | (s2, .err e) => (s2, .err e)
      | (s2, .crash) => (s2, .crash)

/-- the objects in goroutine completion order -/
def pick {α : Type} (xs : List α) (order : List Nat) : List (Nat × α) :=
  order.filterMap fun i => xs[i]?.map fun x => (i, x)

def pickCD (cds : List (Nat × CD)) (order : List Nat) : List (Nat × CD) :=
  order.filterMap fun i => cds.find? fun c => c.1 = i

/-- `getWebhookTLSCert` at the start of `validate` (only for a controlling parent
with a runtime): one Get of the TLS server secret; a missing secret or an empty
certificate is an error. -/
def getCert (fault : Fault) (p : Parent) (control : Bool) : R Unit :=
  if !control then .ok ()
  else match p.tls with
    | .noRuntime => .ok ()
    | .noName => .ok ()
    | t =>
      match fault 0 .tls with
      | .crashBefore => .crash
      | .crashAfter => .crash
      | .fail => .err .other
      | .conflict => .err .other
      | .ok => if t = .present then .ok () else .err .other

/-- `validate` (goroutines) followed by `establish` -/
def establishCore (rejects : Obj → Bool) (fault : Fault) (p : Parent) (control : Bool)
    (s : Store) (objs : List Desired) (vorder eorder : List Nat) : Store × R (List Ref) :=
  match validateAll rejects fault p control s (pick objs vorder) with
  | (s1, .ok cds) => establishAll rejects fault p control s1 (pickCD cds eorder)
  | (s1, .err e) => (s1, .err e)
  | (s1, .crash) => (s1, .crash)

/-- `APIEstablisher.Establish` -/
def establish (rejects : Obj → Bool) (fault : Fault) (p : Parent) (control : Bool)
    (s : Store) (objs : List Desired) (vorder eorder : List Nat) : Store × R (List Ref) :=
  match getCert fault p control with
  | .err e => (s, .err e)
  | .crash => (s, .crash)
  | .ok _ => establishCore rejects fault p control s objs vorder eorder

/-! ### ReleaseObjects -/

/-- flip `controller` to false on the first entry with this uid -/
def flipFirst : List ORef → Nat → List ORef
  | [], _ => []
  | x :: xs, u => if x.uid = u then { x with controller := some false } :: xs else x :: flipFirst xs u

/-- the object `ReleaseObjects` submits, `none` when nothing has to change -/
def releaseSub (p : Parent) (cur : Obj) : Option Obj :=
  match cur.owners.find? (fun r => r.uid = p.uid) with
  | some r => if r.isCtrl then some { cur with owners := flipFirst cur.owners p.uid } else none
  | none => some { cur with owners := cur.owners ++ [asOwner p] }

def releaseOne (rejects : Obj → Bool) (fault : Fault) (p : Parent) (ran : Nat → Bool)
    (s : Store) (i : Nat) (ref : Ref) : Store × R Unit :=
  if !ref.kinded then (s, .err .other)   -- the lookup of a reference without a kind fails
  else if !ran i then (s, .err .other)   -- ctx.Done(): another goroutine failed first
  else
    match fault i .get with
    | .crashBefore => (s, .crash)
    | .crashAfter => (s, .crash)
    | .fail => (s, .err .other)
    | .conflict => (s, .err .other)
    | .ok =>
      match s.get ref.key with
      | none => (s, .ok ())
      | some cur =>
        match releaseSub p cur with
        | none => (s, .ok ())
        | some sub => liftW () (apiUpdate rejects false (fault i .real) s sub)

def releaseAll (rejects : Obj → Bool) (fault : Fault) (p : Parent) (ran : Nat → Bool) :
    Store → List (Nat × Ref) → Store × R Unit
  | s, [] => (s, .ok ())
  | s, (i, k) :: rest =>
    match releaseOne rejects fault p ran s i k with
    | (s1, .crash) => (s1, .crash)
    | (s1, .err e) =>
      match releaseAll rejects fault p ran s1 rest with
      | (s2, .crash) => (s2, .crash)
      | (s2, _) => (s2, .err e)
    | (s1, .ok _) => releaseAll rejects fault p ran s1 rest

/-- `APIEstablisher.ReleaseObjects` over `status.objectRefs = refs` -/
def release (rejects : Obj → Bool) (fault : Fault) (p : Parent) (ran : Nat → Bool)
    (s : Store) (refs : List Ref) (order : List Nat) : Store × R Unit :=
  releaseAll rejects fault p ran s (pick refs order)

/-! ### the revision reconciler (`Reconciler.Reconcile`, the part that concerns package objects) -/

/-- a package revision: its metadata, desired state and the objects its image declares -/
structure Rev where
  parent : Parent
  active : Bool
  objs : List Desired

/-- everything one reconcile does not control: API rejections, faults, goroutine
orders, and the (unstable) sort applied to the references before they are stored -/
structure Env where
  rejects : Obj → Bool
  fault : Fault
  vorder : List Nat
  eorder : List Nat
  rorder : List Nat
  ran : Nat → Bool
  sortRefs : List Ref → List Ref

/-- the cluster: package objects and `status.objectRefs` of every revision (by uid) -/
structure Sys where
  store : Store
  refs : Nat → List Ref

def setRefs (refs : Nat → List Ref) (u : Nat) (ks : List Ref) : Nat → List Ref :=
  fun v => if v = u then ks else refs v

/-- Establish, then `pr.SetObjects(sorted refs)` and the status update -/
def establishAndRecord (sys : Sys) (s : Store) (r : Rev) (e : Env) : Sys × R Unit :=
  match establish e.rejects e.fault r.parent r.active s r.objs e.vorder e.eorder with
  | (s', .ok ks) => (⟨s', setRefs sys.refs r.parent.uid (e.sortRefs ks)⟩, .ok ())
  | (s', .err x) => (⟨s', sys.refs⟩, .err x)
  | (s', .crash) => (⟨s', sys.refs⟩, .crash)

/-- One reconcile of a revision: an inactive revision first releases what its status
references and is done if that list is not empty; otherwise (and for an active
revision) the package is established with `control = active`. -/
def reconcileRev (sys : Sys) (r : Rev) (e : Env) : Sys × R Unit :=
  if r.active then establishAndRecord sys sys.store r e
  else
    match release e.rejects e.fault r.parent e.ran sys.store (sys.refs r.parent.uid) e.rorder with
    | (s1, .ok ()) =>
      if (sys.refs r.parent.uid).length > 0 then (⟨s1, sys.refs⟩, .ok ())
      else establishAndRecord sys s1 r e
    | (s1, .err x) => (⟨s1, sys.refs⟩, .err x)
    | (s1, .crash) => (⟨s1, sys.refs⟩, .crash)

/-- a history: revisions reconciled one after the other, in any order, each with its
own desired state at that time, faults and goroutine orders -/
def runHistory : Sys → List (Rev × Env) → Sys
  | sys, [] => sys
  | sys, (r, e) :: rest => runHistory (reconcileRev sys r e).1 rest

/-! ### third-party interference with Establish

Establish is not alone in the cluster: between its calls the garbage collector, an
administrator or another controller may delete an object, re-create it, or rewrite
its owner references. `Act` is one such third-party write; the server gives a
third-party `put` a fresh resourceVersion like any other write, and third-party
writes are not part of the revision's own write log.

`Interf` places third-party writes inside one Establish call: `mid` after the
validate phase and before the establish phase, `pre i` immediately before the real
(non-dry-run) write issued by the goroutine of object `i` (that is also "between the
individual writes": anything may happen between the write of one object and the
next). The code under interference is the same code: `establishOneI` … `establishI`
repeat `establishOne` … `establish` literally, except for the store the real write
meets. `Interf.none` gives back `establish` (theorem `establishI_no_interference`). -/

/-- one write of a third party -/
inductive Act where
  /-- delete the object with this key (nothing happens when it is absent) -/
  | del (k : String)
  /-- create the object, or replace the stored object of the same key, with these owner
  references and content (`o.rv` is ignored: the server assigns a fresh resourceVersion) -/
  | put (o : Obj)
  deriving DecidableEq, Repr

def applyAct (s : Store) : Act → Store
  | .del k => { s with objs := s.objs.filter fun x => x.key != k }
  | .put o => { s with objs := (s.objs.filter fun x => x.key != o.key) ++ [{ o with rv := s.nextRv }],
                       nextRv := s.nextRv + 1 }

def applyActs (s : Store) (as : List Act) : Store := as.foldl applyAct s

/-- third-party writes interleaved with one Establish call -/
structure Interf where
  /-- after the validate phase, before the establish phase -/
  mid : List Act := []
  /-- immediately before the real write of the goroutine of object `i` -/
  pre : Nat → List Act := fun _ => []

/-- nobody interferes -/
def Interf.none : Interf := {}

/-- one goroutine of `establish`, the third party writing `tp.pre i` right before its API call -/
def establishOneI (rejects : Obj → Bool) (fault : Fault) (tp : Interf) (p : Parent) (control : Bool)
    (s : Store) (i : Nat) (cd : CD) : Store × R Ref :=
  match cd.current with
  | none =>
    if control then
      liftW ⟨cd.desired.key, false⟩
        (apiCreate rejects false (fault i .real) (applyActs s (tp.pre i)) { cd.desired with owners := createRefs p })
    else (s, .ok ⟨cd.desired.key, true⟩)
  | some cur =>
    match updateSub p control cur cd.desired with
    | .error e => (s, .err e)
    | .ok sub => liftW ⟨cd.desired.key, true⟩ (apiUpdate rejects false (fault i .real) (applyActs s (tp.pre i)) sub)

def establishAllI (rejects : Obj → Bool) (fault : Fault) (tp : Interf) (p : Parent) (control : Bool) :
    Store → List (Nat × CD) → Store × R (List Ref)
  | s, [] => (s, .ok [])
  | s, (i, cd) :: rest =>
    match establishOneI rejects fault tp p control s i cd with
    | (s1, .crash) => (s1, .crash)
    | (s1, .err e) =>
      match establishAllI rejects fault tp p control s1 rest with
      | (s2, .crash) => (s2, .crash)
      | (s2, _) => (s2, .err e)
    | (s1, .ok k) =>
      match establishAllI rejects fault tp p control s1 rest with
      | (s2, .ok ks) => (s2, .ok (k :: ks))
      | (s2, .err e) => (s2, .err e)
      | (s2, .crash) => (s2, .crash)

/-- `validate`, the third party's `tp.mid`, then `establish` under `tp.pre` -/
def establishCoreI (rejects : Obj → Bool) (fault : Fault) (tp : Interf) (p : Parent) (control : Bool)
    (s : Store) (objs : List Desired) (vorder eorder : List Nat) : Store × R (List Ref) :=
  match validateAll rejects fault p control s (pick objs vorder) with
  | (s1, .ok cds) => establishAllI rejects fault tp p control (applyActs s1 tp.mid) (pickCD cds eorder)
  | (s1, .err e) => (s1, .err e)
  | (s1, .crash) => (s1, .crash)

/-- `APIEstablisher.Establish` with a third party writing in between -/
def establishI (rejects : Obj → Bool) (fault : Fault) (tp : Interf) (p : Parent) (control : Bool)
    (s : Store) (objs : List Desired) (vorder eorder : List Nat) : Store × R (List Ref) :=
  match getCert fault p control with
  | .err e => (s, .err e)
  | .crash => (s, .crash)
  | .ok _ => establishCoreI rejects fault tp p control s objs vorder eorder

/-- `establishAndRecord` under interference -/
def establishAndRecordI (sys : Sys) (s : Store) (r : Rev) (e : Env) (tp : Interf) : Sys × R Unit :=
  match establishI e.rejects e.fault tp r.parent r.active s r.objs e.vorder e.eorder with
  | (s', .ok ks) => (⟨s', setRefs sys.refs r.parent.uid (e.sortRefs ks)⟩, .ok ())
  | (s', .err x) => (⟨s', sys.refs⟩, .err x)
  | (s', .crash) => (⟨s', sys.refs⟩, .crash)

/-- `reconcileRev` with a third party interfering with its Establish call -/
def reconcileRevI (sys : Sys) (r : Rev) (e : Env) (tp : Interf) : Sys × R Unit :=
  if r.active then establishAndRecordI sys sys.store r e tp
  else
    match release e.rejects e.fault r.parent e.ran sys.store (sys.refs r.parent.uid) e.rorder with
    | (s1, .ok ()) =>
      if (sys.refs r.parent.uid).length > 0 then (⟨s1, sys.refs⟩, .ok ())
      else establishAndRecordI sys s1 r e tp
    | (s1, .err x) => (⟨s1, sys.refs⟩, .err x)
    | (s1, .crash) => (⟨s1, sys.refs⟩, .crash)

/-- one step of a history under interference: the third party writes `before`, then the
revision is reconciled with `tp` interleaved into its Establish call -/
structure HStep where
  before : List Act
  rev : Rev
  env : Env
  tp : Interf

def runHistoryI : Sys → List HStep → Sys
  | sys, [] => sys
  | sys, x :: rest =>
    runHistoryI (reconcileRevI ⟨applyActs sys.store x.before, sys.refs⟩ x.rev x.env x.tp).1 rest

/-! ### Kubernetes garbage collection (simstore `GCStep`) -/

/-- the garbage collector deletes an object that has owner references none of whose owners is alive -/
def gcCollects (live : Nat → Bool) (o : Obj) : Bool :=
  !o.owners.isEmpty && o.owners.all fun r => !live r.uid

end Xp.C16

import Xp.Base.Prog
/-
C14 model: the package manager reconciler
(internal/controller/pkg/manager/reconciler.go `Reconciler.Reconcile`), the
revisioner (internal/controller/pkg/manager/revisioner.go `PackageRevisioner.Revision`)
and the naming function (internal/xpkg/name.go `FriendlyID`, `ToDNSLabel`).

The reconcile is a `Xp.Prog` program: one `call` per API call of the Go function,
in the same order, with the same early returns (crossplane-runtime's
`APIPatchingApplicator.Apply` = Get; NotFound ⇒ Create; else
MustBeControllableBy; merge Patch).  The store holds the package (spec + the
status fields that drive control flow) and the PackageRevision objects
(name, parent label, revision number, desiredState, controller owner, image,
commonLabels, finalizer/deleting flags).  The registry (`xpkg.Fetcher.Head`) and
`name.ParseReference` are parameters (`Env`).

This file models the code with `fixes/D5.diff` applied (the garbage collector
chooses the oldest among the NON-current revisions).  `oldestAny` is the choice
the unfixed tree makes; it is only used for the negation witness in Props.

Not modelled: events, logging, the TLS secret names copied to the revision (functions of the
package name), resourceVersions in THIS file (Model/C14World.lean has them).  The package's
Healthy/Installed conditions are the pure function `pkgConditions` (no control flow depends on them).
-/
namespace Xp.C14

/-! ### internal/xpkg/name.go -/

def isLowerAlnum (c : Char) : Bool := ('a' ≤ c && c ≤ 'z') || ('0' ≤ c && c ≤ '9')
def isSep (c : Char) : Bool := c == '.' || c == '/' || c == ':' || c == '-'

/-- the loop of `ToDNSLabel`; `len` = len(s), first argument = index `i` (ASCII input: byte = char) -/
def dnsLoop (len : Nat) : Nat → List Char → List Char
  | _, [] => []
  | i, c :: cs =>
    let a := if isLowerAlnum c then [c] else []
    let b := if isSep c && (i != 0 && i != 62 && i != len - 1) then ['-'] else []
    if i == 62 then a ++ b else a ++ b ++ dnsLoop len (i + 1) cs

/-- strings.Trim(s, "-") -/
def trimDash (s : List Char) : List Char :=
  ((s.dropWhile (· == '-')).reverse.dropWhile (· == '-')).reverse

def toDNSLabelL (l : List Char) : List Char := trimDash (dnsLoop l.length 0 l)

def toDNSLabel (s : String) : String := String.ofList (toDNSLabelL s.toList)

/-- `FriendlyID(name, hash) = ToDNSLabel(truncate(name,50) + "-" + truncate(hash,12))` -/
def friendlyIDL (name hash : List Char) : List Char := toDNSLabelL (name.take 50 ++ '-' :: hash.take 12)

def friendlyID (name hash : String) : String := String.ofList (friendlyIDL name.toList hash.toList)

/-! ### objects -/

inductive State where
  | active | inactive | unset
  deriving DecidableEq, Repr, Inhabited

inductive Policy where
  | unset | automatic | manual
  deriving DecidableEq, Repr, Inhabited

inductive Pull where
  | unset | always | never | ifNotPresent
  deriving DecidableEq, Repr, Inhabited

abbrev Labels := List (String × String)

structure Rev where
  name : String
  parent : Option String    -- value of the label pkg.crossplane.io/package
  number : Int              -- spec.revision
  state : State             -- spec.desiredState
  ctrl : Option String      -- uid of the controller owner reference
  image : String
  labels : Labels           -- spec.commonLabels, sorted by key
  fin : Bool                -- has a finalizer
  deleting : Bool           -- deletionTimestamp set
  /-- the other spec fields `Reconcile` copies from the package (`copiedFields`), as the JSON leaves the
  object serialises to, sorted by path: `packagePullPolicy`, `packagePullSecrets` (names, comma separated),
  `ignoreCrossplaneConstraints`, `skipDependencyResolution`, `runtimeConfigRef.{apiVersion,kind,name}`,
  `controllerConfigRef.name`.  A field with `omitempty` that is empty has NO entry. -/
  extra : Labels := []
  deriving DecidableEq, Repr, Inhabited

structure Spec where
  source : String
  limit : Option Int        -- revisionHistoryLimit
  policy : Policy           -- revisionActivationPolicy
  pull : Pull               -- packagePullPolicy
  paused : Bool             -- pause annotation
  labels : Labels           -- commonLabels
  /-- the remaining spec fields the reconciler copies to the revision (all but `package`, `packagePullPolicy`
  and `commonLabels`, which are the fields above), as serialised JSON leaves sorted by path -/
  extra : Labels := []
  deriving DecidableEq, Repr, Inhabited

structure Status where
  curRev : String
  curId : String
  pausedCond : Bool         -- Synced=False/ReconcilePaused condition present
  deriving DecidableEq, Repr, Inhabited

structure Pkg where
  name : String
  uid : String
  spec : Spec
  status : Status
  deriving DecidableEq, Repr, Inhabited

structure Store where
  pkg : Option Pkg
  revs : List Rev           -- kept sorted by name (the order `List` returns)
  deriving DecidableEq, Repr, Inhabited

/-! ### registry and reference parser (parameters) -/

/-- The class of error `xpkg.Fetcher.Head` fails with.  `PackageRevisioner.Revision` of the
current tree does not look at it (`if err != nil || d == nil`), and the theorems of
Props/C14.lean say so for every class:
`plain` = an opaque error; `temporary` = a `*transport.Error` (bare or wrapped) whose
`Temporary()` is true (HTTP 408/500/502/503/504, or TOOMANYREQUESTS/UNAVAILABLE/UNKNOWN
diagnostics), or any other error with a `Temporary() bool` method that answers true;
`permanent` = a `*transport.Error` with `Temporary()` false (401 UNAUTHORIZED, 404
MANIFEST_UNKNOWN, 403 DENIED); `timeout` = `context.DeadlineExceeded` / `context.Canceled`. -/
inductive ErrClass where
  | plain | temporary | permanent | timeout
  deriving DecidableEq, Repr, Inhabited

/-- the class of each kind of error the harness' fake registry answers with
(harness/main/c14.go `c14ErrKinds` / `c14HeadErr`); checked against the classification of the real
error values by `fetch_error_classes_match_source` -/
def errClassOfKind : String → ErrClass
  | "err:503" | "err:503b" | "err:504" | "err:429" | "err:net" => .temporary
  | "err:401" | "err:404" | "err:403" => .permanent
  | "err:deadline" | "err:canceled" => .timeout
  | _ => .plain

def ErrClass.ofString : String → ErrClass
  | "temporary" => .temporary
  | "permanent" => .permanent
  | "timeout" => .timeout
  | _ => .plain

/-- the outcome of `fetcher.Head(ctx, ref, secrets...)` -/
inductive Head where
  | err (c : ErrClass) | nil | digest (d : String)
  deriving DecidableEq, Repr, Inhabited

structure Env where
  head : String → Head       -- fetcher.Head for a source
  parseOk : String → Bool    -- name.ParseReference succeeds

/-- does `Revision` answer from the package alone, without asking the registry?
(`PullNever`, or `PullIfNotPresent` with `status.currentIdentifier == spec.package`) -/
def skipsFetch (p : Pkg) : Bool :=
  p.spec.pull = .never || (p.spec.pull = .ifNotPresent && p.status.curId = p.spec.source)

/-- `PackageRevisioner.Revision`: `error` = an error is returned, `ok ""` = no digest yet.
A function of the package (name, spec.package, pull policy, status.currentRevision,
status.currentIdentifier) and of the fetch outcome only. -/
def revisionName (env : Env) (p : Pkg) : Except Unit String :=
  if p.spec.pull = .never then .ok (friendlyID p.name p.spec.source)
  else if p.spec.pull = .ifNotPresent ∧ p.status.curId = p.spec.source then .ok p.status.curRev
  else if !env.parseOk p.spec.source then .error ()
  else match env.head p.spec.source with
    | .err _ => .error ()
    | .nil => .ok ""
    | .digest d => .ok (friendlyID p.name d)

/-! ### API server -/

inductive EnvAct where
  | editSpec (sp : Spec)     -- a user edits the package
  | finalize                 -- the revision controller lets deleted revisions go
  | addFin (name : String)   -- the revision controller adds its finalizer
  deriving Repr, Inhabited

inductive Req where
  | getPkg (name : String)
  | statusPkg (name : String) (st : Status)
  | listRevs (parent : String)
  | listImageConfigs
  | getRev (name : String)
  | createRev (r : Rev) (hasRV : Bool)
  | patchRev (r : Rev)
  | updateRev (r : Rev)
  | deleteRev (name : String)
  | env (a : EnvAct)
  deriving Repr, Inhabited

inductive Err where
  | notFound | conflict | other
  deriving DecidableEq, Repr, Inhabited

inductive Resp where
  | pkg (p : Pkg)
  | revs (l : List Rev)
  | rev (r : Rev)
  | ok
  | err (e : Err)
  deriving Repr, Inhabited

def setLabel (k v : String) : Labels → Labels
  | [] => [(k, v)]
  | (k', v') :: rest =>
    if k = k' then (k, v) :: rest
    else if k < k' then (k, v) :: (k', v') :: rest
    else (k', v') :: setLabel k v rest

/-- JSON merge patch of a string map -/
def mergeLabels (stored desired : Labels) : Labels :=
  desired.foldl (fun acc kv => setLabel kv.1 kv.2 acc) stored

/-- JSON merge patch of a stored revision with the full desired object
(fields with `omitempty` that are empty in the desired object are left alone). -/
def mergeRev (stored d : Rev) : Rev :=
  { name := stored.name
    parent := match d.parent with | some x => some x | none => stored.parent
    number := d.number
    state := d.state
    ctrl := match d.ctrl with | some x => some x | none => stored.ctrl
    image := d.image
    labels := mergeLabels stored.labels d.labels
    fin := d.fin || stored.fin
    deleting := stored.deleting
    -- a leaf the desired object does not serialise (omitempty, empty) is left as stored
    extra := mergeLabels stored.extra d.extra }

def findRev (n : String) (revs : List Rev) : Option Rev := revs.find? (fun r => r.name = n)

/-- replace the object named `r.name` -/
def setRev (r : Rev) (revs : List Rev) : List Rev := revs.map (fun x => if x.name = r.name then r else x)

def insertRev (r : Rev) : List Rev → List Rev
  | [] => [r]
  | x :: xs => if r.name < x.name then r :: x :: xs else x :: insertRev r xs

def isWrite : Req → Bool
  | .getPkg _ | .listRevs _ | .listImageConfigs | .getRev _ => false
  | _ => true

/-- the requests that write a PackageRevision -/
def isRevWrite : Req → Bool
  | .createRev _ _ | .patchRev _ | .updateRev _ | .deleteRev _ => true
  | _ => false

def exec (s : Store) : Req → Store × Resp
  | .getPkg n =>
    match s.pkg with
    | some p => if p.name = n then (s, .pkg p) else (s, .err .notFound)
    | none => (s, .err .notFound)
  | .statusPkg n st =>
    match s.pkg with
    | some p => if p.name = n then ({ s with pkg := some { p with status := st } }, .ok) else (s, .err .notFound)
    | none => (s, .err .notFound)
  | .listRevs par => (s, .revs (s.revs.filter (fun r => r.parent = some par)))
  | .listImageConfigs => (s, .ok)
  | .getRev n =>
    match findRev n s.revs with
    | some r => (s, .rev r)
    | none => (s, .err .notFound)
  | .createRev r hasRV =>
    match findRev r.name s.revs with
    | some _ => (s, .err .other)          -- AlreadyExists
    | none =>
      if hasRV then (s, .err .other)      -- "resourceVersion should not be set on objects to be created"
      else
        let r' := { r with deleting := false }
        ({ s with revs := insertRev r' s.revs }, .rev r')
  | .patchRev d =>
    match findRev d.name s.revs with
    | some cur => let m := mergeRev cur d; ({ s with revs := setRev m s.revs }, .rev m)
    | none => (s, .err .notFound)
  | .updateRev d =>
    match findRev d.name s.revs with
    | some cur => let m := { d with deleting := cur.deleting }; ({ s with revs := setRev m s.revs }, .rev m)
    | none => (s, .err .notFound)
  | .deleteRev n =>
    match findRev n s.revs with
    | some cur =>
      if cur.fin then ({ s with revs := setRev { cur with deleting := true } s.revs }, .ok)
      else ({ s with revs := s.revs.filter (fun r => r.name ≠ n) }, .ok)
    | none => (s, .err .notFound)
  | .env (.editSpec sp) =>
    match s.pkg with
    | some p => ({ s with pkg := some { p with spec := sp } }, .ok)
    | none => (s, .ok)
  | .env .finalize => ({ s with revs := s.revs.filter (fun r => !r.deleting) }, .ok)
  | .env (.addFin n) => ({ s with revs := s.revs.map (fun r => if r.name = n then { r with fin := true } else r) }, .ok)

/-- printable tag of a request, in the form the harness prints the calls of the real reconciler -/
def Req.tag : Req → String
  | .getPkg _ => "get pkg"
  | .statusPkg _ _ => "status pkg"
  | .listRevs _ => "list rev"
  | .listImageConfigs => "list imageconfigs"
  | .getRev n => "get rev " ++ n
  | .createRev r _ => "create rev " ++ r.name
  | .patchRev r => "patch rev " ++ r.name
  | .updateRev r => "update rev " ++ r.name
  | .deleteRev n => "delete rev " ++ n
  | .env _ => "env"

def errResp : Outcome → Req → Resp
  | .conflict, r => if isWrite r then .err .conflict else .err .other
  | _, _ => .err .other

def sem : Sem Store Req Resp := ⟨exec, errResp⟩

/-! ### the reconciler -/

abbrev P := Prog Req Resp

inductive Res where
  | gone                       -- the package no longer exists: nothing to do
  | err                        -- an error is returned (implicit requeue)
  | requeue                    -- Requeue: true without error
  | paused                     -- pause handling wrote the status and returned
  | done (cur : String) (after : Bool)  -- full reconcile; `after` = RequeueAfter (pull policy Always)
  deriving DecidableEq, Repr, Inhabited

inductive ApplyOut where
  | ok (r : Rev) | conflict | err
  deriving Repr, Inhabited

/-- resource.MustBeControllableBy(uid) on the current object -/
def controllable (cur : Rev) (uid : String) : Bool :=
  match cur.ctrl with
  | none => true
  | some c => c = uid

def writeOut : Resp → ApplyOut
  | .rev r => .ok r
  | .err .conflict => .conflict
  | _ => .err

/-- `r.client.Apply(ctx, desired, resource.MustBeControllableBy(uid))` -/
def applyRev (desired : Rev) (hasRV : Bool) (uid : String) : P ApplyOut :=
  .call (.getRev desired.name) fun
    | .rev cur =>
      if controllable cur uid then .call (.patchRev desired) fun x => .ret (writeOut x)
      else .ret .err
    | .err .notFound => .call (.createRev desired hasRV) fun x => .ret (writeOut x)
    | _ => .ret .err

/-- the revision loop: every non-current Active revision is set Inactive -/
def deactLoop (uid cur : String) : List Rev → P (Option Res)
  | [] => .ret none
  | r :: rest =>
    if r.name = cur then deactLoop uid cur rest
    else if r.state = .active then
      Prog.bind (applyRev { r with state := .inactive } true uid) fun
        | .ok _ => deactLoop uid cur rest
        | .conflict => .ret (some .requeue)
        | .err => .ret (some .err)
    else deactLoop uid cur rest

def maxRevision (l : List Rev) : Int := l.foldl (fun m r => if r.number > m then r.number else m) 0

/-- the lowest numbered revision other than the current one (first such in list order) -/
def oldestNonCurrent (cur : String) : List Rev → Option Rev
  | [] => none
  | r :: rest =>
    if r.name = cur then oldestNonCurrent cur rest
    else match oldestNonCurrent cur rest with
      | none => some r
      | some b => if b.number < r.number then some b else some r

/-- the lowest numbered revision, current or not: what the UNFIXED tree collects (defect D5) -/
def oldestAny : List Rev → Option Rev
  | [] => none
  | r :: rest =>
    match oldestAny rest with
    | none => some r
    | some b => if b.number < r.number then some b else some r

/-- which revision, if any, history garbage collection deletes -/
def gcVictimWith (oldest : List Rev → Option Rev) (limit : Option Int) (l : List Rev) : Option Rev :=
  match limit with
  | none => none
  | some lim => if lim ≠ 0 ∧ (l.length : Int) > lim + 1 then oldest l else none

def gcVictim (limit : Option Int) (cur : String) (l : List Rev) : Option Rev :=
  gcVictimWith (oldestNonCurrent cur) limit l

def gcVictimUnfixed (limit : Option Int) (l : List Rev) : Option Rev :=
  gcVictimWith oldestAny limit l

def newRev : Rev :=
  { name := "", parent := none, number := 0, state := .unset, ctrl := none, image := "", labels := [], fin := false, deleting := false }

def Pull.str : Pull → String
  | .unset => "" | .always => "Always" | .never => "Never" | .ifNotPresent => "IfNotPresent"

/-- the serialised leaves of the spec fields `Reconcile` sets on the revision from the package besides image
and commonLabels (`pr.SetPackagePullPolicy(p.GetPackagePullPolicy())` … `prwr.SetControllerConfigRef(…)`): every
setter overwrites the in-memory field, so the DESIRED object carries exactly the package's leaves -/
def copiedExtra (sp : Spec) : Labels :=
  match sp.pull with
  | .unset => sp.extra
  | x => setLabel "packagePullPolicy" x.str sp.extra

/-- the desired current revision as built between the loop and the Apply -/
def desiredCurrent (p : Pkg) (cur : String) (listed : List Rev) : Rev :=
  let pr0 := (findRev cur listed).getD newRev
  let maxR := maxRevision listed
  let num := if pr0.number < maxR ∨ maxR = 0 then maxR + 1 else pr0.number
  let st := if pr0.state ≠ .active ∧ p.spec.policy ≠ .manual then State.active else pr0.state
  { pr0 with
    name := cur, parent := some p.name, number := num, state := st, image := p.spec.source,
    labels := p.spec.labels,
    extra := copiedExtra p.spec,
    ctrl := match pr0.ctrl with | none => some p.uid | some o => some o }

def finishStatus (p : Pkg) (cur : String) : P Res :=
  .call (.statusPkg p.name { curRev := cur, curId := p.spec.source, pausedCond := p.status.pausedCond }) fun
    | .ok => .ret (.done cur (p.spec.pull = .always))
    | _ => .ret .err

def applyCurrent (p : Pkg) (cur : String) (listed : List Rev) : P Res :=
  Prog.bind (applyRev (desiredCurrent p cur listed) (findRev cur listed).isSome p.uid) fun
    | .conflict => .ret .requeue
    | .err => .ret .err
    | .ok pr =>
      if pr.labels = p.spec.labels then finishStatus p cur
      else .call (.updateRev { pr with labels := p.spec.labels }) fun
        | .rev _ => finishStatus p cur
        | .err .conflict => .ret .requeue
        | _ => .ret .err

/-- everything after the revision name is known; parametric in the collector's choice -/
def stage2With (victim : Option Rev) (p : Pkg) (cur : String) (listed : List Rev) : P Res :=
  Prog.bind (deactLoop p.uid cur listed) fun
    | some r => .ret r
    | none =>
      match victim with
      | some v => .call (.deleteRev v.name) fun
        | .ok => applyCurrent p cur listed
        | _ => .ret .err
      | none => applyCurrent p cur listed

def stage2 (p : Pkg) (cur : String) (listed : List Rev) : P Res :=
  stage2With (gcVictim p.spec.limit cur listed) p cur listed

def statusThen (p : Pkg) (r : Res) : P Res :=
  .call (.statusPkg p.name p.status) fun
    | .ok => .ret r
    | _ => .ret .err

/-- everything after the List of the package's revisions answered `listed` -/
def afterList (unfixed : Bool) (env : Env) (p : Pkg) (listed : List Rev) : P Res :=
  .call .listImageConfigs fun
    | .ok =>
      match revisionName env p with
      | .error _ => statusThen p .err
      | .ok cur =>
        if cur = "" then statusThen p .requeue
        else if unfixed then stage2With (gcVictimUnfixed p.spec.limit listed) p cur listed
        else stage2 p cur listed
    -- PullSecretFor failed: the status update's own error is ignored
    | _ => .call (.statusPkg p.name p.status) fun _ => .ret .err

def reconcileWith (unfixed : Bool) (env : Env) (pname : String) : P Res :=
  .call (.getPkg pname) fun
    | .pkg p =>
      if p.spec.paused then
        .call (.statusPkg pname { p.status with pausedCond := true }) fun
          | .ok => .ret .paused
          | _ => .ret .err
      else if p.status.pausedCond then
        .call (.statusPkg pname { p.status with pausedCond := false }) fun
          | .ok => .ret .paused
          | _ => .ret .err
      else
        .call (.listRevs pname) fun
          | .revs listed => afterList unfixed env p listed
          -- `resource.IgnoreNotFound(err) != nil`: a NotFound answer to the List is taken as "no
          -- revisions" (an informer-backed client never answers a List that way; an injected one can)
          | .err .notFound => afterList unfixed env p []
          | _ => .ret .err
    | .err .notFound => .ret .gone
    | _ => .ret .err

/-- `Reconciler.Reconcile` (with fixes/D5.diff) -/
def pkgReconcile (env : Env) (pname : String) : P Res := reconcileWith false env pname

/-- the same with the collector of the unfixed tree -/
def pkgReconcileUnfixed (env : Env) (pname : String) : P Res := reconcileWith true env pname

/-- an environment step as a one-call program, so that histories are lists of programs -/
def envStep (a : EnvAct) : P Res := .call (.env a) fun _ => .ret .gone

/-- one step of a history: a reconcile against some registry state, or an environment step
(package edit, revision-controller finalizer handling) -/
inductive Step where
  | reconcile (env : Env)
  | envAct (a : EnvAct)

def stepProg (pname : String) : Step → P Res
  | .reconcile env => pkgReconcile env pname
  | .envAct a => envStep a

/-- a history as a list of (fault plan, program) pairs for `reachHistory` -/
def historyProgs (pname : String) (h : List (Plan × Step)) : List (Plan × P Res) :=
  h.map fun x => (x.1, stepProg pname x.2)

/-! ### the call skeletons of the mirrored Go functions (tie "a")

Each list is what go/ast extracts from the function of the CURRENT tree (harness/main/c14_dump.go →
`Xp.Gen.c14Skel*`); `skeleton_*` in Props/C14.lean state the equalities.  Each entry names the model step that
mirrors it (`—` = no model step, with the reason). -/

/-- `Reconciler.Reconcile`; the flag marks the calls on the complete path (no early return) that reach the
API server or the revisioner: `skeleton_reconcile_from_model` derives exactly those from `pkgReconcile`. -/
def skelReconcileTagged : List (String × Bool) :=
  [("client.Get", true),                    -- reconcileWith: .getPkg
   ("resource.IgnoreNotFound", false),      -- reconcileWith: `.err .notFound => .ret .gone`
   ("meta.IsPaused", false),                -- reconcileWith: `if p.spec.paused`
   ("p.SetConditions", false),              -- … pausedCond := true
   ("client.Status.Update", false),         -- … .statusPkg { pausedCond := true }, returns
   ("p.GetCondition", false),               -- reconcileWith: `else if p.status.pausedCond`
   ("p.CleanConditions", false),            -- … pausedCond := false
   ("client.Status.Update", false),         -- … .statusPkg { pausedCond := false }, returns
   ("client.List", true),                   -- reconcileWith: .listRevs
   ("resource.IgnoreNotFound", false),      -- reconcileWith: `.err .notFound => afterList … []`
   ("config.PullSecretFor", true),          -- afterList: .listImageConfigs (ImageConfigStore lists ImageConfigs)
   ("p.SetConditions", false),              -- — Unpacking condition: not modelled
   ("client.Status.Update", false),         -- afterList: PullSecretFor failed, status error ignored
   ("pkg.Revision", true),                  -- afterList: revisionName env p (no API call)
   ("p.SetConditions", false),              -- — Unpacking condition: not modelled
   ("client.Status.Update", false),         -- afterList: statusThen p .err
   ("p.SetConditions", false),              -- — Unpacking condition: not modelled
   ("client.Status.Update", false),         -- afterList: statusThen p .requeue (no digest yet)
   ("p.SetCurrentRevision", false),         -- finishStatus: curRev := cur
   ("p.SetCurrentIdentifier", false),       -- finishStatus: curId := p.spec.source
   ("prs.GetRevisions", false),             -- the `listed` argument of stage2
   ("rev.SetDesiredState", false),          -- deactLoop: { r with state := .inactive }
   ("client.Apply", true),                  -- deactLoop: applyRev … true p.uid
   ("resource.MustBeControllableBy", false),-- applyRev: controllable cur uid
   ("kerrors.IsConflict", false),           -- deactLoop: `.conflict => .ret (some .requeue)`
   ("pr.SetRevision", false),               -- desiredCurrent: num
   ("client.Delete", true),                 -- stage2With: .deleteRev (gcVictim)
   ("pr.GetCondition", false),              -- pkgConditions: prHealthy = true
   ("p.GetCondition", false),               -- — only decides whether an event is recorded
   ("p.SetConditions", false),              -- pkgConditions: healthy := true
   ("pr.GetCondition", false),              -- pkgConditions: prHealthy = false
   ("p.SetConditions", false),              -- pkgConditions: healthy := false
   ("pr.GetCondition", false),              -- pkgConditions: prHealthy = unknown
   ("p.SetConditions", false),              -- pkgConditions: healthy := unknown
   ("pr.SetDesiredState", false),           -- desiredCurrent: st
   ("meta.AddOwnerReference", false),       -- desiredCurrent: ctrl
   ("client.Apply", true),                  -- applyCurrent: applyRev (desiredCurrent …)
   ("resource.MustBeControllableBy", false),-- applyRev: controllable cur uid
   ("kerrors.IsConflict", false),           -- applyCurrent: `.conflict => .ret .requeue`
   ("client.Update", true),                 -- applyCurrent: .updateRev (commonLabels differ)
   ("kerrors.IsConflict", false),           -- applyCurrent: `.err .conflict => .ret .requeue`
   ("p.SetConditions", false),              -- pkgConditions: installed := true (Active)
   ("p.SetConditions", false),              -- pkgConditions: installed := false (Inactive) when the revision is not Active
   ("pullBasedRequeue", false),             -- finishStatus: `.done cur (p.spec.pull = .always)`
   ("client.Status.Update", true)]          -- finishStatus: .statusPkg
   -- not in the verb set / not modelled: events (r.record.Event), log calls, context.WithTimeout, the field
   -- copies (`copiedFields`); no `meta.WasDeleted` / `GetDeletionTimestamp` call exists: a terminating revision
   -- is listed, counted and collected like any other (exec `.listRevs`, `gcVictim`)

def skelReconcile : List String := skelReconcileTagged.map (·.1)

/-- the source call a model request stands for (`none` = issued inside `client.Apply`) -/
def Req.srcCall : Req → Option String
  | .getPkg _ => some "client.Get"
  | .statusPkg _ _ => some "client.Status.Update"
  | .listRevs _ => some "client.List"
  | .listImageConfigs => some "config.PullSecretFor"
  | .getRev _ => some "client.Apply"        -- Apply starts with its Get
  | .createRev _ _ | .patchRev _ => none    -- … and ends with Create or Patch
  | .updateRev _ => some "client.Update"
  | .deleteRev _ => some "client.Delete"
  | .env _ => none

/-- `PackageRevisioner.Revision` (with its `return`s) -/
def skelRevision : List String :=
  ["p.GetPackagePullPolicy",                                   -- revisionName: p.spec.pull
   "return", "xpkg.FriendlyID", "p.GetName", "p.GetSource",    -- `.never`: .ok (friendlyID p.name p.spec.source)
   "p.GetCurrentIdentifier", "p.GetSource",                    -- `.ifNotPresent ∧ p.status.curId = p.spec.source`
   "return", "p.GetCurrentRevision",                           -- … .ok p.status.curRev
   "name.ParseReference", "p.GetSource", "name.WithDefaultRegistry",  -- env.parseOk p.spec.source (oracle: go-containerregistry)
   "return",                                                   -- `!parseOk`: .error ()
   "v1.RefNames", "p.GetPackagePullSecrets",                   -- — pull secrets are passed to the fetcher only (Env.head ignores them)
   "fetcher.Head",                                             -- env.head p.spec.source
   "return",                                                   -- `.err _ => .error ()`, `.nil => .ok ""` (errors.Wrap(nil) = nil)
   "return", "xpkg.FriendlyID", "p.GetName"]                   -- `.digest d => .ok (friendlyID p.name d)`

/-- `xpkg.FriendlyID`: friendlyIDL = toDNSLabelL (name.take 50 ++ '-' :: hash.take 12) -/
def skelFriendlyID : List String := ["ToDNSLabel", "strings.Join", "truncate", "truncate"]

/-- `xpkg.ToDNSLabel`: dnsLoop (the two WriteByte, `len(s)-1`), trimDash -/
def skelToDNSLabel : List String := ["cut.WriteByte", "len", "cut.WriteByte", "return", "strings.Trim", "cut.String"]

/-- `xpkg.K8sFetcher.Head`, the fetcher behind `Env.head`: ONE digest per reference — the digest of the manifest
the reference points at (for a multi-platform image the digest of the INDEX), whether the registry serves
HEAD or the GET fallback is taken.  The harness runs this function against an in-process registry
(harness/main/c14_reg.go) and ships that digest as `head`. -/
def skelFetcherHead : List String :=
  ["k8schain.New",      -- — the keychain from pull secrets / service account: not modelled (Env.head ignores secrets)
   "return",            -- … its error: `.err _`
   "remote.Head",       -- Env.head: `.digest d`
   "remote.Get",        -- Env.head again: HEAD refused / no descriptor ⇒ GET of the SAME reference, same manifest digest
   "return", "errors.Wrapf",  -- both failed: `.err _`
   "return",            -- `&rd.Descriptor`: `.digest d`
   "return"]            -- `d`: `.digest d`

/-- `pullBasedRequeue`: RequeueAfter for Always, else nothing — `Res.done _ (p.spec.pull = .always)` -/
def skelPullBasedRequeue : List String := ["return", "return"]

/-- crossplane-runtime `APIPatchingApplicator.Apply` (the module source the harness is linked against) -/
def skelApply : List String :=
  ["client.Create",          -- — nameless object with generateName: revisions always have a name
   "o.DeepCopyObject",       -- the `desired` argument of applyRev
   "client.Get",             -- applyRev: .getRev
   "kerrors.IsNotFound",     -- applyRev: `.err .notFound =>`
   "client.Create",          -- applyRev: .createRev desired hasRV
   "fn",                     -- applyRev: controllable cur uid (the one ApplyOption passed)
   "client.Patch"]           -- applyRev: .patchRev desired (merge patch of the whole desired object: mergeRev)

/-- crossplane-runtime `resource.MustBeControllableBy`: `controllable` -/
def skelMustBeControllableBy : List String :=
  ["return", "return",            -- — no object metadata: impossible for a typed revision
   "metav1.GetControllerOf",      -- cur.ctrl
   "return",                      -- `none => true`
   "return",                      -- `some c => c = uid` (false)
   "return"]                      -- … (true)

/-- The package → revision copies of `Reconcile`: (setter, getter, revision spec leaves written, package spec
leaves read).  Model: `image := p.spec.source`, `labels := p.spec.labels` and `extra := copiedExtra p.spec`
in `desiredCurrent`; the last entry is the second `SetCommonLabels` before `client.Update`
(`applyCurrent`: `{ pr with labels := p.spec.labels }`).  The two TLS secret names are functions of the package
NAME, not of its spec; they are not modelled (never cleared, never edited). -/
def copiedFields : List (String × String × List String × List String) :=
  [("pr.SetSource", "p.GetSource", ["image"], ["package"]),
   ("pr.SetPackagePullPolicy", "p.GetPackagePullPolicy", ["packagePullPolicy"], ["packagePullPolicy"]),
   ("pr.SetPackagePullSecrets", "p.GetPackagePullSecrets", ["packagePullSecrets"], ["packagePullSecrets"]),
   ("pr.SetIgnoreCrossplaneConstraints", "p.GetIgnoreCrossplaneConstraints", ["ignoreCrossplaneConstraints"], ["ignoreCrossplaneConstraints"]),
   ("pr.SetSkipDependencyResolution", "p.GetSkipDependencyResolution", ["skipDependencyResolution"], ["skipDependencyResolution"]),
   ("pr.SetCommonLabels", "p.GetCommonLabels", ["commonLabels.probe"], ["commonLabels.probe"]),
   ("prwr.SetRuntimeConfigRef", "pwr.GetRuntimeConfigRef", ["runtimeConfigRef.apiVersion", "runtimeConfigRef.kind", "runtimeConfigRef.name"],
     ["runtimeConfigRef.apiVersion", "runtimeConfigRef.kind", "runtimeConfigRef.name"]),
   ("prwr.SetControllerConfigRef", "pwr.GetControllerConfigRef", ["controllerConfigRef.name"], ["controllerConfigRef.name"]),
   ("prwr.SetTLSServerSecretName", "pwr.GetTLSServerSecretName", ["tlsServerSecretName"], ["(metadata.name)"]),
   ("prwr.SetTLSClientSecretName", "pwr.GetTLSClientSecretName", ["tlsClientSecretName"], ["(metadata.name)"]),
   ("pr.SetCommonLabels", "p.GetCommonLabels", ["commonLabels.probe"], ["commonLabels.probe"])]

/-- the revision spec leaves written by the copies that the model keeps OUTSIDE `Rev.extra`: image, commonLabels
(own fields of `Rev`) and the two TLS names (not modelled) -/
def ownLeaves : List String := ["image", "commonLabels.probe", "tlsServerSecretName", "tlsClientSecretName"]

/-! ### the package's conditions (Healthy, Installed) -/

inductive Cond where
  | unset | true | false | unknown
  deriving DecidableEq, Repr, Inhabited

/-- The package's (Healthy, Installed) condition statuses as a complete `Reconcile` leaves them, from the Healthy
condition of the current revision AS LISTED (`pr.GetCondition(v1.TypeHealthy)`, read before the Apply) and the
desiredState of the current revision after Apply/Update.  crossplane-runtime's `GetCondition` answers status
Unknown for a condition that is not there, so a revision without a Healthy condition - a new one in particular -
makes the package UnknownHealth: True ⇒ Healthy, False ⇒ Unhealthy, Unknown or none ⇒ UnknownHealth; `Active()`
then `Inactive()` unless the revision is Active.  No control flow of `Reconcile` depends on them: they are not
part of `Status` / `Prog`; the harness monitor `package-condition-wrong` evaluates this function on the real run. -/
def pkgConditions (prHealthy : Cond) (curState : State) : Cond × Cond :=
  (match prHealthy with
   | .true => .true
   | .false => .false
   | .unknown | .unset => .unknown,
   if curState = .active then .true else .false)

/-- the leaves of `Rev.extra` / `Spec.extra`: the revision-side leaves of `copiedFields` other than image,
commonLabels and the TLS names -/
def extraKeys : List String :=
  ["controllerConfigRef.name", "ignoreCrossplaneConstraints", "packagePullPolicy", "packagePullSecrets",
   "runtimeConfigRef.apiVersion", "runtimeConfigRef.kind", "runtimeConfigRef.name", "skipDependencyResolution"]

/-- lookup in a leaf list -/
def getL (k : String) (l : Labels) : Option String := (l.find? (fun kv => kv.1 = k)).map (·.2)

/-! ### predicates of the property -/

def labelled (pname : String) (r : Rev) : Bool := r.parent = some pname

def isActive (pname : String) (r : Rev) : Bool := labelled pname r && r.state = .active

/-- the Active revisions of package `pname` -/
def activeRevs (pname : String) (s : Store) : List Rev := s.revs.filter (isActive pname)

/-- object names are keys -/
def WF (s : Store) : Prop := (s.revs.map (·.name)).Nodup

instance (s : Store) : Decidable (WF s) := by unfold WF; infer_instance

end Xp.C14

import Xp.Base.Prog
/-
C14 model: the package manager reconciler
(internal/controller/pkg/manager/reconciler.go `Reconciler.Reconcile`), the
revisioner (internal/controller/pkg/manager/revisioner.go `PackageRevisioner.Revision`)
and the naming function (internal/xpkg/name.go `FriendlyID`, `ToDNSLabel`).

The reconcile is a `Xp.Prog` program: one `call` per API call of the Go function,
in the same order, with the same early returns (crossplane-runtime's
`APIPatchingApplicator.Apply` = Get; NotFound ⇒ Create; else
MustBeControllableBy; merge Patch).  The store holds the package (spec + the
status fields that drive control flow) and the PackageRevision objects
(name, parent label, revision number, desiredState, controller owner, image,
commonLabels, finalizer/deleting flags).  The registry (`xpkg.Fetcher.Head`) and
`name.ParseReference` are parameters (`Env`).

This file models the code with `fixes/D5.diff` applied (the garbage collector
chooses the oldest among the NON-current revisions).  `oldestAny` is the choice
the unfixed tree makes; it is only used for the negation witness in Props.

Not modelled: events, logging, the package's Installed/Healthy conditions (no
control flow depends on them), pull secrets, runtime-config fields copied to the
revision, resourceVersions (a single controller owns these objects, so inside
one reconcile the only conflicts are the injected ones).
-/
namespace Xp.C14

/-! ### internal/xpkg/name.go -/

def isLowerAlnum (c : Char) : Bool := ('a' ≤ c && c ≤ 'z') || ('0' ≤ c && c ≤ '9')
def isSep (c : Char) : Bool := c == '.' || c == '/' || c == ':' || c == '-'

/-- the loop of `ToDNSLabel`; `len` = len(s), first argument = index `i` (ASCII input: byte = char) -/
def dnsLoop (len : Nat) : Nat → List Char → List Char
  | _, [] => []
  | i, c :: cs =>
    let a := if isLowerAlnum c then [c] else []
    let b := if isSep c && (i != 0 && i != 62 && i != len - 1) then ['-'] else []
    if i == 62 then a ++ b else a ++ b ++ dnsLoop len (i + 1) cs

/-- strings.Trim(s, "-") -/
def trimDash (s : List Char) : List Char :=
  ((s.dropWhile (· == '-')).reverse.dropWhile (· == '-')).reverse

def toDNSLabelL (l : List Char) : List Char := trimDash (dnsLoop l.length 0 l)

def toDNSLabel (s : String) : String := String.ofList (toDNSLabelL s.toList)

/-- `FriendlyID(name, hash) = ToDNSLabel(truncate(name,50) + "-" + truncate(hash,12))` -/
def friendlyIDL (name hash : List Char) : List Char := toDNSLabelL (name.take 50 ++ '-' :: hash.take 12)

def friendlyID (name hash : String) : String := String.ofList (friendlyIDL name.toList hash.toList)

/-! ### objects -/

inductive State where
  | active | inactive | unset
  deriving DecidableEq, Repr, Inhabited

inductive Policy where
  | unset | automatic | manual
  deriving DecidableEq, Repr, Inhabited

inductive Pull where
  | unset | always | never | ifNotPresent
  deriving DecidableEq, Repr, Inhabited

abbrev Labels := List (String × String)

structure Rev where
  name : String
  parent : Option String    -- value of the label pkg.crossplane.io/package
  number : Int              -- spec.revision
  state : State             -- spec.desiredState
  ctrl : Option String      -- uid of the controller owner reference
  image : String
  labels : Labels           -- spec.commonLabels, sorted by key
  fin : Bool                -- has a finalizer
  deleting : Bool           -- deletionTimestamp set
  deriving DecidableEq, Repr, Inhabited

structure Spec where
  source : String
  limit : Option Int        -- revisionHistoryLimit
  policy : Policy           -- revisionActivationPolicy
  pull : Pull               -- packagePullPolicy
  paused : Bool             -- pause annotation
  labels : Labels           -- commonLabels
  deriving DecidableEq, Repr, Inhabited

structure Status where
  curRev : String
  curId : String
  pausedCond : Bool         -- Synced=False/ReconcilePaused condition present
  deriving DecidableEq, Repr, Inhabited

structure Pkg where
  name : String
  uid : String
  spec : Spec
  status : Status
  deriving DecidableEq, Repr, Inhabited

structure Store where
  pkg : Option Pkg
  revs : List Rev           -- kept sorted by name (the order `List` returns)
  deriving DecidableEq, Repr, Inhabited

/-! ### registry and reference parser (parameters) -/

/-- The class of error `xpkg.Fetcher.Head` fails with.  `PackageRevisioner.Revision` of the
current tree does not look at it (`if err != nil || d == nil`), and the theorems of
Props/C14.lean say so for every class:
`plain` = an opaque error; `temporary` = a `*transport.Error` (bare or wrapped) whose
`Temporary()` is true (HTTP 408/500/502/503/504, or TOOMANYREQUESTS/UNAVAILABLE/UNKNOWN
diagnostics), or any other error with a `Temporary() bool` method that answers true;
`permanent` = a `*transport.Error` with `Temporary()` false (401 UNAUTHORIZED, 404
MANIFEST_UNKNOWN, 403 DENIED); `timeout` = `context.DeadlineExceeded` / `context.Canceled`. -/
inductive ErrClass where
  | plain | temporary | permanent | timeout
  deriving DecidableEq, Repr, Inhabited

/-- the class of each kind of error the harness' fake registry answers with
(harness/main/c14.go `c14ErrKinds` / `c14HeadErr`); checked against the classification of the real
error values by `fetch_error_classes_match_source` -/
def errClassOfKind : String → ErrClass
  | "err:503" | "err:503b" | "err:504" | "err:429" | "err:net" => .temporary
  | "err:401" | "err:404" | "err:403" => .permanent
  | "err:deadline" | "err:canceled" => .timeout
  | _ => .plain

def ErrClass.ofString : String → ErrClass
  | "temporary" => .temporary
  | "permanent" => .permanent
  | "timeout" => .timeout
  | _ => .plain

/-- the outcome of `fetcher.Head(ctx, ref, secrets...)` -/
inductive Head where
  | err (c : ErrClass) | nil | digest (d : String)
  deriving DecidableEq, Repr, Inhabited

structure Env where
  head : String → Head       -- fetcher.Head for a source
  parseOk : String → Bool    -- name.ParseReference succeeds

/-- does `Revision` answer from the package alone, without asking the registry?
(`PullNever`, or `PullIfNotPresent` with `status.currentIdentifier == spec.package`) -/
def skipsFetch (p : Pkg) : Bool :=
  p.spec.pull = .never || (p.spec.pull = .ifNotPresent && p.status.curId = p.spec.source)

/-- `PackageRevisioner.Revision`: `error` = an error is returned, `ok ""` = no digest yet.
A function of the package (name, spec.package, pull policy, status.currentRevision,
status.currentIdentifier) and of the fetch outcome only. -/
def revisionName (env : Env) (p : Pkg) : Except Unit String :=
  if p.spec.pull = .never then .ok (friendlyID p.name p.spec.source)
  else if p.spec.pull = .ifNotPresent ∧ p.status.curId = p.spec.source then .ok p.status.curRev
  else if !env.parseOk p.spec.source then .error ()
  else match env.head p.spec.source with
    | .err _ => .error ()
    | .nil => .ok ""
    | .digest d => .ok (friendlyID p.name d)

/-! ### API server -/

inductive EnvAct where
  | editSpec (sp : Spec)     -- a user edits the package
  | finalize                 -- the revision controller lets deleted revisions go
  | addFin (name : String)   -- the revision controller adds its finalizer
  deriving Repr, Inhabited

inductive Req where
  | getPkg (name : String)
  | statusPkg (name : String) (st : Status)
  | listRevs (parent : String)
  | listImageConfigs
  | getRev (name : String)
  | createRev (r : Rev) (hasRV : Bool)
  | patchRev (r : Rev)
  | updateRev (r : Rev)
  | deleteRev (name : String)
  | env (a : EnvAct)
  deriving Repr, Inhabited

inductive Err where
  | notFound | conflict | other
  deriving DecidableEq, Repr, Inhabited

inductive Resp where
  | pkg (p : Pkg)
  | revs (l : List Rev)
  | rev (r : Rev)
  | ok
  | err (e : Err)
  deriving Repr, Inhabited

def setLabel (k v : String) : Labels → Labels
  | [] => [(k, v)]
  | (k', v') :: rest =>
    if k = k' then (k, v) :: rest
    else if k < k' then (k, v) :: (k', v') :: rest
    else (k', v') :: setLabel k v rest

/-- JSON merge patch of a string map -/
def mergeLabels (stored desired : Labels) : Labels :=
  desired.foldl (fun acc kv => setLabel kv.1 kv.2 acc) stored

/-- JSON merge patch of a stored revision with the full desired object
(fields with `omitempty` that are empty in the desired object are left alone). -/
def mergeRev (stored d : Rev) : Rev :=
  { name := stored.name
    parent := match d.parent with | some x => some x | none => stored.parent
    number := d.number
    state := d.state
    ctrl := match d.ctrl with | some x => some x | none => stored.ctrl
    image := d.image
    labels := mergeLabels stored.labels d.labels
    fin := d.fin || stored.fin
    deleting := stored.deleting }

def findRev (n : String) (revs : List Rev) : Option Rev := revs.find? (fun r => r.name = n)

/-- replace the object named `r.name` -/
def setRev (r : Rev) (revs : List Rev) : List Rev := revs.map (fun x => if x.name = r.name then r else x)

def insertRev (r : Rev) : List Rev → List Rev
  | [] => [r]
  | x :: xs => if r.name < x.name then r :: x :: xs else x :: insertRev r xs

def isWrite : Req → Bool
  | .getPkg _ | .listRevs _ | .listImageConfigs | .getRev _ => false
  | _ => true

/-- the requests that write a PackageRevision -/
def isRevWrite : Req → Bool
  | .createRev _ _ | .patchRev _ | .updateRev _ | .deleteRev _ => true
  | _ => false

def exec (s : Store) : Req → Store × Resp
  | .getPkg n =>
    match s.pkg with
    | some p => if p.name = n then (s, .pkg p) else (s, .err .notFound)
    | none => (s, .err .notFound)
  | .statusPkg n st =>
    match s.pkg with
    | some p => if p.name = n then ({ s with pkg := some { p with status := st } }, .ok) else (s, .err .notFound)
    | none => (s, .err .notFound)
  | .listRevs par => (s, .revs (s.revs.filter (fun r => r.parent = some par)))
  | .listImageConfigs => (s, .ok)
  | .getRev n =>
    match findRev n s.revs with
    | some r => (s, .rev r)
    | none => (s, .err .notFound)
  | .createRev r hasRV =>
    match findRev r.name s.revs with
    | some _ => (s, .err .other)          -- AlreadyExists
    | none =>
      if hasRV then (s, .err .other)      -- "resourceVersion should not be set on objects to be created"
      else
        let r' := { r with deleting := false }
        ({ s with revs := insertRev r' s.revs }, .rev r')
  | .patchRev d =>
    match findRev d.name s.revs with
    | some cur => let m := mergeRev cur d; ({ s with revs := setRev m s.revs }, .rev m)
    | none => (s, .err .notFound)
  | .updateRev d =>
    match findRev d.name s.revs with
    | some cur => let m := { d with deleting := cur.deleting }; ({ s with revs := setRev m s.revs }, .rev m)
    | none => (s, .err .notFound)
  | .deleteRev n =>
    match findRev n s.revs with
    | some cur =>
      if cur.fin then ({ s with revs := setRev { cur with deleting := true } s.revs }, .ok)
      else ({ s with revs := s.revs.filter (fun r => r.name ≠ n) }, .ok)
    | none => (s, .err .notFound)
  | .env (.editSpec sp) =>
    match s.pkg with
    | some p => ({ s with pkg := some { p with spec := sp } }, .ok)
    | none => (s, .ok)
  | .env .finalize => ({ s with revs := s.revs.filter (fun r => !r.deleting) }, .ok)
  | .env (.addFin n) => ({ s with revs := s.revs.map (fun r => if r.name = n then { r with fin := true } else r) }, .ok)

/-- printable tag of a request, in the form the harness prints the calls of the real reconciler -/
def Req.tag : Req → String
  | .getPkg _ => "get pkg"
  | .statusPkg _ _ => "status pkg"
  | .listRevs _ => "list rev"
  | .listImageConfigs => "list imageconfigs"
  | .getRev n => "get rev " ++ n
  | .createRev r _ => "create rev " ++ r.name
  | .patchRev r => "patch rev " ++ r.name
  | .updateRev r => "update rev " ++ r.name
  | .deleteRev n => "delete rev " ++ n
  | .env _ => "env"

def errResp : Outcome → Req → Resp
  | .conflict, r => if isWrite r then .err .conflict else .err .other
  | _, _ => .err .other

def sem : Sem Store Req Resp := ⟨exec, errResp⟩

/-! ### the reconciler -/

abbrev P := Prog Req Resp

inductive Res where
  | gone                       -- the package no longer exists: nothing to do
  | err                        -- an error is returned (implicit requeue)
  | requeue                    -- Requeue: true without error
  | paused                     -- pause handling wrote the status and returned
  | done (cur : String) (after : Bool)  -- full reconcile; `after` = RequeueAfter (pull policy Always)
  deriving DecidableEq, Repr, Inhabited

inductive ApplyOut where
  | ok (r : Rev) | conflict | err
  deriving Repr, Inhabited

/-- resource.MustBeControllableBy(uid) on the current object -/
def controllable (cur : Rev) (uid : String) : Bool :=
  match cur.ctrl with
  | none => true
  | some c => c = uid

def writeOut : Resp → ApplyOut
  | .rev r => .ok r
  | .err .conflict => .conflict
  | _ => .err

/-- `r.client.Apply(ctx, desired, resource.MustBeControllableBy(uid))` -/
def applyRev (desired : Rev) (hasRV : Bool) (uid : String) : P ApplyOut :=
  .call (.getRev desired.name) fun
    | .rev cur =>
      if controllable cur uid then .call (.patchRev desired) fun x => .ret (writeOut x)
      else .ret .err
    | .err .notFound => .call (.createRev desired hasRV) fun x => .ret (writeOut x)
    | _ => .ret .err

/-- the revision loop: every non-current Active revision is set Inactive -/
def deactLoop (uid cur : String) : List Rev → P (Option Res)
  | [] => .ret none
  | r :: rest =>
    if r.name = cur then deactLoop uid cur rest
    else if r.state = .active then
      Prog.bind (applyRev { r with state := .inactive } true uid) fun
        | .ok _ => deactLoop uid cur rest
        | .conflict => .ret (some .requeue)
        | .err => .ret (some .err)
    else deactLoop uid cur rest

def maxRevision (l : List Rev) : Int := l.foldl (fun m r => if r.number > m then r.number else m) 0

/-- the lowest numbered revision other than the current one (first such in list order) -/
def oldestNonCurrent (cur : String) : List Rev → Option Rev
  | [] => none
  | r :: rest =>
    if r.name = cur then oldestNonCurrent cur rest
    else match oldestNonCurrent cur rest with
      | none => some r
      | some b => if b.number < r.number then some b else some r

/-- the lowest numbered revision, current or not: what the UNFIXED tree collects (defect D5) -/
def oldestAny : List Rev → Option Rev
  | [] => none
  | r :: rest =>
    match oldestAny rest with
    | none => some r
    | some b => if b.number < r.number then some b else some r

/-- which revision, if any, history garbage collection deletes -/
def gcVictimWith (oldest : List Rev → Option Rev) (limit : Option Int) (l : List Rev) : Option Rev :=
  match limit with
  | none => none
  | some lim => if lim ≠ 0 ∧ (l.length : Int) > lim + 1 then oldest l else none

def gcVictim (limit : Option Int) (cur : String) (l : List Rev) : Option Rev :=
  gcVictimWith (oldestNonCurrent cur) limit l

def gcVictimUnfixed (limit : Option Int) (l : List Rev) : Option Rev :=
  gcVictimWith oldestAny limit l

def newRev : Rev :=
  { name := "", parent := none, number := 0, state := .unset, ctrl := none, image := "", labels := [], fin := false, deleting := false }

/-- the desired current revision as built between the loop and the Apply -/
def desiredCurrent (p : Pkg) (cur : String) (listed : List Rev) : Rev :=
  let pr0 := (findRev cur listed).getD newRev
  let maxR := maxRevision listed
  let num := if pr0.number < maxR ∨ maxR = 0 then maxR + 1 else pr0.number
  let st := if pr0.state ≠ .active ∧ p.spec.policy ≠ .manual then State.active else pr0.state
  { pr0 with
    name := cur, parent := some p.name, number := num, state := st, image := p.spec.source,
    labels := p.spec.labels,
    ctrl := match pr0.ctrl with | none => some p.uid | some o => some o }

def finishStatus (p : Pkg) (cur : String) : P Res :=
  .call (.statusPkg p.name { curRev := cur, curId := p.spec.source, pausedCond := p.status.pausedCond }) fun
    | .ok => .ret (.done cur (p.spec.pull = .always))
    | _ => .ret .err

def applyCurrent (p : Pkg) (cur : String) (listed : List Rev) : P Res :=
  Prog.bind (applyRev (desiredCurrent p cur listed) (findRev cur listed).isSome p.uid) fun
    | .conflict => .ret .requeue
    | .err => .ret .err
    | .ok pr =>
      if pr.labels = p.spec.labels then finishStatus p cur
      else .call (.updateRev { pr with labels := p.spec.labels }) fun
        | .rev _ => finishStatus p cur
        | .err .conflict => .ret .requeue
        | _ => .ret .err

/-- everything after the revision name is known; parametric in the collector's choice -/
def stage2With (victim : Option Rev) (p : Pkg) (cur : String) (listed : List Rev) : P Res :=
  Prog.bind (deactLoop p.uid cur listed) fun
    | some r => .ret r
    | none =>
      match victim with
      | some v => .call (.deleteRev v.name) fun
        | .ok => applyCurrent p cur listed
        | _ => .ret .err
      | none => applyCurrent p cur listed

def stage2 (p : Pkg) (cur : String) (listed : List Rev) : P Res :=
  stage2With (gcVictim p.spec.limit cur listed) p cur listed

def statusThen (p : Pkg) (r : Res) : P Res :=
  .call (.statusPkg p.name p.status) fun
    | .ok => .ret r
    | _ => .ret .err

/-- everything after the List of the package's revisions answered `listed` -/
def afterList (unfixed : Bool) (env : Env) (p : Pkg) (listed : List Rev) : P Res :=
  .call .listImageConfigs fun
    | .ok =>
      match revisionName env p with
      | .error _ => statusThen p .err
      | .ok cur =>
        if cur = "" then statusThen p .requeue
        else if unfixed then stage2With (gcVictimUnfixed p.spec.limit listed) p cur listed
        else stage2 p cur listed
    -- PullSecretFor failed: the status update's own error is ignored
    | _ => .call (.statusPkg p.name p.status) fun _ => .ret .err

def reconcileWith (unfixed : Bool) (env : Env) (pname : String) : P Res :=
  .call (.getPkg pname) fun
    | .pkg p =>
      if p.spec.paused then
        .call (.statusPkg pname { p.status with pausedCond := true }) fun
          | .ok => .ret .paused
          | _ => .ret .err
      else if p.status.pausedCond then
        .call (.statusPkg pname { p.status with pausedCond := false }) fun
          | .ok => .ret .paused
          | _ => .ret .err
      else
        .call (.listRevs pname) fun
          | .revs listed => afterList unfixed env p listed
          -- `resource.IgnoreNotFound(err) != nil`: a NotFound answer to the List is taken as "no
          -- revisions" (an informer-backed client never answers a List that way; an injected one can)
          | .err .notFound => afterList unfixed env p []
          | _ => .ret .err
    | .err .notFound => .ret .gone
    | _ => .ret .err

/-- `Reconciler.Reconcile` (with fixes/D5.diff) -/
def pkgReconcile (env : Env) (pname : String) : P Res := reconcileWith false env pname

/-- the same with the collector of the unfixed tree -/
def pkgReconcileUnfixed (env : Env) (pname : String) : P Res := reconcileWith true env pname

/-- an environment step as a one-call program, so that histories are lists of programs -/
def envStep (a : EnvAct) : P Res := .call (.env a) fun _ => .ret .gone

/-- one step of a history: a reconcile against some registry state, or an environment step
(package edit, revision-controller finalizer handling) -/
inductive Step where
  | reconcile (env : Env)
  | envAct (a : EnvAct)

def stepProg (pname : String) : Step → P Res
  | .reconcile env => pkgReconcile env pname
  | .envAct a => envStep a

/-- a history as a list of (fault plan, program) pairs for `reachHistory` -/
def historyProgs (pname : String) (h : List (Plan × Step)) : List (Plan × P Res) :=
  h.map fun x => (x.1, stepProg pname x.2)

/-! ### predicates of the property -/

def labelled (pname : String) (r : Rev) : Bool := r.parent = some pname

def isActive (pname : String) (r : Rev) : Bool := labelled pname r && r.state = .active

/-- the Active revisions of package `pname` -/
def activeRevs (pname : String) (s : Store) : List Rev := s.revs.filter (isActive pname)

/-- object names are keys -/
def WF (s : Store) : Prop := (s.revs.map (·.name)).Nodup

instance (s : Store) : Decidable (WF s) := by unfold WF; infer_instance

end Xp.C14

import Xp.Base.Prog
/-
C01/C03 model: one XR reconcile with the function composer
(internal/controller/apiextensions/composite/composition_functions.go Compose,
ObserveComposedResources, GarbageCollectComposedResources, UpdateResourceRefs) or
the P&T composer with named templates (composition_pt.go Compose,
AssociateTemplates), wrapped by reconciler.go Reconcile, written call by call as a
`Prog` over an abstract store: the XR's finalizer and spec.resourceRefs and the
composed-kind objects (kind, name, composition-resource-name annotation,
controller, finalizer / terminating, content, SSA manager present).

What is an input (universally quantified in the theorems, supplied from the
observation when replaying a real run): the function pipeline's output, the
generated names (`names.NameGenerator` picks random suffixes), Go's map
iteration orders (GC order, apply order, render order), and the set `St.miss` of
composed resources that exist but are missing from the informer cache while this
reconcile runs.

Cached and live reads. The reconciler and both composers are built with two clients
(`NewReconciler(c, uc, …)`, `NewFunctionComposer(cached, uncached, …)`,
`NewPTComposer(cached, uncached)`): every read goes through the CACHED client except
the fallback read of `ObserveComposedResources` / `AssociateTemplates`, which repeats
a cached NotFound against the API server. `Req.getCached` is a read through the cache
(NotFound for an object in `St.miss`), `Req.getObj` a live read. Cached reads of composed
resources: first read of a reference (`observeFn`, `associatePT`), the name generator's
availability probe (`renderFn`, `renderPT`: `names.NewNameGenerator(cached)`), the Get
inside the P&T composer's `Apply` (`resource.NewAPIPatchingApplicator(cached)`). The reads
of the XR itself are cached too; a stale (as opposed to missing) cached version of the XR
or of a composed resource is outside the model.
-/
namespace Xp.C01

inductive Ctrl where
  | none | xr | other
  deriving DecidableEq, Repr, Inhabited

structure CObj where
  kind : String
  name : String
  annot : String      -- crossplane.io/composition-resource-name ("" = absent)
  ctrl : Ctrl         -- controller owner reference: none / this XR / another UID
  fin : Bool          -- carries a finalizer (of its provider)
  deleting : Bool     -- deletionTimestamp set
  content : Nat
  ssa : Bool          -- this XR's server-side-apply field manager is present
  deriving DecidableEq, Repr, Inhabited

structure Ref where
  kind : String
  name : String
  deriving DecidableEq, Repr, Inhabited

structure St where
  xrFin : Bool
  xrRv : Nat          -- resourceVersion of the XR (bumped by spec/metadata writes that change it)
  refs : List Ref
  objs : List CObj
  /-- API version the stored references carry (all references are rewritten together, with
  the version the composition currently emits) -/
  refsVer : String := "v1"
  /-- whether the function composer's field manager has server-side applied the references
  before: a first apply by a new manager is recorded by the API server (resourceVersion
  bump) even when no field value changes -/
  xrApplied : Bool := true
  /-- ghost: objects controlled by someone else, recorded when the history starts; no API
  call reads or writes this field (used to state "foreign objects are left exactly as they were") -/
  foreign0 : List CObj := []
  /-- composed resources that exist in the API server but are missing from the informer
  cache during this reconcile (just created, informer lagging). An input of the reconcile:
  the driver sets it per round, no request writes it. A read through the cache
  (`Req.getCached`) answers NotFound for these; live reads and all writes see the store. -/
  miss : List Ref := []
  deriving Repr, Inhabited

structure Desired where
  rname : String
  kind : String
  content : Nat
  ready : Bool
  deriving DecidableEq, Repr, Inhabited

inductive Req where
  | getXR
  | addFinalizer (rv : Nat)                -- Update(XR) carrying the resourceVersion read
  | getObj (kind name : String)             -- live (uncached) Get of a composed resource
  | getCached (kind name : String)          -- Get of a composed resource through the informer cache
  | gcUpdate (kind name : String)          -- Update stripping the composite labels
  | delete (kind name : String)
  | patchRefs (ver : String) (refs : List Ref)   -- fn: server-side apply of spec.resourceRefs (all of API version `ver`)
  | updateXR (rv : Nat) (ver : String) (refs : List Ref)  -- pt: Update(XR) carrying spec.resourceRefs
  | apply (kind name annot : String) (content : Nat)      -- fn: server-side apply of a composed resource
  | create (kind name annot : String) (content : Nat)     -- pt: Create
  | mergePatch (kind name annot : String) (content : Nat) -- pt: merge patch of an existing composed resource
  | patchXR                                -- pt: final Apply(XR) merge patch
  | statusPatch                            -- fn: server-side apply of XR status
  | statusUpdate (rv : Option Nat)         -- Status().Update(XR) carrying the local copy's resourceVersion (none = unconditional)
  deriving Repr, Inhabited

inductive Resp where
  | ok
  | xr (fin : Bool) (rv : Nat) (refs : List Ref)   -- the XR as read
  | okRv (rv : Nat)   -- accepted write to the XR; the local copy now has this resourceVersion
  | notFound
  | found (o : CObj)
  | exists_   -- AlreadyExists
  | invalid   -- rejected: would create a second controller reference
  | err
  | conflict
  deriving Repr, Inhabited

/-- the spec.content value the (simulated) API server rejects as invalid: stands for any
admission / schema validation failure of a composed resource -/
def invalidContent : Nat := 9

def findObj (objs : List CObj) (kind name : String) : Option CObj :=
  objs.find? (fun o => o.kind = kind ∧ o.name = name)

def removeObj (objs : List CObj) (kind name : String) : List CObj :=
  objs.filter (fun o => ¬ (o.kind = kind ∧ o.name = name))

def mapObj (objs : List CObj) (kind name : String) (f : CObj → CObj) : List CObj :=
  objs.map (fun o => if o.kind = kind ∧ o.name = name then f o else o)

/-- the simulated API server on the abstract store -/
def exec (s : St) : Req → St × Resp
  | .getXR => (s, .xr s.xrFin s.xrRv s.refs)
  | .addFinalizer rv =>
    if rv ≠ s.xrRv then (s, .conflict) else ({ s with xrFin := true, xrRv := s.xrRv + 1 }, .okRv (s.xrRv + 1))
  | .getObj k n =>
    match findObj s.objs k n with
    | some o => (s, .found o)
    | none => (s, .notFound)
  | .getCached k n =>
    if (⟨k, n⟩ : Ref) ∈ s.miss then (s, .notFound) else
    match findObj s.objs k n with
    | some o => (s, .found o)
    | none => (s, .notFound)
  | .gcUpdate k n =>
    match findObj s.objs k n with
    | some _ => (s, .ok)
    | none => (s, .notFound)
  | .delete k n =>
    match findObj s.objs k n with
    | some o =>
      if o.fin then ({ s with objs := mapObj s.objs k n (fun o => { o with deleting := true }) }, .ok)
      else ({ s with objs := removeObj s.objs k n }, .ok)
    | none => (s, .notFound)
  | .patchRefs ver refs =>
    if refs = s.refs ∧ (refs = [] ∨ ver = s.refsVer) ∧ s.xrApplied = true then (s, .ok)
    else ({ s with refs := refs, refsVer := ver, xrRv := s.xrRv + 1, xrApplied := true }, .ok)
  | .updateXR rv ver refs =>
    if rv ≠ s.xrRv then (s, .conflict)
    else if refs = s.refs ∧ (refs = [] ∨ ver = s.refsVer) then (s, .okRv s.xrRv)
    else ({ s with refs := refs, refsVer := ver, xrRv := s.xrRv + 1 }, .okRv (s.xrRv + 1))
  | .apply k n a c =>
    if c = invalidContent then (s, .invalid) else
    match findObj s.objs k n with
    | some o =>
      if o.ctrl = .other then (s, .invalid)
      else ({ s with objs := mapObj s.objs k n (fun o => { o with annot := a, ctrl := .xr, content := c, ssa := true }) }, .ok)
    | none => ({ s with objs := s.objs ++ [⟨k, n, a, .xr, false, false, c, true⟩] }, .ok)
  | .create k n a c =>
    -- (reachable with an existing object only after a cache miss; the simulated API server of
    -- the harness answers AlreadyExists before it validates: either way nothing is written)
    match findObj s.objs k n with
    | some _ => (s, .exists_)
    | none =>
      if c = invalidContent then (s, .invalid)
      else ({ s with objs := s.objs ++ [⟨k, n, a, .xr, false, false, c, false⟩] }, .ok)
  | .mergePatch k n a c =>
    if c = invalidContent then (match findObj s.objs k n with | some _ => (s, .invalid) | none => (s, .notFound)) else
    match findObj s.objs k n with
    | some o =>
      if o.ctrl = .other then (s, .invalid)
      else ({ s with objs := mapObj s.objs k n (fun o => { o with annot := a, ctrl := .xr, content := c }) }, .ok)
    | none => (s, .notFound)
  | .patchXR => (s, .ok)
  | .statusPatch => (s, .okRv s.xrRv)
  | .statusUpdate rv => if rv.isSome ∧ rv ≠ some s.xrRv then (s, .conflict) else (s, .ok)

def isRead : Req → Bool
  | .getXR | .getObj _ _ | .getCached _ _ => true
  | _ => false

def sem : Sem St Req Resp where
  exec := exec
  errResp := fun o r => match o with
    | .conflict => if isRead r then .err else .conflict
    | _ => .err

/-- outcome of `Reconcile`: `success` = composition succeeded, every desired resource
was applied and the final status write went through; `handled` = nil error but some
error/conflict/unsynced path was taken; `error` = a non-nil error was returned -/
inductive Result where
  | success | handled | error
  deriving DecidableEq, Repr, Inhabited

abbrev P := Prog Req Resp Result

/-- error epilogue of Reconcile: a Conflict requeues without touching status; any
other error records Synced=False with one Status().Update -/
def onErrorO (lrv : Option Nat) : P := .call (.statusUpdate lrv) fun
  | .ok => .ret .handled
  | _ => .ret .error

def onError (lrv : Nat) : P := onErrorO (some lrv)

def onConflict : P := .ret .handled

/-- the last call of a reconcile whose composition succeeded (`synced` = every desired
resource was rendered and applied) -/
def finish (lrv : Nat) (synced : Bool) : P := .call (.statusUpdate (some lrv)) fun
  | .ok => .ret (if synced then .success else .handled)
  | _ => .ret .error

/-- a write call whose failure aborts the reconcile -/
def wcall (lrv : Nat) (r : Req) (k : Resp → P) : P := .call r fun
  | .err => onError lrv
  | .conflict => onConflict
  | x => k x

/-- association list of observed composed resources by composition-resource-name
(a Go map: a later entry for the same name replaces the earlier one) -/
abbrev Obs := List (String × CObj)

def obsInsert : Obs → String → CObj → Obs
  | [], n, o => [(n, o)]
  | p :: ps, n, o => if p.1 = n then (n, o) :: ps else p :: obsInsert ps n o

def obsLookup (obs : Obs) (n : String) : Option CObj :=
  (obs.find? (·.1 = n)).map (·.2)

/-- ObserveComposedResources: `g.cached.Get`, and on NotFound ("not in the cache yet? try again
without the cache") `g.uncached.Get` -/
def observeFn (lrv : Nat) : List Ref → Obs → (Obs → P) → P
  | [], acc, k => k acc
  | r :: rs, acc, k =>
    if r.name = "" then observeFn lrv rs acc k else
    let found (o : CObj) : P :=
      if o.ctrl = .other then observeFn lrv rs acc k
      else if o.annot = "" then onError lrv
      else observeFn lrv rs (obsInsert acc o.annot o) k
    .call (.getCached r.kind r.name) fun
      | .found o => found o
      | .notFound => .call (.getObj r.kind r.name) fun
        | .found o => found o
        | .notFound => observeFn lrv rs acc k
        | _ => onError lrv
      | _ => onError lrv

/-- a desired resource with its metadata.name decided -/
structure Named where
  d : Desired
  name : String
  gen : Bool     -- the name was generated in this reconcile (else inherited from the observed resource)
  deriving Repr, Inhabited

/-- the render loop of the function composer: inherit the observed name, else
generate one (one availability probe per generated name). `order` is Go's map
iteration order over the desired resources; `fresh` the generator's choices. -/
def renderFn (lrv : Nat) (obs : Obs) : List Desired → List String → List Named → (List Named → P) → P
  | [], _, acc, k => k acc.reverse
  | d :: ds, fresh, acc, k =>
    match obsLookup obs d.rname with
    | some o => renderFn lrv obs ds fresh (⟨d, o.name, false⟩ :: acc) k
    | none =>
      match fresh with
      | [] => onError lrv   -- generator gave up
      | n :: fresh' => .call (.getCached d.kind n) fun   -- names.NewNameGenerator(cached)
        | .notFound => renderFn lrv obs ds fresh' (⟨d, n, true⟩ :: acc) k
        | .found _ => onError lrv   -- (the real generator retries with another random name; never observed)
        | _ => onError lrv

/-- GarbageCollectComposedResources: observed resources that are not desired -/
def gcFn (lrv : Nat) : List CObj → P → P
  | [], k => k
  | o :: os, k =>
    wcall lrv (.gcUpdate o.kind o.name) fun _ =>
    wcall lrv (.delete o.kind o.name) fun _ =>
    gcFn lrv os k

def refLt (a b : Ref) : Bool := (a.kind ++ a.name) < (b.kind ++ b.name)

/-- UpdateResourceRefs: references of all desired resources, sorted -/
def nkey (n : Named) : Ref := ⟨n.d.kind, n.name⟩

def refsOf (ns : List Named) : List Ref :=
  (ns.map nkey).mergeSort (fun a b => !refLt b a)

/-- the apply loop of the function composer -/
def applyFn (lrv : Nat) : List Named → Bool → (Bool → P) → P
  | [], synced, k => k synced
  | n :: ns, synced, k =>
    wcall lrv (.apply n.d.kind n.name n.d.rname n.d.content) fun
      | .invalid => applyFn lrv ns false k   -- tolerated: the resource is reported unsynced
      | _ => applyFn lrv ns synced k

/-- order a list by a hint (elements whose key is hinted first, in hint order, then
the rest): how the driver replays Go's map iteration order -/
def orderBy {α : Type} (key : α → String) (hint : List String) (xs : List α) : List α :=
  (hint.flatMap fun h => xs.filter (fun x => key x == h)) ++ xs.filter (fun x => !hint.contains (key x))

/-- the nondeterministic choices of one function-composer run -/
structure Choices where
  ver : String := "v1"                  -- API version the function emits its resources with
  fresh : List String                   -- names the generator will propose, in order
  gcOrder : List CObj → List CObj       -- Go's map order in the garbage-collection loop
  applyOrder : List Named → List Named  -- Go's map order in the apply loop

inductive FnOut where
  | desired (ds : List Desired)   -- in the render loop's (map) iteration order
  | failed      -- a step errored, returned a fatal result, or its requirements never stabilised
  deriving Repr, Inhabited

/-- FunctionComposer.Compose followed by the tail of Reconcile -/
def composeFn (lrv : Nat) (refs : List Ref) (out : Obs → FnOut) (ch : Choices) : P :=
  observeFn lrv refs [] fun obs =>
  match out obs with
  | .failed => onError lrv
  | .desired ds =>
    renderFn lrv obs ds ch.fresh [] fun named =>
    let undesired := (obs.filter fun p => !(ds.any (·.rname = p.1))).map (·.2)
    gcFn lrv (ch.gcOrder undesired) <|
    wcall lrv (.patchRefs ch.ver (refsOf named)) fun _ =>
    applyFn lrv (ch.applyOrder named) true fun synced =>
    -- before this call the local XR is replaced by the function's desired XR (FromStruct),
    -- which carries no resourceVersion: a failure here leads to an unconditional status update
    .call .statusPatch fun
      | .okRv rv => finish rv synced   -- the patched XR (latest resourceVersion) is loaded into the local copy
      | .conflict => onConflict
      | _ => onErrorO none

/-! ### P&T composer with named templates -/

/-- template association: for each template (by name) the referenced existing resource, if any -/
abbrev Assoc := List (String × Ref)

def assocInsert : Assoc → String → Ref → Assoc
  | [], n, r => [(n, r)]
  | p :: ps, n, r => if p.1 = n then (n, r) :: ps else p :: assocInsert ps n r

def assocLookup (a : Assoc) (n : String) : Option Ref :=
  (a.find? (·.1 = n)).map (·.2)

/-- GarbageCollectingAssociator.AssociateTemplates (all templates named): `a.cached.Get`, and on
NotFound `a.uncached.Get` -/
def associatePT (lrv : Nat) (tmpl : List Desired) : List Ref → Assoc → (Assoc → P) → P
  | [], acc, k => k acc
  | r :: rs, acc, k =>
    if r.name = "" then associatePT lrv tmpl rs acc k else
    let found (o : CObj) : P :=
      if o.annot = "" then onError lrv     -- falls back to by-order association: outside the model (named templates, annotated resources)
      else if tmpl.any (·.rname = o.annot) then associatePT lrv tmpl rs (assocInsert acc o.annot r) k
      else if o.ctrl = .other then onError lrv
      else
        wcall lrv (.gcUpdate o.kind o.name) fun _ =>
        wcall lrv (.delete o.kind o.name) fun _ =>
        associatePT lrv tmpl rs acc k
    .call (.getCached r.kind r.name) fun
      | .found o => found o
      | .notFound => .call (.getObj r.kind r.name) fun
        | .found o => found o
        | .notFound => associatePT lrv tmpl rs acc k
        | _ => onError lrv
      | _ => onError lrv

/-- a template after rendering: `name = ""` means name generation failed (unrendered) -/
structure Rendered where
  d : Desired
  name : String
  rendered : Bool
  deriving Repr, Inhabited

def rkey (r : Rendered) : Ref := ⟨r.d.kind, r.name⟩

/-- the render loop of the P&T composer (template order; a failed name probe
leaves the template unrendered and does NOT abort) -/
def renderPT (lrv : Nat) (a : Assoc) : List Desired → List String → List Rendered → (List Rendered → P) → P
  | [], _, acc, k => k acc.reverse
  | d :: ds, fresh, acc, k =>
    match assocLookup a d.rname with
    | some r =>
      -- RenderFromJSON refuses a template whose kind differs from the referenced resource
      if r.kind = d.kind then renderPT lrv a ds fresh (⟨d, r.name, true⟩ :: acc) k else onError lrv
    | none =>
      match fresh with
      | [] => renderPT lrv a ds fresh (⟨d, "", false⟩ :: acc) k
      | n :: fresh' => .call (.getCached d.kind n) fun   -- names.NewNameGenerator(cached)
        | .notFound => renderPT lrv a ds fresh' (⟨d, n, true⟩ :: acc) k
        | _ => renderPT lrv a ds fresh' (⟨d, "", false⟩ :: acc) k

/-- the apply loop of the P&T composer: Apply = Get; Create | (MustBeControllableBy; merge Patch).
The applicator is built on the cached client: an existing resource that is missing from the
cache is "not found", the Create answers AlreadyExists and the reconcile errors. -/
def applyPT (lrv : Nat) : List Rendered → Bool → (Bool → P) → P
  | [], synced, k => k synced
  | r :: rs, synced, k =>
    if !r.rendered then applyPT lrv rs false k else
    .call (.getCached r.d.kind r.name) fun
      | .notFound => wcall lrv (.create r.d.kind r.name r.d.rname r.d.content) fun
        | .exists_ => onError lrv
        | .invalid => applyPT lrv rs false k     -- rejected by the API server: reported unsynced, the others still applied
        | _ => applyPT lrv rs synced k
      | .found o =>
        if o.ctrl = .other then onError lrv   -- MustBeControllableBy
        else wcall lrv (.mergePatch r.d.kind r.name r.d.rname r.d.content) fun
          | .notFound => onError lrv
          | .invalid => applyPT lrv rs false k
          | _ => applyPT lrv rs synced k
      | _ => onError lrv

/-- PTComposer.Compose followed by the tail of Reconcile -/
def composePT (lrv : Nat) (refs : List Ref) (tmpl : List Desired) (fresh : List String) (ver : String := "v1") : P :=
  associatePT lrv tmpl refs [] fun a =>
  renderPT lrv a tmpl fresh [] fun rs =>
  wcall lrv (.updateXR lrv ver (rs.map rkey)) fun rsp =>
  let lrv' := match rsp with | .okRv rv => rv | _ => lrv
  applyPT lrv' rs true fun synced =>
  .call .getXR fun
    | .xr _ _ _ => wcall lrv' .patchXR fun _ => finish lrv' synced
    | _ => onError lrv'

inductive Mode where
  | fn (out : Obs → FnOut) (ch : Choices)
  | pt (tmpl : List Desired) (fresh : List String) (ver : String := "v1")

/-- Reconciler.Reconcile for a live, unpaused XR -/
def reconcile (m : Mode) : P :=
  .call .getXR fun
    | .xr fin rv refs =>
      let body (lrv : Nat) : P := match m with
        | .fn out ch => composeFn lrv refs out ch
        | .pt tmpl fresh ver => composePT lrv refs tmpl fresh ver
      if fin then body rv
      else .call (.addFinalizer rv) fun
        | .okRv rv' => body rv'
        | .conflict => onConflict
        | _ => onError rv
    | _ => .ret .error

end Xp.C01

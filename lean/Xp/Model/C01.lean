import Xp.Base.Prog
/-
C01/C03 model: one XR reconcile with the function composer
(internal/controller/apiextensions/composite/composition_functions.go Compose,
ObserveComposedResources, GarbageCollectComposedResources, UpdateResourceRefs) or
the P&T composer with named templates (composition_pt.go Compose,
AssociateTemplates), wrapped by reconciler.go Reconcile, written call by call as a
`Prog` over an abstract store: the XR's finalizer and spec.resourceRefs and the
composed-kind objects (kind, name, composition-resource-name annotation,
controller, finalizer / terminating, content, SSA manager present).

What is an input (universally quantified in the theorems, supplied from the
observation when replaying a real run): the function pipeline's output, the
generated names (`names.NameGenerator` picks random suffixes), Go's map
iteration orders (GC order, apply order, render order), and the set `St.miss` of
composed resources that exist but are missing from the informer cache while this
reconcile runs.

Cached and live reads. The reconciler and both composers are built with two clients
(`NewReconciler(c, uc, …)`, `NewFunctionComposer(cached, uncached, …)`,
`NewPTComposer(cached, uncached)`): every read goes through the CACHED client except
the fallback read of `ObserveComposedResources` / `AssociateTemplates`, which repeats
a cached NotFound against the API server. `Req.getCached` is a read through the cache
(NotFound for an object in `St.miss`), `Req.getObj` a live read. Cached reads of composed
resources: first read of a reference (`observeFn`, `associatePT`), the name generator's
availability probe (`renderFn`, `renderPT`: `names.NewNameGenerator(cached)`), the Get
inside the P&T composer's `Apply` (`resource.NewAPIPatchingApplicator(cached)`). The reads
of the XR itself are cached too; a stale (as opposed to missing) cached version of the XR
or of a composed resource is outside the model.
-/
namespace Xp.C01

inductive Ctrl where
  | none | xr | other
  deriving DecidableEq, Repr, Inhabited

structure CObj where
  kind : String
  name : String
  annot : String      -- crossplane.io/composition-resource-name ("" = absent)
  ctrl : Ctrl         -- controller owner reference: none / this XR / another UID
  fin : Bool          -- carries a finalizer (of its provider)
  deleting : Bool     -- deletionTimestamp set
  content : Nat
  ssa : Bool          -- this XR's server-side-apply field manager is present
  deriving DecidableEq, Repr, Inhabited

structure Ref where
  kind : String
  name : String
  deriving DecidableEq, Repr, Inhabited

structure St where
  xrFin : Bool
  xrRv : Nat          -- resourceVersion of the XR (bumped by spec/metadata writes that change it)
  refs : List Ref
  objs : List CObj
  /-- API version the stored references carry (all references are rewritten together, with
  the version the composition currently emits) -/
  refsVer : String := "v1"
  /-- whether the function composer's field manager has server-side applied the references
  before: a first apply by a new manager is recorded by the API server (resourceVersion
  bump) even when no field value changes -/
  xrApplied : Bool := true
  /-- ghost: objects controlled by someone else, recorded when the history starts; no API
  call reads or writes this field (used to state "foreign objects are left exactly as they were") -/
  foreign0 : List CObj := []
  /-- composed resources that exist in the API server but are missing from the informer
  cache during this reconcile (just created, informer lagging). An input of the reconcile:
  the driver sets it per round, no request writes it. A read through the cache
  (`Req.getCached`) answers NotFound for these; live reads and all writes see the store. -/
  miss : List Ref := []
  deriving Repr, Inhabited

structure Desired where
  rname : String
  kind : String
  content : Nat
  ready : Bool
  deriving DecidableEq, Repr, Inhabited

inductive Req where
  | getXR
  | addFinalizer (rv : Nat)                -- Update(XR) carrying the resourceVersion read
  | getObj (kind name : String)             -- live (uncached) Get of a composed resource
  | getCached (kind name : String)          -- Get of a composed resource through the informer cache
  | gcUpdate (kind name : String)          -- Update stripping the composite labels
  | delete (kind name : String)
  | patchRefs (ver : String) (refs : List Ref)   -- fn: server-side apply of spec.resourceRefs (all of API version `ver`)
  | updateXR (rv : Nat) (ver : String) (refs : List Ref)  -- pt: Update(XR) carrying spec.resourceRefs
  | apply (kind name annot : String) (content : Nat)      -- fn: server-side apply of a composed resource
  | create (kind name annot : String) (content : Nat)     -- pt: Create
  | mergePatch (kind name annot : String) (content : Nat) -- pt: merge patch of an existing composed resource
  | patchXR                                -- pt: final Apply(XR) merge patch
  | statusPatch                            -- fn: server-side apply of XR status
  | statusUpdate (rv : Option Nat)         -- Status().Update(XR) carrying the local copy's resourceVersion (none = unconditional)
  deriving Repr, Inhabited

inductive Resp where
  | ok
  | xr (fin : Bool) (rv : Nat) (refs : List Ref)   -- the XR as read
  | okRv (rv : Nat)   -- accepted write to the XR; the local copy now has this resourceVersion
  | notFound
  | found (o : CObj)
  | exists_   -- AlreadyExists
  | invalid   -- rejected: would create a second controller reference
  | err
  | conflict
  deriving Repr, Inhabited

/-- the spec.content value the (simulated) API server rejects as invalid: stands for any
admission / schema validation failure of a composed resource -/
def invalidContent : Nat := 9

def findObj (objs : List CObj) (kind name : String) : Option CObj :=
  objs.find? (fun o => o.kind = kind ∧ o.name = name)

def removeObj (objs : List CObj) (kind name : String) : List CObj :=
  objs.filter (fun o => ¬ (o.kind = kind ∧ o.name = name))

def mapObj (objs : List CObj) (kind name : String) (f : CObj → CObj) : List CObj :=
  objs.map (fun o => if o.kind = kind ∧ o.name = name then f o else o)

/-- the simulated API server on the abstract store -/
def exec (s : St) : Req → St × Resp
  | .getXR => (s, .xr s.xrFin s.xrRv s.refs)
  | .addFinalizer rv =>
    if rv ≠ s.xrRv then (s, .conflict) else ({ s with xrFin := true, xrRv := s.xrRv + 1 }, .okRv (s.xrRv + 1))
  | .getObj k n =>
    match findObj s.objs k n with
    | some o => (s, .found o)
    | none => (s, .notFound)
  | .getCached k n =>
    if (⟨k, n⟩ : Ref) ∈ s.miss then (s, .notFound) else
    match findObj s.objs k n with
    | some o => (s, .found o)
    | none => (s, .notFound)
  | .gcUpdate k n =>
    match findObj s.objs k n with
    | some _ => (s, .ok)
    | none => (s, .notFound)
  | .delete k n =>
    match findObj s.objs k n with
    | some o =>
      if o.fin then ({ s with objs := mapObj s.objs k n (fun o => { o with deleting := true }) }, .ok)
      else ({ s with objs := removeObj s.objs k n }, .ok)
    | none => (s, .notFound)
  | .patchRefs ver refs =>
    if refs = s.refs ∧ (refs = [] ∨ ver = s.refsVer) ∧ s.xrApplied = true then (s, .ok)
    else ({ s with refs := refs, refsVer := ver, xrRv := s.xrRv + 1, xrApplied := true }, .ok)
  | .updateXR rv ver refs =>
    if rv ≠ s.xrRv then (s, .conflict)
    else if refs = s.refs ∧ (refs = [] ∨ ver = s.refsVer) then (s, .okRv s.xrRv)
    else ({ s with refs := refs, refsVer := ver, xrRv := s.xrRv + 1 }, .okRv (s.xrRv + 1))
  | .apply k n a c =>
    if c = invalidContent then (s, .invalid) else
    match findObj s.objs k n with
    | some o =>
      if o.ctrl = .other then (s, .invalid)
      else ({ s with objs := mapObj s.objs k n (fun o => { o with annot := a, ctrl := .xr, content := c, ssa := true }) }, .ok)
    | none => ({ s with objs := s.objs ++ [⟨k, n, a, .xr, false, false, c, true⟩] }, .ok)
  | .create k n a c =>
    -- (reachable with an existing object only after a cache miss; the simulated API server of
    -- the harness answers AlreadyExists before it validates: either way nothing is written)
    match findObj s.objs k n with
    | some _ => (s, .exists_)
    | none =>
      if c = invalidContent then (s, .invalid)
      else ({ s with objs := s.objs ++ [⟨k, n, a, .xr, false, false, c, false⟩] }, .ok)
  | .mergePatch k n a c =>
    if c = invalidContent then (match findObj s.objs k n with | some _ => (s, .invalid) | none => (s, .notFound)) else
    match findObj s.objs k n with
    | some o =>
      if o.ctrl = .other then (s, .invalid)
      else ({ s with objs := mapObj s.objs k n (fun o => { o with annot := a, ctrl := .xr, content := c }) }, .ok)
    | none => (s, .notFound)
  | .patchXR => (s, .ok)
  | .statusPatch => (s, .okRv s.xrRv)
  | .statusUpdate rv => if rv.isSome ∧ rv ≠ some s.xrRv then (s, .conflict) else (s, .ok)

def isRead : Req → Bool
  | .getXR | .getObj _ _ | .getCached _ _ => true
  | _ => false

def sem : Sem St Req Resp where
  exec := exec
  errResp := fun o r => match o with
    | .conflict => if isRead r then .err else .conflict
    | _ => .err

/-- outcome of `Reconcile`: `success` = composition succeeded, every desired resource
was applied and the final status write went through; `handled` = nil error but some
error/conflict/unsynced path was taken; `error` = a non-nil error was returned -/
inductive Result where
  | success | handled | error
  deriving DecidableEq, Repr, Inhabited

abbrev P := Prog Req Resp Result

/-- error epilogue of Reconcile: a Conflict requeues without touching status; any
other error records Synced=False with one Status().Update -/
def onErrorO (lrv : Option Nat) : P := .call (.statusUpdate lrv) fun
  | .ok => .ret .handled
  | _ => .ret .error

def onError (lrv : Nat) : P := onErrorO (some lrv)

def onConflict : P := .ret .handled

/-- the last call of a reconcile whose composition succeeded (`synced` = every desired
resource was rendered and applied) -/
def finish (lrv : Nat) (synced : Bool) : P := .call (.statusUpdate (some lrv)) fun
  | .ok => .ret (if synced then .success else .handled)
  | _ => .ret .error

/-- a write call whose failure aborts the reconcile -/
def wcall (lrv : Nat) (r : Req) (k : Resp → P) : P := .call r fun
  | .err => onError lrv
  | .conflict => onConflict
  | x => k x

/-- association list of observed composed resources by composition-resource-name
(a Go map: a later entry for the same name replaces the earlier one) -/
abbrev Obs := List (String × CObj)

def obsInsert : Obs → String → CObj → Obs
  | [], n, o => [(n, o)]
  | p :: ps, n, o => if p.1 = n then (n, o) :: ps else p :: obsInsert ps n o

def obsLookup (obs : Obs) (n : String) : Option CObj :=
  (obs.find? (·.1 = n)).map (·.2)

/-- ObserveComposedResources: `g.cached.Get`, and on NotFound ("not in the cache yet? try again
without the cache") `g.uncached.Get` -/
def observeFn (lrv : Nat) : List Ref → Obs → (Obs → P) → P
  | [], acc, k => k acc
  | r :: rs, acc, k =>
    if r.name = "" then observeFn lrv rs acc k else
    let found (o : CObj) : P :=
      if o.ctrl = .other then observeFn lrv rs acc k
      else if o.annot = "" then onError lrv
      else observeFn lrv rs (obsInsert acc o.annot o) k
    .call (.getCached r.kind r.name) fun
      | .found o => found o
      | .notFound => .call (.getObj r.kind r.name) fun
        | .found o => found o
        | .notFound => observeFn lrv rs acc k
        | _ => onError lrv
      | _ => onError lrv

/-- a desired resource with its metadata.name decided -/
structure Named where
  d : Desired
  name : String
  gen : Bool     -- the name was generated in this reconcile (else inherited from the observed resource)
  deriving Repr, Inhabited

/-- the render loop of the function composer: inherit the observed name, else
generate one (one availability probe per generated name). `order` is Go's map
iteration order over the desired resources; `fresh` the generator's choices. -/
def renderFn (lrv : Nat) (obs : Obs) : List Desired → List String → List Named → (List Named → P) → P
  | [], _, acc, k => k acc.reverse
  | d :: ds, fresh, acc, k =>
    match obsLookup obs d.rname with
    | some o => renderFn lrv obs ds fresh (⟨d, o.name, false⟩ :: acc) k
    | none =>
      match fresh with
      | [] => onError lrv   -- generator gave up
      | n :: fresh' => .call (.getCached d.kind n) fun   -- names.NewNameGenerator(cached)
        | .notFound => renderFn lrv obs ds fresh' (⟨d, n, true⟩ :: acc) k
        | .found _ => onError lrv   -- (the real generator retries with another random name; never observed)
        | _ => onError lrv

/-- GarbageCollectComposedResources: observed resources that are not desired -/
def gcFn (lrv : Nat) : List CObj → P → P
  | [], k => k
  | o :: os, k =>
    wcall lrv (.gcUpdate o.kind o.name) fun _ =>
    wcall lrv (.delete o.kind o.name) fun _ =>
    gcFn lrv os k

def refLt (a b : Ref) : Bool := (a.kind ++ a.name) < (b.kind ++ b.name)

/-- UpdateResourceRefs: references of all desired resources, sorted -/
def nkey (n : Named) : Ref := ⟨n.d.kind, n.name⟩

def refsOf (ns : List Named) : List Ref :=
  (ns.map nkey).mergeSort (fun a b => !refLt b a)

/-- the apply loop of the function composer -/
def applyFn (lrv : Nat) : List Named → Bool → (Bool → P) → P
  | [], synced, k => k synced
  | n :: ns, synced, k =>
    wcall lrv (.apply n.d.kind n.name n.d.rname n.d.content) fun
      | .invalid => applyFn lrv ns false k   -- tolerated: the resource is reported unsynced
      | _ => applyFn lrv ns synced k

/-- order a list by a hint (elements whose key is hinted first, in hint order, then
the rest): how the driver replays Go's map iteration order -/
def orderBy {α : Type} (key : α → String) (hint : List String) (xs : List α) : List α :=
  (hint.flatMap fun h => xs.filter (fun x => key x == h)) ++ xs.filter (fun x => !hint.contains (key x))

/-- the nondeterministic choices of one function-composer run -/
structure Choices where
  ver : String := "v1"                  -- API version the function emits its resources with
  fresh : List String                   -- names the generator will propose, in order
  gcOrder : List CObj → List CObj       -- Go's map order in the garbage-collection loop
  applyOrder : List Named → List Named  -- Go's map order in the apply loop

inductive FnOut where
  | desired (ds : List Desired)   -- in the render loop's (map) iteration order
  | failed      -- a step errored, returned a fatal result, or its requirements never stabilised
  deriving Repr, Inhabited

/-- FunctionComposer.Compose followed by the tail of Reconcile -/
def composeFn (lrv : Nat) (refs : List Ref) (out : Obs → FnOut) (ch : Choices) : P :=
  observeFn lrv refs [] fun obs =>
  match out obs with
  | .failed => onError lrv
  | .desired ds =>
    renderFn lrv obs ds ch.fresh [] fun named =>
    let undesired := (obs.filter fun p => !(ds.any (·.rname = p.1))).map (·.2)
    gcFn lrv (ch.gcOrder undesired) <|
    wcall lrv (.patchRefs ch.ver (refsOf named)) fun _ =>
    applyFn lrv (ch.applyOrder named) true fun synced =>
    -- before this call the local XR is replaced by the function's desired XR (FromStruct),
    -- which carries no resourceVersion: a failure here leads to an unconditional status update
    .call .statusPatch fun
      | .okRv rv => finish rv synced   -- the patched XR (latest resourceVersion) is loaded into the local copy
      | .conflict => onConflict
      | _ => onErrorO none

/-! ### P&T composer with named templates -/

/-- template association: for each template (by name) the referenced existing resource, if any -/
abbrev Assoc := List (String × Ref)

def assocInsert : Assoc → String → Ref → Assoc
  | [], n, r => [(n, r)]
  | p :: ps, n, r => if p.1 = n then (n, r) :: ps else p :: assocInsert ps n r

def assocLookup (a : Assoc) (n : String) : Option Ref :=
  (a.find? (·.1 = n)).map (·.2)

/-- GarbageCollectingAssociator.AssociateTemplates (all templates named): `a.cached.Get`, and on
NotFound `a.uncached.Get` -/
def associatePT (lrv : Nat) (tmpl : List Desired) : List Ref → Assoc → (Assoc → P) → P
  | [], acc, k => k acc
  | r :: rs, acc, k =>
    if r.name = "" then associatePT lrv tmpl rs acc k else
    let found (o : CObj) : P :=
      if o.annot = "" then onError lrv     -- falls back to by-order association: outside the model (named templates, annotated resources)
      else if tmpl.any (·.rname = o.annot) then associatePT lrv tmpl rs (assocInsert acc o.annot r) k
      else if o.ctrl = .other then onError lrv
      else
        wcall lrv (.gcUpdate o.kind o.name) fun _ =>
        wcall lrv (.delete o.kind o.name) fun _ =>
        associatePT lrv tmpl rs acc k
    .call (.getCached r.kind r.name) fun
      | .found o => found o
      | .notFound => .call (.getObj r.kind r.name) fun
        | .found o => found o
        | .notFound => associatePT lrv tmpl rs acc k
        | _ => onError lrv
      | _ => onError lrv

/-- a template after rendering: `name = ""` means name generation failed (unrendered) -/
structure Rendered where
  d : Desired
  name : String
  rendered : Bool
  deriving Repr, Inhabited

def rkey (r : Rendered) : Ref := ⟨r.d.kind, r.name⟩

/-- the render loop of the P&T composer (template order; a failed name probe
leaves the template unrendered and does NOT abort) -/
def renderPT (lrv : Nat) (a : Assoc) : List Desired → List String → List Rendered → (List Rendered → P) → P
  | [], _, acc, k => k acc.reverse
  | d :: ds, fresh, acc, k =>
    match assocLookup a d.rname with
    | some r =>
      -- RenderFromJSON refuses a template whose kind differs from the referenced resource
      if r.kind = d.kind then renderPT lrv a ds fresh (⟨d, r.name, true⟩ :: acc) k else onError lrv
    | none =>
      match fresh with
      | [] => renderPT lrv a ds fresh (⟨d, "", false⟩ :: acc) k
      | n :: fresh' => .call (.getCached d.kind n) fun   -- names.NewNameGenerator(cached)
        | .notFound => renderPT lrv a ds fresh' (⟨d, n, true⟩ :: acc) k
        | _ => renderPT lrv a ds fresh' (⟨d, "", false⟩ :: acc) k

/-- the apply loop of the P&T composer: Apply = Get; Create | (MustBeControllableBy; merge Patch).
The applicator is built on the cached client: an existing resource that is missing from the
cache is "not found", the Create answers AlreadyExists and the reconcile errors. -/
def applyPT (lrv : Nat) : List Rendered → Bool → (Bool → P) → P
  | [], synced, k => k synced
  | r :: rs, synced, k =>
    if !r.rendered then applyPT lrv rs false k else
    .call (.getCached r.d.kind r.name) fun
      | .notFound => wcall lrv (.create r.d.kind r.name r.d.rname r.d.content) fun
        | .exists_ => onError lrv
        | .invalid => applyPT lrv rs false k     -- rejected by the API server: reported unsynced, the others still applied
        | _ => applyPT lrv rs synced k
      | .found o =>
        if o.ctrl = .other then onError lrv   -- MustBeControllableBy
        else wcall lrv (.mergePatch r.d.kind r.name r.d.rname r.d.content) fun
          | .notFound => onError lrv
          | .invalid => applyPT lrv rs false k
          | _ => applyPT lrv rs synced k
      | _ => onError lrv

/-- PTComposer.Compose followed by the tail of Reconcile -/
def composePT (lrv : Nat) (refs : List Ref) (tmpl : List Desired) (fresh : List String) (ver : String := "v1") : P :=
  associatePT lrv tmpl refs [] fun a =>
  renderPT lrv a tmpl fresh [] fun rs =>
  wcall lrv (.updateXR lrv ver (rs.map rkey)) fun rsp =>
  let lrv' := match rsp with | .okRv rv => rv | _ => lrv
  applyPT lrv' rs true fun synced =>
  .call .getXR fun
    | .xr _ _ _ => wcall lrv' .patchXR fun _ => finish lrv' synced
    | _ => onError lrv'

inductive Mode where
  | fn (out : Obs → FnOut) (ch : Choices)
  | pt (tmpl : List Desired) (fresh : List String) (ver : String := "v1")

/-- Reconciler.Reconcile for a live, unpaused XR -/
def reconcile (m : Mode) : P :=
  .call .getXR fun
    | .xr fin rv refs =>
      let body (lrv : Nat) : P := match m with
        | .fn out ch => composeFn lrv refs out ch
        | .pt tmpl fresh ver => composePT lrv refs tmpl fresh ver
      if fin then body rv
      else .call (.addFinalizer rv) fun
        | .okRv rv' => body rv'
        | .conflict => onConflict
        | _ => onError rv
    | _ => .ret .error

/-! ### the name generator's availability loop (internal/names/generate.go)

`nameGenerator.GenerateName` draws up to `maxTries` candidates from the API server's name
generator (`fresh`: random suffixes, an input) and probes each with a Get through the client it was
built with — the CACHED one (`names.NewNameGenerator(cached)`): NotFound ⇒ the candidate becomes
the name; found ⇒ next candidate; any other error ⇒ give up with that error; every try found ⇒
`errGenerateName`. `reconcile` above is the instance with ONE try (`reconcileT_one`, Props):
there a found candidate ends the generation. `reconcileT tries` is what the driver runs with
`tries = maxTries` (= `maxTries := 10` of the source: `skeleton_generate_name`), and what the
`…_retry` theorems speak about for EVERY number of tries. -/

/-- `maxTries` of the name generator: at most this many availability probes per generated name -/
def maxTries : Nat := 10

/-- how a name generation ended -/
inductive Probed where
  | name (n : String)   -- the candidate the cache does not know
  | gaveUp              -- every try found an object (errGenerateName), or the model ran out of candidates
  | failed              -- a probe failed with another error
  deriving DecidableEq, Repr, Inhabited

/-- `nameGenerator.GenerateName` for a resource of kind `kind` without a name: the loop body is
`name := namer.GenerateName(..); err := reader.Get(name); IsNotFound ⇒ SetName, return; err ⇒ return err`.
The continuation receives the outcome and the candidates not drawn yet. -/
def probeName (kind : String) : Nat → List String → (Probed → List String → P) → P
  | 0, fresh, k => k .gaveUp fresh
  | _ + 1, [], k => k .gaveUp []
  | t + 1, n :: rest, k => .call (.getCached kind n) fun
    | .notFound => k (.name n) rest
    | .found _ => probeName kind t rest k
    | _ => k .failed rest

/-- the render loop of the function composer with the generator's retry loop: a generation that
does not end in a name aborts the composition -/
def renderFnT (tries : Nat) (lrv : Nat) (obs : Obs) : List Desired → List String → List Named → (List Named → P) → P
  | [], _, acc, k => k acc.reverse
  | d :: ds, fresh, acc, k =>
    match obsLookup obs d.rname with
    | some o => renderFnT tries lrv obs ds fresh (⟨d, o.name, false⟩ :: acc) k
    | none => probeName d.kind tries fresh fun
      | .name n, rest => renderFnT tries lrv obs ds rest (⟨d, n, true⟩ :: acc) k
      | _, _ => onError lrv

/-- FunctionComposer.Compose (+ tail of Reconcile) with the generator's retry loop -/
def composeFnT (tries : Nat) (lrv : Nat) (refs : List Ref) (out : Obs → FnOut) (ch : Choices) : P :=
  observeFn lrv refs [] fun obs =>
  match out obs with
  | .failed => onError lrv
  | .desired ds =>
    renderFnT tries lrv obs ds ch.fresh [] fun named =>
    let undesired := (obs.filter fun p => !(ds.any (·.rname = p.1))).map (·.2)
    gcFn lrv (ch.gcOrder undesired) <|
    wcall lrv (.patchRefs ch.ver (refsOf named)) fun _ =>
    applyFn lrv (ch.applyOrder named) true fun synced =>
    .call .statusPatch fun
      | .okRv rv => finish rv synced
      | .conflict => onConflict
      | _ => onErrorO none

/-- the render loop of the P&T composer with the generator's retry loop: a generation that does
not end in a name leaves the template unrendered (and does not abort) -/
def renderPTT (tries : Nat) (lrv : Nat) (a : Assoc) : List Desired → List String → List Rendered → (List Rendered → P) → P
  | [], _, acc, k => k acc.reverse
  | d :: ds, fresh, acc, k =>
    match assocLookup a d.rname with
    | some r =>
      if r.kind = d.kind then renderPTT tries lrv a ds fresh (⟨d, r.name, true⟩ :: acc) k else onError lrv
    | none => probeName d.kind tries fresh fun
      | .name n, rest => renderPTT tries lrv a ds rest (⟨d, n, true⟩ :: acc) k
      | _, rest => renderPTT tries lrv a ds rest (⟨d, "", false⟩ :: acc) k

/-- PTComposer.Compose (+ tail of Reconcile) with the generator's retry loop -/
def composePTT (tries : Nat) (lrv : Nat) (refs : List Ref) (tmpl : List Desired) (fresh : List String) (ver : String := "v1") : P :=
  associatePT lrv tmpl refs [] fun a =>
  renderPTT tries lrv a tmpl fresh [] fun rs =>
  wcall lrv (.updateXR lrv ver (rs.map rkey)) fun rsp =>
  let lrv' := match rsp with | .okRv rv => rv | _ => lrv
  applyPT lrv' rs true fun synced =>
  .call .getXR fun
    | .xr _ _ _ => wcall lrv' .patchXR fun _ => finish lrv' synced
    | _ => onError lrv'

/-- `Reconciler.Reconcile` after its first read of the XR answered `x` -/
def recContT (tries : Nat) (m : Mode) : Resp → P
  | .xr fin rv refs =>
    let body (lrv : Nat) : P := match m with
      | .fn out ch => composeFnT tries lrv refs out ch
      | .pt tmpl fresh ver => composePTT tries lrv refs tmpl fresh ver
    if fin then body rv
    else .call (.addFinalizer rv) fun
      | .okRv rv' => body rv'
      | .conflict => onConflict
      | _ => onError rv
  | _ => .ret .error

/-- Reconciler.Reconcile for a live, unpaused XR, the name generator trying `tries` candidates -/
def reconcileT (tries : Nat) (m : Mode) : P := .call .getXR (recContT tries m)

/-- A reconcile whose first read of the XR (`r.client.Get`, the cached client) is served by a
LAGGING informer cache: the read is issued, but what the reconciler sees is an earlier version
(`fin`, `rv`, `refs`) of the XR; every later read and all writes see the store (the informer
catches up while the reconcile runs). -/
def reconcileStaleT (tries : Nat) (m : Mode) (fin : Bool) (rv : Nat) (refs : List Ref) : P :=
  .call .getXR fun
    | .xr _ _ _ => recContT tries m (.xr fin rv refs)
    | x => recContT tries m x

/-! ### call skeletons

For every Go function mirrored above: the ordered list of its property-relevant calls as the
model reads them, one entry per call of the source, with the model step that mirrors it (or
"not modelled: why"). `Xp.Gen.c01Skel*` (lean/Xp/Gen/C01Skel.lean) is the same list extracted
with go/ast from the CURRENT tree on every run (harness/main/c01_dump.go); Props/C01.lean
states their equality (`skeleton_*`), so a call inserted, removed or moved in one of these
functions breaks an obligation before any scenario runs. -/

/-- reconciler.go `Reconciler.Reconcile` ↦ `reconcile` -/
def skelReconcile : List String :=
  ["client.Get",                              -- .getXR (error ⇒ return: `.ret .error`)
   "meta.IsPaused", "client.Status.Update",   -- not modelled: the XR of the XR world is never paused
   "meta.WasDeleted",                         -- not modelled: the XR is live (deletion is C08's)
   "composite.UnpublishConnection", "client.Status.Update",
   "composite.RemoveFinalizer", "kerrors.IsConflict", "client.Status.Update",
   "client.Status.Update",
   "composite.AddFinalizer",                  -- .addFinalizer, issued only when the finalizer is absent (`fin`)
   "kerrors.IsConflict",                      -- … conflict ⇒ onConflict
   "client.Status.Update",                    -- … other error ⇒ onError
   "composite.SelectComposition", "client.Status.Update",  -- not modelled: composition fixed (harness stub: no API call, no error)
   "revision.Fetch", "client.Status.Update",               -- not modelled: the revision is an input (`Mode`)
   "revision.Validate", "client.Status.Update",            -- not modelled: revisions of the XR world are valid
   "composite.Configure", "kerrors.IsConflict", "client.Status.Update",  -- not modelled: XR already configured (name-prefix label present)
   "resource.Compose",                        -- composeFn / composePT
   "kerrors.IsConflict",                      -- wcall: conflict ⇒ onConflict (no status write)
   "kerrors.IsInvalid",                       -- message only, no call
   "handleCommonCompositionResult",           -- no API call (no claim reference): skelHandleResult
   "client.Status.Update",                    -- onError / onErrorO
   "engine.StartWatches",                     -- not modelled: no-op engine, no API call
   "composite.PublishConnection", "kerrors.IsConflict", "client.Status.Update",  -- not modelled: no connection secret (C09's world)
   "handleCommonCompositionResult",
   "updateXRConditions",                      -- `synced` of `finish`
   "client.Status.Update",                    -- finish (unsynced/unready: immediate requeue)
   "client.Status.Update"]                    -- finish

/-- reconciler.go `handleCommonCompositionResult`: `getClaimFromXR` Gets the claim only when the XR
has a claim reference — not modelled: the XR of the XR world has none, no API call -/
def skelHandleResult : List String := ["getClaimFromXR", "xr.SetConditions", "xr.SetClaimConditionTypes"]

/-- composition_functions.go `FunctionComposer.Compose` ↦ `composeFn` -/
def skelFnCompose : List String :=
  ["composite.ObserveComposedResources",      -- observeFn
   "composite.FetchConnection",               -- not modelled: the XR has no connection secret, no API call
   "AsState",
   "client.Get",                              -- not modelled: pipeline steps carry no credentials
   "pipeline.RunFunction",                    -- `out obs` (.failed ⇒ onError)
   "FromStruct",
   "cd.SetNamespace", "cd.SetName",           -- renderFn: the observed resource's name is inherited
   "RenderComposedResourceMetadata",          -- annotation / controller carried by `.apply` (skelRenderMeta)
   "composite.GenerateName",                  -- renderFn: probeName
   "composite.GarbageCollectComposedResources", -- gcFn
   "refs.SetName",
   "UpdateResourceRefs",                      -- refsOf
   "client.Patch",                            -- .patchRefs  (BEFORE the apply loop, AFTER the garbage collection)
   "composite.ManagedFieldsUpgrader.Upgrade", -- not modelled: managed-fields migration (no patch when the SSA manager is present)
   "client.Patch",                            -- applyFn: .apply
   "kerrors.IsInvalid",                       -- … .invalid ⇒ unsynced, continue
   "FromStruct", "xr.SetName", "removeSystemConditions",
   "client.Status.Patch"]                     -- .statusPatch

/-- `ExistingComposedResourceObserver.ObserveComposedResources` ↦ `observeFn` -/
def skelObserve : List String :=
  ["cached.Get",                  -- .getCached
   "kerrors.IsNotFound",
   "uncached.Get",                -- .getObj
   "kerrors.IsNotFound",          -- … skip the reference
   "metav1.GetControllerOf",      -- ctrl = .other ⇒ skip
   "GetCompositionResourceName",  -- annot = "" ⇒ error
   "details.FetchConnection"]     -- not modelled: no connection secret

/-- `DeletingComposedResourceGarbageCollector.GarbageCollectComposedResources` ↦ `gcFn` -/
def skelGC : List String :=
  ["metav1.GetControllerOf",      -- not modelled: foreign controller ⇒ error; unreachable, observeFn never records a foreign object
   "meta.RemoveLabels",
   "client.Update",               -- .gcUpdate
   "resource.IgnoreNotFound",
   "client.Delete",               -- .delete
   "resource.IgnoreNotFound"]

/-- `UpdateResourceRefs` ↦ `refsOf` (sorted by `refLt`: skelRefsSortLess) -/
def skelUpdateRefs : List String := ["meta.ReferenceTo", "sort.Slice", "xr.SetResourceReferences"]

/-- the `less` of UpdateResourceRefs; `refLt` compares kind ++ name: all references of one
reconcile carry the same API version, and within one group ("KA2" = Kind KA of a group that sorts first) -/
def skelRefsSortLess : String := "ri.APIVersion+ri.Kind+ri.Name < rj.APIVersion+rj.Kind+rj.Name"

/-- `PatchingManagedFieldsUpgrader.Upgrade`: not modelled (objects of the XR world carry the SSA
manager or are created by it); tied so that a new write in it is noticed -/
def skelUpgrade : List String :=
  ["meta.WasCreated", "obj.GetManagedFields", "resource.IgnoreNotFound", "client.Patch", "resource.IgnoreNotFound", "client.Patch"]

/-- composition_pt.go `PTComposer.Compose` ↦ `composePT` -/
def skelPTCompose : List String :=
  ["ComposedTemplates",                 -- not modelled: no patch sets
   "composition.AssociateTemplates",    -- associatePT
   "RenderFromJSON",                    -- renderPT: kind of the reference = kind of the template, else error
   "RenderFromCompositePatches",        -- not modelled: templates without patches (C10's)
   "RenderComposedResourceMetadata",    -- annotation / controller carried by `.create` / `.mergePatch`
   "composed.GenerateName",             -- renderPT: probeName (failure ⇒ unrendered, no abort)
   "meta.ReferenceTo",                  -- rkey
   "xr.SetResourceReferences",
   "client.Update",                     -- .updateXR (BEFORE the apply loop)
   "resource.MustBeControllableBy",     -- applyPT: ctrl = .other ⇒ error
   "usage.RespectOwnerRefs",            -- not modelled: no Usage among the composed kinds
   "client.Apply",                      -- applyPT: .getCached ; .create | .mergePatch
   "kerrors.IsInvalid",                 -- … .invalid ⇒ unsynced, continue
   "RenderToCompositePatches",          -- not modelled: no patches
   "composed.FetchConnection", "composed.ExtractConnection",  -- not modelled: no connection secret
   "composed.IsReady",                  -- no API call
   "xr.DeepCopy",
   "client.Apply"]                      -- .getXR ; .patchXR

/-- `GarbageCollectingAssociator.AssociateTemplates` ↦ `associatePT` -/
def skelAssociate : List String :=
  ["AssociateByOrder",              -- not modelled: anonymous templates
   "cached.Get",                    -- .getCached
   "kerrors.IsNotFound",
   "uncached.Get",                  -- .getObj
   "kerrors.IsNotFound",
   "GetCompositionResourceName",
   "AssociateByOrder",              -- not modelled: unannotated referenced resource (the model errors)
   "metav1.GetControllerOf",        -- ctrl = .other ⇒ error
   "meta.RemoveLabels",
   "cached.Update",                 -- .gcUpdate
   "resource.IgnoreNotFound",
   "cached.Delete",                 -- .delete
   "resource.IgnoreNotFound"]

/-- composition_render.go `RenderComposedResourceMetadata`: what `.apply` / `.create` / `.mergePatch`
write besides the content (annot := resource name, ctrl := .xr); generateName feeds the name generator -/
def skelRenderMeta : List String :=
  ["cd.SetGenerateName", "SetCompositionResourceName", "meta.AddLabels", "meta.AsController", "meta.TypedReferenceTo",
   "meta.AddControllerReference"]

/-- composition_render.go `RenderFromJSON`: keeps the referenced name, refuses a changed kind -/
def skelRenderFromJSON : List String :=
  ["o.GetName", "o.GetNamespace", "json.Unmarshal", "o.SetName", "o.SetNamespace", "gvk.Empty"]

/-- internal/names/generate.go `nameGenerator.GenerateName` ↦ `probeName` -/
def skelGenerateName : List String :=
  ["cd.GetName", "cd.GetGenerateName",   -- named already ⇒ nothing (renderFn/renderPT: inherited name, no probe)
   "namer.GenerateName",                 -- next candidate of `fresh`
   "cd.GetGenerateName",
   "reader.Get",                         -- .getCached (the generator is built on the cached client)
   "kerrors.IsNotFound",                 -- available ⇒
   "cd.SetName"]                         -- … the candidate becomes the name; found ⇒ next try; other error ⇒ give up

/-! ### the skeletons as annotated by the model

The per-entry comments above, as data: for every entry of a declared skeleton, the API calls
(`reqVerb` of the model's requests) the mirroring model step issues on the designated full path of
the model — the run in which every loop is entered exactly once (one reference that is missing from
the cache and undesired, one desired resource that needs a name, a missing finalizer). Callee
skeletons are inlined at their call sites (`stepsOf`). Props/C01.lean proves that the first
components ARE the declared skeletons and that the concatenated annotations ARE the requests the
model applies on that path (`model_path_matches_skeleton_fn/_pt`): an entry annotated with a call
the model does not issue there, or a model call no entry accounts for, breaks the obligation. -/

/-- the client call a model request stands for -/
def reqVerb : Req → String
  | .getXR | .getObj _ _ | .getCached _ _ => "Get"
  | .addFinalizer _ | .gcUpdate _ _ | .updateXR _ _ _ => "Update"
  | .delete _ _ => "Delete"
  | .patchRefs _ _ | .apply _ _ _ _ | .mergePatch _ _ _ _ | .patchXR => "Patch"
  | .create _ _ _ _ => "Create"
  | .statusPatch => "Status.Patch"
  | .statusUpdate _ => "Status.Update"

abbrev Annot := List (String × List String)

def stepsOf (a : Annot) : List String := a.flatMap (·.2)

def skelObserveA : Annot :=
  [("cached.Get", ["Get"]), ("kerrors.IsNotFound", []), ("uncached.Get", ["Get"]), ("kerrors.IsNotFound", []),
   ("metav1.GetControllerOf", []), ("GetCompositionResourceName", []), ("details.FetchConnection", [])]

def skelGCA : Annot :=
  [("metav1.GetControllerOf", []), ("meta.RemoveLabels", []), ("client.Update", ["Update"]), ("resource.IgnoreNotFound", []),
   ("client.Delete", ["Delete"]), ("resource.IgnoreNotFound", [])]

def skelGenerateNameA : Annot :=
  [("cd.GetName", []), ("cd.GetGenerateName", []), ("namer.GenerateName", []), ("cd.GetGenerateName", []),
   ("reader.Get", ["Get"]), ("kerrors.IsNotFound", []), ("cd.SetName", [])]

def skelFnComposeA : Annot :=
  [("composite.ObserveComposedResources", stepsOf skelObserveA), ("composite.FetchConnection", []), ("AsState", []),
   ("client.Get", []), ("pipeline.RunFunction", []), ("FromStruct", []), ("cd.SetNamespace", []), ("cd.SetName", []),
   ("RenderComposedResourceMetadata", []), ("composite.GenerateName", stepsOf skelGenerateNameA),
   ("composite.GarbageCollectComposedResources", stepsOf skelGCA), ("refs.SetName", []), ("UpdateResourceRefs", []),
   ("client.Patch", ["Patch"]), ("composite.ManagedFieldsUpgrader.Upgrade", []), ("client.Patch", ["Patch"]),
   ("kerrors.IsInvalid", []), ("FromStruct", []), ("xr.SetName", []), ("removeSystemConditions", []),
   ("client.Status.Patch", ["Status.Patch"])]

def skelAssociateA : Annot :=
  [("AssociateByOrder", []), ("cached.Get", ["Get"]), ("kerrors.IsNotFound", []), ("uncached.Get", ["Get"]),
   ("kerrors.IsNotFound", []), ("GetCompositionResourceName", []), ("AssociateByOrder", []), ("metav1.GetControllerOf", []),
   ("meta.RemoveLabels", []), ("cached.Update", ["Update"]), ("resource.IgnoreNotFound", []), ("cached.Delete", ["Delete"]),
   ("resource.IgnoreNotFound", [])]

def skelPTComposeA : Annot :=
  [("ComposedTemplates", []), ("composition.AssociateTemplates", stepsOf skelAssociateA), ("RenderFromJSON", []),
   ("RenderFromCompositePatches", []), ("RenderComposedResourceMetadata", []),
   ("composed.GenerateName", stepsOf skelGenerateNameA), ("meta.ReferenceTo", []), ("xr.SetResourceReferences", []),
   ("client.Update", ["Update"]), ("resource.MustBeControllableBy", []), ("usage.RespectOwnerRefs", []),
   ("client.Apply", ["Get", "Create"]),      -- crossplane-runtime APIPatchingApplicator: Get; NotFound ⇒ Create
   ("kerrors.IsInvalid", []), ("RenderToCompositePatches", []), ("composed.FetchConnection", []),
   ("composed.ExtractConnection", []), ("composed.IsReady", []), ("xr.DeepCopy", []),
   ("client.Apply", ["Get", "Patch"])]       -- … found ⇒ merge Patch (the XR)

/-- Reconciler.Reconcile, `compose` being the calls of the composer on the path -/
def skelReconcileA (compose : List String) : Annot :=
  [("client.Get", ["Get"]), ("meta.IsPaused", []), ("client.Status.Update", []), ("meta.WasDeleted", []),
   ("composite.UnpublishConnection", []), ("client.Status.Update", []), ("composite.RemoveFinalizer", []),
   ("kerrors.IsConflict", []), ("client.Status.Update", []), ("client.Status.Update", []),
   ("composite.AddFinalizer", ["Update"]),   -- crossplane-runtime APIFinalizer: Update when the finalizer is absent
   ("kerrors.IsConflict", []), ("client.Status.Update", []), ("composite.SelectComposition", []),
   ("client.Status.Update", []), ("revision.Fetch", []), ("client.Status.Update", []), ("revision.Validate", []),
   ("client.Status.Update", []), ("composite.Configure", []), ("kerrors.IsConflict", []), ("client.Status.Update", []),
   ("resource.Compose", compose), ("kerrors.IsConflict", []), ("kerrors.IsInvalid", []),
   ("handleCommonCompositionResult", []), ("client.Status.Update", []), ("engine.StartWatches", []),
   ("composite.PublishConnection", []), ("kerrors.IsConflict", []), ("client.Status.Update", []),
   ("handleCommonCompositionResult", []), ("updateXRConditions", []), ("client.Status.Update", []),
   ("client.Status.Update", ["Status.Update"])]

/-- the designated path: no finalizer yet; one reference, to a resource "z" that is missing from the
cache and no longer desired; one desired resource that needs a name -/
def pathStore (kind : String) : St :=
  { xrFin := false, xrRv := 1, refs := [⟨kind, "xr-old"⟩],
    objs := [⟨kind, "xr-old", "z", .xr, false, false, 0, true⟩], miss := [⟨kind, "xr-old"⟩] }

def pathModeFn : Mode := .fn (fun _ => .desired [⟨"c", "KA", 0, true⟩]) ⟨"v1", ["xr-new"], id, id⟩

def pathModePT : Mode := .pt [⟨"a", "KA", 1, true⟩] ["xr-new"] "v1"

end Xp.C01

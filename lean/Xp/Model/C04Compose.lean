import Xp.Model.C04
/-
C04 model, second part: what FunctionComposer.Compose (composition_functions.go) does AROUND
the pipeline loop of Xp/Model/C04.lean, field by field:

* `SecretStore.get`           – client.Get of a Secret (found / NotFound / another error)
* `fetchConnection`           – SecretConnectionDetailsFetcher.FetchConnection (connection.go)
* `observeX`                  – ExistingComposedResourceObserver.ObserveComposedResources, with the
                                connection details of every observed composed resource
* `asState`                   – AsState: the observed state, built ONCE per Compose
* `decodeInput`, `loadCreds`  – the head of the loop body: input decoding, the credentials loop
                                (source filter, secret Get, its error handling, name ↦ data map)
* `buildRequest`              – `&fnv1.RunFunctionRequest{Observed: o, Desired: d, Context: fctx}` +
                                Input + Credentials (no Meta, no ExtraResources)
* `toStep` / `composeX`       – the pipeline: the loop itself is `runPipeline` of Xp/Model/C04.lean,
                                run over steps whose function is closed over the parts of the request
                                that are constant for the step (observed, input, credentials)
* `convStatus`, `convertTarget` – response handling: condition status / target mapping

The full request a function receives is `XRequest`: the part the loop threads and refreshes
(`base : Request`) plus the constant part. Core Lean only.
-/
namespace Xp.C04

abbrev KV := List (String × String)

/-! ### Secrets and connection details -/

structure SecretStore where
  secrets : List (String × KV)     -- Secret key (namespace AND name, rendered "name" / "ns/name") ↦ data
  failing : List String            -- Secret names whose Get answers an error other than NotFound
  deriving Repr, Inhabited

inductive GetRes where
  | found (d : KV) | notFound | error
  deriving DecidableEq, Repr, Inhabited

/-- `client.Get` of a Secret -/
def SecretStore.get (s : SecretStore) (n : String) : GetRes :=
  if s.failing.contains n then .error
  else match s.secrets.lookup n with
    | some d => .found d
    | none => .notFound

/-- SecretConnectionDetailsFetcher.FetchConnection: `none` = error.
No `writeConnectionSecretToRef` ⇒ (nil, nil); NotFound is ignored (the data of an empty Secret);
any other Get error is returned. -/
def fetchConnection (s : SecretStore) (ref : Option String) : Option KV :=
  match ref with
  | none => some []
  | some n =>
    match s.get n with
    | .found d => some d
    | .notFound => some []
    | .error => none

/-! ### the observed state -/

/-- a composed-kind object as the observer sees it -/
structure CObj where
  kind : String
  name : String
  annot : String              -- composition-resource-name annotation ("" = none)
  ctrl : String               -- "xr" | "other" | "none"
  content : Nat
  connRef : Option String     -- spec.writeConnectionSecretToRef.name
  deriving Repr, Inhabited

/-- an observed composed resource with its connection details -/
structure ORes where
  res : Res
  conn : KV
  deriving DecidableEq, Repr, Inhabited

/-- one iteration of the loop of ObserveComposedResources; `none` = error -/
def observeStep (s : SecretStore) (objs : List CObj) (acc : List ORes) (r : String × String) : Option (List ORes) :=
  if r.2 == "" then some acc else                                  -- nameless reference: skipped
  match objs.find? (fun o => o.kind == r.1 && o.name == r.2) with  -- cached.Get, uncached.Get
  | none => some acc                                               -- NotFound twice: skipped
  | some o =>
    if o.ctrl == "other" then some acc                             -- controlled by someone else: skipped
    else if o.annot == "" then none                                -- errAnonymousCD
    else match fetchConnection s o.connRef with                    -- details.FetchConnection
      | none => none
      | some c => some ((acc.filter (·.res.rname != o.annot)) ++ [⟨⟨o.annot, o.kind, o.name, o.content, false⟩, c⟩])

/-- ExistingComposedResourceObserver.ObserveComposedResources -/
def observeX (s : SecretStore) (refs : List (String × String)) (objs : List CObj) : Option (List ORes) :=
  refs.foldlM (observeStep s objs) []

/-- a resource of that name is among the observed ones -/
def hasName (acc : List ORes) (n : String) : Prop := ∃ r ∈ acc, r.res.rname = n

/-- `*fnv1.State` of the observed side: the XR with its connection details and every observed
composed resource with its connection details -/
structure ObservedState where
  xrName : String
  xrConn : KV
  resources : List ORes
  deriving DecidableEq, Repr, Inhabited

/-- AsState -/
def asState (xrName : String) (xc : KV) (rs : List ORes) : ObservedState := ⟨xrName, xc, rs⟩

/-! ### the request -/

/-- The request a function receives. `base` is the part the loops thread (desired, XR readiness,
context) and refresh (extra resources) plus the abstract view of the constant part; the other
fields are the rest of the constant part. -/
structure XRequest where
  base : Request
  xrName : String                     -- observed.composite.resource.metadata.name
  xrConn : KV                         -- observed.composite.connection_details
  obsConn : List (String × KV)        -- observed.resources[n].connection_details
  credData : List (String × KV)       -- credentials[n].credential_data.data
  hasInput : Bool                     -- input set
  metaTag : String                    -- meta.tag ("" : Compose sets no meta)
  deriving DecidableEq, Repr, Inhabited

abbrev XFn := XRequest → Option Response

/-- v1.FunctionCredentials -/
structure Cred where
  name : String
  isSecret : Bool                 -- source == Secret
  secretRef : Option String       -- key of secretRef.namespace + secretRef.name (both: client.ObjectKey)
  deriving DecidableEq, Repr, Inhabited

/-- v1.PipelineStep -/
structure XStep where
  name : String                   -- step
  fn : XFn                        -- the function behind functionRef.name
  input : Option (Option String)  -- none = no input; some none = raw bytes that do not decode; some (some v)
  creds : List Cred

def upsert {β : Type} (l : List (String × β)) (k : String) (v : β) : List (String × β) :=
  if l.any (·.1 == k) then l.map (fun p => if p.1 == k then (k, v) else p) else l ++ [(k, v)]

/-- the credentials loop of Compose: entries that are not secret-sourced (or have no secretRef)
are skipped; a Get that fails for ANY reason (NotFound included) fails the step; the map is keyed
by credential name (a later entry of the same name replaces the earlier one). `none` = error. -/
def loadCreds (s : SecretStore) (acc : List (String × KV)) : List Cred → Option (List (String × KV))
  | [] => some acc
  | c :: cs =>
    if !c.isSecret then loadCreds s acc cs
    else match c.secretRef with
      | none => loadCreds s acc cs
      | some ref =>
        match s.get ref with
        | .found d => loadCreds s (upsert acc c.name d) cs
        | _ => none

/-- the (name, data) a credentials entry contributes: secret-sourced, with a reference, Secret found -/
def credEntry (s : SecretStore) (c : Cred) : Option (String × KV) :=
  if c.isSecret then
    match c.secretRef with
    | none => none
    | some ref => match s.get ref with
      | .found d => some (c.name, d)
      | _ => none
  else none

/-- `in.UnmarshalJSON(fn.Input.Raw)`: `none` = error; `some (hasInput, value)` -/
def decodeInput : Option (Option String) → Option (Bool × String)
  | none => some (false, "")
  | some none => none
  | some (some v) => some (true, v)

/-- what Compose prepares for a step before it calls the function: input first, then credentials -/
def prepare (s : SecretStore) (xs : XStep) : Option ((Bool × String) × List (String × KV)) :=
  match decodeInput xs.input with
  | none => none
  | some i => (loadCreds s [] xs.creds).map fun c => (i, c)

def keysOf (c : List (String × KV)) : List (String × List String) := c.map fun p => (p.1, p.2.map (·.1))

/-- the constant part of a step's requests wrapped around the part the loops own -/
def embed (o : ObservedState) (i : Bool × String) (cd : List (String × KV)) (q : Request) : XRequest :=
  { base := q, xrName := o.xrName, xrConn := o.xrConn, obsConn := o.resources.map (fun r => (r.res.rname, r.conn)),
    credData := cd, hasInput := i.1, metaTag := "" }

/-- `req := &fnv1.RunFunctionRequest{Observed: o, Desired: d, Context: fctx}; req.Input = …;
req.Credentials = …` — the request Compose hands to the runner for a step: no extra resources,
no meta. -/
def buildRequest (o : ObservedState) (st : PipeState) (i : Bool × String) (cd : List (String × KV)) : XRequest :=
  embed o i cd
    { observed := o.resources.map (·.res), desired := st.desired, xrReady := st.xrReady, ctx := st.ctx,
      extra := [], input := i.2, creds := keysOf cd }

/-- The step as the pipeline loop of Xp/Model/C04.lean sees it. A step whose preparation fails
(input does not decode, or a credentials Get fails) is a step with an unavailable credential:
`runPipeline` stops there without calling the function, exactly as Compose returns. -/
def toStep (s : SecretStore) (o : ObservedState) (xs : XStep) : Step :=
  match prepare s xs with
  | none => { name := xs.name, fn := fun _ => none, input := "", creds := [(xs.name, none)] }
  | some (i, cd) =>
    { name := xs.name, fn := fun q => xs.fn (embed o i cd q), input := i.2,
      creds := (keysOf cd).map fun p => (p.1, some p.2) }

structure XWorld where
  xrName : String
  xrConnRef : Option String
  refs : List (String × String)
  objs : List CObj
  secrets : SecretStore
  cluster : List ClusterObj

inductive XResult where
  | observeFailed                         -- ObserveComposedResources / FetchConnection(XR) failed: nothing was run
  | ran (o : ObservedState) (r : PipeResult)

/-- Compose up to the end of the pipeline loop -/
def composeX (w : XWorld) (steps : List XStep) : XResult :=
  match observeX w.secrets w.refs w.objs with
  | none => .observeFailed
  | some ors =>
    match fetchConnection w.secrets w.xrConnRef with
    | none => .observeFailed
    | some xc =>
      let o := asState w.xrName xc ors
      .ran o (runPipeline w.cluster (o.resources.map (·.res)) (steps.map (toStep w.secrets o)) 0 initState)

/-- the full requests the functions received: entry `(k, q)` of the loop's trace is the request
`embed o input_k creds_k q` of step `k` -/
def xtrace (s : SecretStore) (o : ObservedState) (steps : List XStep) (tr : List (Nat × Request)) : List (Nat × XRequest) :=
  tr.filterMap fun p =>
    match steps[p.1]? with
    | none => none
    | some xs =>
      match prepare s xs with
      | none => none
      | some (i, cd) => some (p.1, embed o i cd p.2)

/-! ### response handling -/

/-- the `switch c.GetStatus()` of Compose: STATUS_CONDITION_TRUE ↦ True, …_FALSE ↦ False,
…_UNKNOWN and …_UNSPECIFIED ↦ Unknown -/
def convStatus (s : String) : String :=
  if s == "True" then "True" else if s == "False" then "False" else "Unknown"

/-- convertTarget: only TARGET_COMPOSITE_AND_CLAIM (2) reaches the claim -/
def convertTarget (t : Nat) : Bool := t == 2

def convCond (c : FnCond) : FnCond := { c with status := convStatus c.status }

/-! ### declared call skeletons
The ordered calls (bare identifiers and selector chains, receiver stripped), `return`s, `case`
labels and loop brackets of the Go functions this file and Xp/Model/C04.lean mirror. The same
lists are regenerated from the current source tree by go/ast on every check run
(`Xp.Gen.c04Skel…`, harness/main/c04_dump.go) and Xp/Props/C04.lean states their equality. -/

/-- FunctionComposer.Compose -/
def skelCompose : List String := [
  "composite.ObserveComposedResources",   -- observeX
  "return",                               --   = none ⇒ composeX = .observeFailed
  "composite.FetchConnection",            -- fetchConnection w.secrets w.xrConnRef
  "return",                               --   = none ⇒ .observeFailed
  "AsState",                              -- asState: ONCE, before the loop
  "return",                               -- not modelled: AsStruct cannot fail on unstructured content
  "loop{",                                -- runPipeline over steps.map (toStep …)
    "in.UnmarshalJSON",                   -- decodeInput
    "return",                             --   prepare = none ⇒ .failed st false
    "loop{",                              -- loadCreds
      "client.Get",                       --   SecretStore.get ref
      "return",                           --   anything but found ⇒ prepare = none
    "}",
    "pipeline.RunFunction",               -- runFetching … (stepRequest …) [] ; full form buildRequest
    "return",                             --   Outcome.err ⇒ .failed st1 false
    "rsp.GetDesired",                     -- st2.desired / st2.xrReady := rsp.…
    "rsp.GetContext",                     -- st2.ctx := rsp.ctx
    "loop{",                              -- st2.conds := st1.conds ++ rsp.conds (convCond)
      "rsp.GetConditions",
      "GetStatus",                        -- convStatus
      "case Status_STATUS_CONDITION_TRUE",
      "case Status_STATUS_CONDITION_FALSE",
      "case Status_STATUS_CONDITION_UNKNOWN|Status_STATUS_CONDITION_UNSPECIFIED",
      "GetType", "GetReason", "GetMessage",   -- FnCond.type / reason / message
      "convertTarget", "GetTarget",       -- FnCond.claim
    "}",
    "loop{",                              -- eventsUntilFatal s.name rsp.results
      "rsp.GetResults",
      "rs.GetReason",                     -- not modelled: the event's reason (default ComposeResources)
      "convertTarget", "rs.GetTarget",    -- Result.claim
      "rs.GetSeverity",
      "case Severity_SEVERITY_FATAL",     -- ([], true) ⇒ .failed st2 true (events and conditions so far surfaced)
      "return",
      "rs.GetMessage",
      "case Severity_SEVERITY_WARNING",   -- evOf .warning
      "event.Warning", "rs.GetMessage",
      "case Severity_SEVERITY_NORMAL",    -- evOf .normal
      "event.Normal", "rs.GetMessage",
      "case Severity_SEVERITY_UNSPECIFIED", -- evOf .unspecified (XR only)
      "event.Warning", "rs.GetMessage",
    "}",
  "}",
  -- from here on: rendering / collection / apply are C01 / C03's (c03SkelComposeFn); the C04
  -- driver reports the names and readiness of the result's resources and the XR's readiness
  "loop{",
    "d.GetResources",                     -- st.desired of the .done state: the LAST step's output
    "FromStruct", "dr.GetResource",
    "return", "return", "return",
    "dr.GetConnectionDetails",            -- not modelled: desired connection details
    "dr.GetReady",                        -- Res.ready
  "}",
  "d.GetComposite.GetReady", "d.GetComposite",  -- st.xrReady
  "case Ready_READY_TRUE",
  "case Ready_READY_FALSE",
  "composite.GarbageCollectComposedResources", "return",
  "UpdateResourceRefs",
  "client.Patch", "return",
  "loop{", "composite.ManagedFieldsUpgrader.Upgrade", "return", "}",
  "loop{", "client.Patch", "event.Warning", "return", "}",
  "FromStruct", "d.GetComposite.GetResource", "d.GetComposite", "return",
  "removeSystemConditions",
  "client.Status.Patch", "return",
  "return",
  "d.GetComposite.GetConnectionDetails", "d.GetComposite"]   -- not modelled: the XR's desired connection details

/-- ExistingComposedResourceObserver.ObserveComposedResources -/
def skelObserve : List String := [
  "loop{",                                -- refs.foldlM (observeStep …)
    "xr.GetResourceReferences",
    "composed.New",
    "cached.Get",                         -- objs.find?
    "kerrors.IsNotFound",
    "uncached.Get",                       -- objs.find? (the C04 scenarios have no cache lag: C01's dimension)
    "kerrors.IsNotFound",                 --   none ⇒ skipped
    "return",                             -- not modelled: another Get error
    "metav1.GetControllerOf", "xr.GetUID",  -- ctrl == "other" ⇒ skipped
    "GetCompositionResourceName",         -- annot
    "return", "errors.New",               --   "" ⇒ none
    "details.FetchConnection",            -- fetchConnection s o.connRef
    "return",                             --   none ⇒ none
  "}",
  "return"]

/-- AsState -/
def skelAsState : List String := [
  "AsStruct",                             -- xrName
  "return",                               -- not modelled: AsStruct error
  "loop{",
    "AsStruct",                           -- resources
    "return",
  "}",
  "return"]

/-- SecretConnectionDetailsFetcher.FetchConnection -/
def skelFetchConnection : List String := [
  "o.GetWriteConnectionSecretToReference",  -- ref
  "return",                               -- none ⇒ some []
  "client.Get",                           -- s.get n
  "client.IgnoreNotFound",                -- .notFound ⇒ some []
  "return",                               -- .error ⇒ none
  "return"]                               -- .found d ⇒ some d

/-- FetchingFunctionRunner.RunFunction -/
def skelFetching : List String := [
  "loop{",                                -- fuel: MaxRequirementsIterations + 1
    "wrapped.RunFunction",                -- f req
    "return",                             --   none ⇒ ([req], .err)
    "loop{",
      "rsp.GetResults", "rs.GetSeverity", -- hasFatal rsp.results
      "return",                           --   ⇒ ([req], .ok rsp)
    "}",
    "rsp.GetRequirements",
    "reflect.DeepEqual",                  -- rsp.reqs = prev
    "return",                             --   ⇒ ([req], .ok rsp)
    "make",                               -- extra := … (replaced, nothing kept from earlier rounds)
    "loop{",
      "newRequirements.GetExtraResources",
      "resources.Fetch",                  -- fetch cluster p.2
      "return", "errors.Wrapf",           -- not modelled: Fetch error (no fault is injected into these reads)
    "}",
    "rsp.GetContext",                     -- ctx := rsp.ctx
  "}",
  "return", "errors.Errorf"]              -- fuel 0 ⇒ ([], .err)

/-- ExistingExtraResourcesFetcher.Fetch -/
def skelFetch : List String := [
  "return", "errors.New",                 -- not modelled: nil selector
  "rs.GetMatch",
  "case *ResourceSelector_MatchName",     -- s.name ≠ ""
    "rs.GetApiVersion", "rs.GetKind",     -- o.kind = s.kind
    "rs.GetMatchName",                    -- o.name = s.name
    "client.Get",
    "kerrors.IsNotFound",
    "return",                             -- none (nil Resources)
    "return",                             -- not modelled: another Get error
    "AsStruct",
    "return",                             -- not modelled: AsStruct error
    "return",                             -- some [s.name]
  "case *ResourceSelector_MatchLabels",   -- s.name = ""
    "rs.GetApiVersion", "rs.GetKind",     -- o.kind = s.kind
    "client.List", "client.MatchingLabels", "match.MatchLabels.GetLabels",  -- s.labels.all (o.labels.contains ·)
    "return",                             -- not modelled: List error
    "loop{", "AsStruct", "return", "}",
    "return",                             -- some (names of the matches)
  "return", "errors.New"]                 -- not modelled: selector with neither match

end Xp.C04

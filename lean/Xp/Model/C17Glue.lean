import Xp.Model.C17
import Xp.Model.C17Rec
import Xp.Gen.C17Tables
/-
C17 model, part 5: the repository's own glue between the libraries and the DAG.

* internal/xpkg/name.go `ParsePackageSourceFromReference`: the Source of the lock entry a
  revision records (`parseSource`), computed from `ref.String()` (go-containerregistry: oracle);
* internal/controller/pkg/revision/dependency.go, top of `Resolve`: the conversion of the
  package meta's dependsOn entries into lock dependencies (`metaToLock`, `metaDepsToLock`) and
  the lock entry `self` built for the revision (`selfEntry`);
* internal/controller/pkg/resolver/reconciler.go `NewPackage` / `NewPackageList`: which kind of
  object is constructed for a recorded dependency (`depKind`) and its spec.package
  (`fmtImage`, Model/C17Rec.lean).

The package type constants and group/versions are regenerated from the tree
(Xp/Gen/C17Tables.lean). Core Lean only.
-/
namespace Xp.C17

/-! ## ParsePackageSourceFromReference -/

/-- `s, _, _ := strings.Cut(s, "@")`: the part before the first '@' -/
def cutAt : List Char → List Char
  | [] => []
  | c :: cs => if c = '@' then [] else c :: cutAt cs

/-- `strings.LastIndex(s, sep) + 1` for a one-character separator, scanning from position `i`
(1-based) with `acc` the last hit so far: 0 = absent (Go: -1) -/
def lastIdx1 (sep : Char) : List Char → Nat → Nat → Nat
  | [], _, acc => acc
  | c :: cs, i, acc => lastIdx1 sep cs (i + 1) (if c = sep then i else acc)

def lastIdx (sep : Char) (s : List Char) : Nat := lastIdx1 sep s 1 0

/-- `if i := strings.LastIndex(s, ":"); i > strings.LastIndex(s, "/") { s = s[:i] }` after the Cut -/
def parseSourceL (s0 : List Char) : List Char :=
  let s := cutAt s0
  if lastIdx ':' s > lastIdx '/' s then s.take (lastIdx ':' s - 1) else s

/-- ParsePackageSourceFromReference on `ref.String()` -/
def parseSource (refStr : String) : String := String.ofList (parseSourceL refStr.toList)

/-- `fmt.Sprintf(format, ref.String(), version)` of NewPackage / Reconcile on character lists
(`fmtImage` of Model/C17Rec.lean is the same on strings) -/
def fmtImageL (ref v : List Char) : List Char :=
  if "sha256:".toList.isPrefixOf v then ref ++ '@' :: v else ref ++ ':' :: v

/-! ## NewPackage / NewPackageList: kind dispatch -/

/-- the fields of a v1beta1.Dependency the dispatch looks at -/
structure KindFields where
  apiVersion : Option String
  kind : Option String
  /-- the deprecated `type` -/
  type : Option String
  deriving DecidableEq, Repr

/-- the `switch` of NewPackage and NewPackageList over the table (package type ↦ apiVersion,
kind): explicit apiVersion and kind win; else `ptr.Deref(dep.Type, "")` is looked up; `none` =
"encountered an invalid dependency" -/
def depKind (tbl : List (String × String × String)) (d : KindFields) : Option (String × String) :=
  match d.apiVersion, d.kind with
  | some a, some k => some (a, k)
  | _, _ => (tbl.find? (fun t => t.1 == d.type.getD "")).map (·.2)

/-- NewPackage: apiVersion, kind and spec.package of the object (its name is
`RefInfo.pkgName`: ToDNSLabel of the repository path, oracle) -/
def newPackage (tbl : List (String × String × String)) (d : KindFields) (version refStr : String) :
    Option (String × String × String) :=
  (depKind tbl d).map fun ak => (ak.1, ak.2, fmtImage refStr version)

/-- NewPackageList: apiVersion and kind of the list -/
def newPackageList (tbl : List (String × String × String)) (d : KindFields) : Option (String × String) :=
  (depKind tbl d).map fun ak => (ak.1, ak.2 ++ "List")

/-! ## Resolve: meta dependsOn ↦ lock dependencies, and the revision's own entry -/

/-- pkgmetav1.Dependency -/
structure MetaDep where
  apiVersion : Option String
  kind : Option String
  pkg : Option String
  provider : Option String
  configuration : Option String
  function : Option String
  version : String
  deriving DecidableEq, Repr

/-- v1beta1.Dependency as recorded in the Lock -/
structure LockDep where
  pkg : String
  apiVersion : Option String
  kind : Option String
  type : Option String
  con : String
  deriving DecidableEq, Repr

def LockDep.fields (d : LockDep) : KindFields := ⟨d.apiVersion, d.kind, d.type⟩
/-- what the DAG sees of it -/
def LockDep.dep (d : LockDep) : Dep := ⟨d.pkg, d.con⟩

/-- the `switch` at the top of Resolve: explicit apiVersion + kind + package take precedence,
then configuration, provider, function; `none` = "encountered an invalid dependency" -/
def metaToLock (m : MetaDep) : Option LockDep :=
  match m.apiVersion, m.kind, m.pkg with
  | some a, some k, some p => some ⟨p, some a, some k, none, m.version⟩
  | _, _, _ =>
    match m.configuration with
    | some c => some ⟨c, none, none, some Xp.Gen.c17TypeConfiguration, m.version⟩
    | none =>
      match m.provider with
      | some p => some ⟨p, none, none, some Xp.Gen.c17TypeProvider, m.version⟩
      | none =>
        match m.function with
        | some f => some ⟨f, none, none, some Xp.Gen.c17TypeFunction, m.version⟩
        | none => none

/-- the loop over `meta.GetDependencies()`: entry `i` of the result is the conversion of entry
`i`; the first invalid entry is the error -/
def metaDepsToLock : List MetaDep → Option (List LockDep)
  | [] => some []
  | m :: ms =>
    match metaToLock m with
    | none => none
    | some d => (metaDepsToLock ms).map (d :: ·)

/-- the lock entry Resolve builds for the revision (`self`) -/
structure SelfEntry where
  apiVersion : String
  kind : String
  name : String
  source : String
  version : String
  deps : List LockDep
  deriving DecidableEq, Repr

/-- `self := v1beta1.LockPackage{…}`: `refStr` / `ident` are `prRef.String()` / `prRef.Identifier()` -/
def selfEntry (gv kind name refStr ident : String) (deps : List LockDep) : SelfEntry :=
  ⟨gv, kind, name, parseSource refStr, ident, deps⟩

/-- the `Pkg` the rest of the model (`resolveTail`, the DAG) works on -/
def SelfEntry.pkg (s : SelfEntry) : Pkg := ⟨s.name, s.source, s.version, s.deps.map (·.dep), false⟩

end Xp.C17

import Xp.Model.C16
/-
C16 model, part 3: what `APIEstablisher.Establish` does to the CONTENT of a package object
before it is validated and written (establisher.go):

* `addLabels` — `parent.GetCommonLabels()` merged into the labels of every package object
  (first statement of `Establish`, for active and inactive parents alike);
* `enrichControlledResource` — only for a controlling parent (`control = true`): a
  Validating/MutatingWebhookConfiguration is RENAMED to `crossplane-<lower(kind)>-<name>` of
  the owning package and every entry of `webhooks` gets the CA bundle and the service
  (name = label `pkg.crossplane.io/package` of the revision, namespace of the establisher,
  port 9443); a CRD whose conversion strategy is `Webhook` gets the same client config, or is
  REFUSED when there is no CA bundle; everything else passes untouched.

The definitions mirror the Go statements one by one; `Props/C16.lean` section 12 proves the frame
("nothing else of the object changes") and ties them to the code by (a) the call / field-write
skeleton of the function, (b) a table of rows obtained by running the real functions
(`Xp/Gen/C16Enrich.lean`), (c) the differential harness (scenario family `enrich`).

Objects are structured as far as the function looks: everything it never reads or writes is
the opaque `rest`.
-/
namespace Xp.C16

/-- `ServiceReference` (admissionregistration/v1 and apiextensions/v1 carry the same fields) -/
structure Svc where
  name : String
  ns : String
  path : Option String
  port : Option Nat
  deriving DecidableEq, Repr

/-- `WebhookClientConfig` -/
structure CC where
  url : Option String
  service : Option Svc
  /-- the bytes of `caBundle` -/
  caBundle : String
  deriving DecidableEq, Repr

/-- one entry of `webhooks` of a webhook configuration: its client config, and the rest -/
structure Hook where
  name : String
  cc : CC
  rest : Nat
  deriving DecidableEq, Repr

/-- `spec.conversion.webhook` of a CRD -/
structure WebhookConv where
  cc : Option CC
  reviewVersions : List String
  deriving DecidableEq, Repr

/-- `spec.conversion` of a CRD -/
structure Conv where
  strategy : String
  webhook : Option WebhookConv
  deriving DecidableEq, Repr

/-- the Go type the type switch of `enrichControlledResource` sees -/
inductive Shape where
  | validating (hooks : List Hook)
  | mutating (hooks : List Hook)
  | crd (conv : Option Conv)
  | other
  deriving DecidableEq, Repr

/-- a package object as `Establish` receives it from the parser -/
structure PObj where
  name : String
  /-- `metadata.labels`; `none` = the nil map -/
  labels : Option (List (String × String))
  shape : Shape
  /-- everything else -/
  rest : Nat
  deriving DecidableEq, Repr

/-- an owner reference of the revision, as far as `enrichControlledResource` reads it -/
structure POwner where
  kind : String
  name : String
  deriving DecidableEq, Repr

/-- the parent revision, as far as `addLabels` / `enrichControlledResource` read it -/
structure EParent where
  /-- label pkg.crossplane.io/package ("" when absent) -/
  label : String
  owners : List POwner
  /-- `spec.commonLabels`; `none` = the nil map -/
  common : Option (List (String × String))
  deriving DecidableEq, Repr

/-- `GetPackageOwnerReference`: the first owner reference whose NAME is the label's value -/
def pkgOwner (p : EParent) : Option POwner := p.owners.find? (fun r => r.name = p.label)

/-- `strings.ToLower` on ASCII (kinds are Go identifiers) -/
def lowerS (s : String) : String := String.ofList (s.toList.map Char.toLower)

/-- `fmt.Sprintf("crossplane-%s-%s", strings.ToLower(pkgRef.Kind), pkgRef.Name)` -/
def webhookName (q : POwner) : String := "crossplane-" ++ lowerS q.kind ++ "-" ++ q.name

/-- `servicePort` (runtime.go) -/
def servicePort : Nat := 9443

/-- `WebhookConverter` (apiextensions/v1) -/
def webhookStrategy : String := "Webhook"

/-- the five statements that fill a client config:
`CABundle = cert; if Service == nil { Service = &ServiceReference{} }; Service.Name = label;
Service.Namespace = ns; Service.Port = ptr.To(servicePort)` -/
def enrichCC (ns label cert : String) (cc : CC) : CC :=
  let svc := cc.service.getD ⟨"", "", none, none⟩
  { cc with caBundle := cert, service := some { svc with name := label, ns := ns, port := some servicePort } }

/-- `for i := range conf.Webhooks { … }` -/
def enrichHooks (ns label cert : String) (hs : List Hook) : List Hook :=
  hs.map fun h => { h with cc := enrichCC ns label cert h.cc }

/-- `conf.SetName(…)` guarded by `GetPackageOwnerReference(parent)` -/
def enrichName (p : EParent) (name : String) : String :=
  match pkgOwner p with
  | some q => webhookName q
  | none => name

/-- the `*extv1.CustomResourceDefinition` case, for a CRD that has a `spec.conversion` -/
def enrichConv (ns label cert : String) (c : Conv) : Except Err Conv :=
  if c.strategy = webhookStrategy then
    if cert = "" then .error .other      -- errConversionWithNoWebhookCA
    else
      let w := c.webhook.getD ⟨none, []⟩
      let cc := w.cc.getD ⟨none, none, ""⟩
      .ok { c with webhook := some { w with cc := some (enrichCC ns label cert cc) } }
  else .ok c

/-- `APIEstablisher.enrichControlledResource(res, webhookTLSCert, parent)`; `ns` = `e.namespace` -/
def enrich (ns cert : String) (p : EParent) (o : PObj) : Except Err PObj :=
  match o.shape with
  | .validating hs =>
    if cert = "" then .ok o
    else .ok { o with name := enrichName p o.name, shape := .validating (enrichHooks ns p.label cert hs) }
  | .mutating hs =>
    if cert = "" then .ok o
    else .ok { o with name := enrichName p o.name, shape := .mutating (enrichHooks ns p.label cert hs) }
  | .crd (some c) =>
    match enrichConv ns p.label cert c with
    | .error e => .error e
    | .ok c' => .ok { o with shape := .crd (some c') }
  | .crd none => .ok o
  | .other => .ok o

/-- `labels[key] = value` on an association list with unique keys -/
def setLabel : List (String × String) → String → String → List (String × String)
  | [], k, v => [(k, v)]
  | (k', v') :: t, k, v => if k' = k then (k, v) :: t else (k', v') :: setLabel t k v

/-- `labels[key]` -/
def getLabel : List (String × String) → String → Option String
  | [], _ => none
  | (a, b) :: t, k => if a = k then some b else getLabel t k

/-- `addLabels` for one object: the parent's common labels win over the object's own; an object
without labels gets the parent's map as it is (nil stays nil) -/
def addLabels (common : Option (List (String × String))) (labels : Option (List (String × String))) :
    Option (List (String × String)) :=
  match labels with
  | some l => some ((common.getD []).foldl (fun acc kv => setLabel acc kv.1 kv.2) l)
  | none => common

/-- the certificate `validate` hands to `enrichControlledResource`: the secret's `tls.crt` (`crt`,
not empty: `getWebhookTLSCert` refuses an empty one) for a parent with a runtime whose secret is in
place, nothing otherwise -/
def certOf (t : Tls) (crt : String) : String :=
  match t with
  | .present => crt
  | _ => ""

/-- `addLabels`, then — only for a controlling parent — `enrichControlledResource` with
certificate `cert` -/
def prepareC (ns cert : String) (control : Bool) (p : EParent) (o : PObj) : Except Err PObj :=
  let o1 := { o with labels := addLabels p.common o.labels }
  if control then enrich ns cert p o1 else .ok o1

/-- what the parser's object is when `validate` reads the cluster, for a parent whose webhook
TLS secret is in state `t` (`getWebhookTLSCert` succeeded) -/
def prepare (ns crt : String) (t : Tls) (control : Bool) (p : EParent) (o : PObj) : Except Err PObj :=
  prepareC ns (certOf t crt) control p o

/-- the abstract flag `Desired.needsCA` of Model/C16.lean, read off the structured object -/
def needsCAOf (o : PObj) : Bool :=
  match o.shape with
  | .crd (some c) => c.strategy == webhookStrategy
  | _ => false

/-! ### the structured object inside the API-level model -/

/-- the revision as `addLabels` / `enrichControlledResource` read it, for the `Parent` of
Model/C16.lean, given the kinds of its owner references and its `spec.commonLabels` -/
def eparentOf (p : Parent) (kind : PRef → String) (common : Option (List (String × String))) : EParent :=
  ⟨p.label, p.owners.map fun r => ⟨kind r, r.name⟩, common⟩

/-- the abstract package object of Model/C16.lean for a structured one: key = kind/name, content
through an arbitrary encoding `enc` of everything but the owner references -/
def desiredOfP (enc : PObj → Nat) (kind : String) (o : PObj) (needs : Bool) : Desired :=
  ⟨kind ++ "/" ++ o.name, enc o, needs⟩

/-- one goroutine of `validate` on a STRUCTURED package object, statement by statement:
(`addLabels` has run at the start of `Establish`;) a controlling parent calls
`enrichControlledResource`, whose error ends the goroutine before any API call; then the Get,
the dry-run create / update of `validateGo` with the object as it was rewritten — under the NAME
it was given. `validateOneP_refines` (Props): this is `validateOne` of Model/C16.lean. -/
def validateOneP (rejects : Obj → Bool) (fault : Fault) (ns crt : String) (enc : PObj → Nat) (kind : String)
    (p : Parent) (ep : EParent) (control : Bool) (s : Store) (i : Nat) (o : PObj) : Store × R CD :=
  match prepare ns crt p.tls control ep o with
  | .error _ => (s, .err .other)
  | .ok o' => validateGo rejects fault p control s i (desiredOfP enc kind o' false)

/-! ### the frame: what `enrichControlledResource` may write -/

/-- a client config with every field the function writes blanked out -/
def CC.frame (cc : CC) : CC :=
  { url := cc.url, caBundle := "",
    service := some { name := "", ns := "", port := none, path := cc.service.bind (·.path) } }

def Hook.frame (h : Hook) : Hook := { h with cc := h.cc.frame }

/-- a conversion with every field the function writes blanked out; when the strategy is not
`Webhook` nothing may be written -/
def Conv.frame (c : Conv) : Conv :=
  if c.strategy = webhookStrategy then
    { c with webhook := some { reviewVersions := (c.webhook.map (·.reviewVersions)).getD [],
                               cc := some ((c.webhook.bind (·.cc)).getD ⟨none, none, ""⟩).frame } }
  else c

/-- the object with every field `enrichControlledResource` may write blanked out: the NAME and
the client configs of a webhook configuration, the client config of a CRD's webhook conversion.
`enrich_frame`: the function changes nothing else. -/
def PObj.frame (o : PObj) : PObj :=
  match o.shape with
  | .validating hs => { o with name := "", shape := .validating (hs.map Hook.frame) }
  | .mutating hs => { o with name := "", shape := .mutating (hs.map Hook.frame) }
  | .crd (some c) => { o with shape := .crd (some c.frame) }
  | .crd none => o
  | .other => o

/-- the client config `enrichCC` produces, as a predicate -/
def CC.filled (ns label cert : String) (cc : CC) : Bool :=
  cc.caBundle == cert &&
  match cc.service with
  | some s => s.name == label && s.ns == ns && s.port == some servicePort
  | none => false

/-- field writes and type-switch cases of `enrichControlledResource` the model mirrors, in source
order (regenerated: `Xp.Gen.c16AssignEnrich`) -/
def assignEnrich : List String :=
  ["case *admv1.ValidatingWebhookConfiguration",        -- `Shape.validating`
   "conf.Webhooks.ClientConfig.CABundle",               -- `enrichCC`: caBundle := cert
   "conf.Webhooks.ClientConfig.Service",                --   service.getD {}
   "conf.Webhooks.ClientConfig.Service.Name",           --   name := label
   "conf.Webhooks.ClientConfig.Service.Namespace",      --   ns := ns
   "conf.Webhooks.ClientConfig.Service.Port",           --   port := 9443
   "case *admv1.MutatingWebhookConfiguration",          -- `Shape.mutating`
   "conf.Webhooks.ClientConfig.CABundle",
   "conf.Webhooks.ClientConfig.Service",
   "conf.Webhooks.ClientConfig.Service.Name",
   "conf.Webhooks.ClientConfig.Service.Namespace",
   "conf.Webhooks.ClientConfig.Service.Port",
   "case *extv1.CustomResourceDefinition",              -- `Shape.crd`
   "conf.Spec.Conversion.Webhook",                      -- `enrichConv`: webhook.getD {}
   "conf.Spec.Conversion.Webhook.ClientConfig",         --   cc.getD {}
   "conf.Spec.Conversion.Webhook.ClientConfig.Service", --   `enrichCC` …
   "conf.Spec.Conversion.Webhook.ClientConfig.CABundle",
   "conf.Spec.Conversion.Webhook.ClientConfig.Service.Name",
   "conf.Spec.Conversion.Webhook.ClientConfig.Service.Namespace",
   "conf.Spec.Conversion.Webhook.ClientConfig.Service.Port"]

/-- calls and returns of `enrichControlledResource` (regenerated: `Xp.Gen.c16SkelEnrich`) -/
def skelEnrich : List String :=
  ["return",                     -- validating, no certificate: `.ok o`
   "GetPackageOwnerReference",   --   `enrichName`: `pkgOwner p`
   "conf.SetName",               --   `webhookName q`
   "parent.GetLabels",           --   `p.label` (service name)
   "return",                     -- mutating, no certificate
   "GetPackageOwnerReference",
   "conf.SetName",
   "parent.GetLabels",
   "return",                     -- CRD, strategy Webhook, no certificate: `.error .other`
   "parent.GetLabels",           --   `p.label`
   "return"]                     -- `.ok`

end Xp.C16

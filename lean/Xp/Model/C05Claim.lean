import Xp.Model.C05
/-
C05 model, claim side in full (claim/reconciler.go Reconcile with either syncer): which claim
conditions one reconcile stores, given what the XR looked like when the reconcile started, what
the informer cache served, what the XR controller wrote in between, which API call failed how.
The XR is an object of a small world so that sequences of reconciles of several claims by one
long-lived reconciler can be run.
-/
namespace Xp.C05

structure Ref where
  apiVersion : String
  kind : String
  ns : String
  name : String
  deriving DecidableEq, Repr

structure XRView where
  conds : List Cond
  claimTypes : List String
  deriving Repr

structure XRObj where
  present : Bool
  ref : Option Ref        -- spec.claimRef
  view : XRView
  deriving Repr

inductive CPoint where
  | getClaim | getXR | sync | propagate | status
  deriving DecidableEq, Repr

structure ClaimCall where
  ssa : Bool
  self : Ref              -- the reference of the claim being reconciled
  paused : Bool
  /-- the informer cache serves an older version of the XR to the reconciler's read -/
  stale : Bool
  /-- the XR controller's write landing between that read and the syncer's first call -/
  flip : Option XRView
  fault : Option (CPoint × EC)
  deriving Repr

def emptyView : XRView := ⟨[], []⟩

/-- the reconciler's own read of the XR returns something (the cache may miss an existing XR:
a NotFound answer is treated as "does not exist") -/
def ClaimCall.sees (c : ClaimCall) (xr : XRObj) : Bool :=
  xr.present && !(c.fault == some (.getXR, .notFound))

/-- the XR read names another claim: cmp.Equal(cm.GetReference(), ref) on all four components -/
def ClaimCall.foreign (c : ClaimCall) (xr : XRObj) : Bool :=
  match xr.ref with
  | some r => r != c.self
  | none => false

/-- the XR as stored when the syncer's write reaches the API server -/
def ClaimCall.atSync (c : ClaimCall) (xr : XRObj) : XRObj :=
  match c.flip with
  | some v => if xr.present then { xr with view := v } else xr
  | none => xr

/-- the client-side syncer's merge patch carries the resourceVersion of the version the
reconciler read: it conflicts when that is no longer the stored one -/
def ClaimCall.csaConflict (c : ClaimCall) (xr : XRObj) : Bool :=
  !c.ssa && c.sees xr && (c.stale || c.flip.isSome)

/-- Sync is reached -/
def ClaimCall.reachesSync (c : ClaimCall) (xr : XRObj) : Bool :=
  !c.paused &&
  (match c.fault with
   | some (.getClaim, _) => false
   | some (.getXR, e) => e == .notFound
   | _ => true) &&
  !(c.sees xr && c.foreign xr)

/-- the error the syncer's first API call is answered with. The client-side syncer's first call
is the applicator's Get: a NotFound answer is not a failure there - the applicator goes on to
Create, which succeeds iff the XR really does not exist (else AlreadyExists). -/
def ClaimCall.syncFault (c : ClaimCall) (xr : XRObj) : Option EC :=
  match c.fault with
  | some (.sync, e) => if !c.ssa && e == EC.notFound && !xr.present then none else some e
  | _ => none

/-- Sync's write of the XR takes effect -/
def ClaimCall.syncs (c : ClaimCall) (xr : XRObj) : Bool :=
  c.reachesSync xr && (c.syncFault xr).isNone && !c.csaConflict xr

/-- the XR object after the reconcile -/
def claimCallXR (xr : XRObj) (c : ClaimCall) : XRObj :=
  let x := if c.reachesSync xr then c.atSync xr else xr
  if c.syncs xr then
    -- the syncer writes spec.claimRef := this claim. (It gets here with an XR that names ANOTHER
    -- claim only when the reconciler's own read missed the XR - the re-binding that C06 is about.)
    { present := true, ref := some c.self, view := if x.present then x.view else emptyView }
  else x

/-- the XR view a reconcile's verdict is based on: what is stored when the syncer's write of the
XR returns - after anything the XR controller wrote in between, never what a lagging cache served;
an XR the syncer has just created has no conditions -/
def ClaimCall.decides (c : ClaimCall) (xr : XRObj) : XRView := if xr.present then (c.atSync xr).view else emptyView

/-- the exits of claim Reconcile that matter for the conditions -/
inductive CPath where
  | nothing          -- no status update attempted: the claim could not be read, or Sync hit a conflict
  | paused
  | failed           -- ReconcileError: XR read failed, XR bound to another claim, Sync failed
  | waiting
  | available
  | propagateFailed  -- XR ready, but its connection details could not be propagated
  deriving DecidableEq, Repr

def claimPath (xr : XRObj) (c : ClaimCall) : CPath :=
  match c.fault with
  | some (.getClaim, _) => .nothing
  | f =>
    if c.paused then .paused else
    if (match f with | some (.getXR, e) => e != EC.notFound | _ => false) then .failed else
    if c.sees xr && c.foreign xr then .failed else
    match c.syncFault xr with
    | some e => if e == EC.conflict then .nothing else .failed
    | none =>
      if c.csaConflict xr then .nothing else
      if statusOf (c.decides xr).conds "Ready" = some "True" then
        (match f with
         | some (.propagate, _) => .propagateFailed
         | _ => .available)
      else .waiting

/-- Synced=True, then the XR's conditions of the types listed in its status.claimConditionTypes -/
def copied (old : List Cond) (v : XRView) : List Cond :=
  v.claimTypes.foldl (fun acc t => setCond acc (getCond v.conds t)) (setCond old reconcileSuccess)

def pathConds (old : List Cond) (v : XRView) : CPath → Option (List Cond)
  | .nothing => none
  | .paused => some (setCond old reconcilePaused)
  | .failed => some (setCond old reconcileError)
  | .waiting => some (setCond (copied old v) ⟨"Ready", "False", "Waiting"⟩)
  | .available => some (setCond (copied old v) available)
  | .propagateFailed => some (setCond (copied old v) reconcileError)

/-- the claim conditions stored by the reconcile's own status update; none = it did not take effect -/
def claimCall (old : List Cond) (xr : XRObj) (c : ClaimCall) : Option (List Cond) :=
  match c.fault with
  | some (.status, _) => none
  | _ => pathConds old (c.decides xr) (claimPath xr c)

/-! ### sequences -/

structure CWorld where
  claims : List (List Cond)
  xrs : List XRObj
  deriving Repr

structure CStep where
  claim : Nat
  xr : Nat
  /-- the XR controller's status write landing before the reconcile -/
  set : Option XRView
  call : ClaimCall
  deriving Repr

def applySet (x : XRObj) (s : Option XRView) : XRObj :=
  match s with
  | some v => if x.present then { x with view := v } else x
  | none => x

def cstep (w : CWorld) (s : CStep) : CWorld × Option (List Cond) :=
  match w.claims[s.claim]?, w.xrs[s.xr]? with
  | some old, some x0 =>
    let x := applySet x0 s.set
    -- a lagging cache can only serve something older when a newer version exists
    let call := { s.call with stale := s.call.stale && s.set.isSome && x0.present }
    let r := claimCall old x call
    let x' := claimCallXR x call
    ({ claims := (match r with | some cs => w.claims.set s.claim cs | none => w.claims), xrs := w.xrs.set s.xr x' }, r)
  | _, _ => (w, none)

def ctrace : CWorld → List CStep → List (Option (List Cond) × Bool)
  | _, [] => []
  | w, s :: ss =>
    let r := cstep w s
    (r.1.claims[s.claim]?, r.2.isSome) :: ctrace r.1 ss

end Xp.C05

import Xp.Model.C05
import Xp.Gen.C05Skel
/-
C05 model, claim side in full (claim/reconciler.go Reconcile with either syncer): which claim
conditions one reconcile stores, given what the XR looked like when the reconcile started, what
the informer cache served, what the XR controller wrote in between, which API call failed how.
The XR is an object of a small world so that sequences of reconciles of several claims by one
long-lived reconciler can be run.
-/
namespace Xp.C05

structure Ref where
  apiVersion : String
  kind : String
  ns : String
  name : String
  deriving DecidableEq, Repr

structure XRView where
  conds : List Cond
  claimTypes : List String
  deriving Repr

structure XRObj where
  present : Bool
  ref : Option Ref        -- spec.claimRef
  view : XRView
  deriving Repr

inductive CPoint where
  | getClaim | getXR | sync | propagate | status
  deriving DecidableEq, Repr

structure ClaimCall where
  ssa : Bool
  self : Ref              -- the reference of the claim being reconciled
  paused : Bool
  /-- the informer cache serves an older version of the XR to the reconciler's read -/
  stale : Bool
  /-- the XR controller's write landing between that read and the syncer's first call -/
  flip : Option XRView
  fault : Option (CPoint × EC)
  deriving Repr

def emptyView : XRView := ⟨[], []⟩

/-- the reconciler's own read of the XR returns something (the cache may miss an existing XR:
a NotFound answer is treated as "does not exist") -/
def ClaimCall.sees (c : ClaimCall) (xr : XRObj) : Bool :=
  xr.present && !(c.fault == some (.getXR, .notFound))

/-- the XR read names another claim: cmp.Equal(cm.GetReference(), ref) on all four components -/
def ClaimCall.foreign (c : ClaimCall) (xr : XRObj) : Bool :=
  match xr.ref with
  | some r => r != c.self
  | none => false

/-- the XR as stored when the syncer's write reaches the API server -/
def ClaimCall.atSync (c : ClaimCall) (xr : XRObj) : XRObj :=
  match c.flip with
  | some v => if xr.present then { xr with view := v } else xr
  | none => xr

/-- the client-side syncer's merge patch carries the resourceVersion of the version the
reconciler read: it conflicts when that is no longer the stored one -/
def ClaimCall.csaConflict (c : ClaimCall) (xr : XRObj) : Bool :=
  !c.ssa && c.sees xr && (c.stale || c.flip.isSome)

/-- Sync is reached -/
def ClaimCall.reachesSync (c : ClaimCall) (xr : XRObj) : Bool :=
  !c.paused &&
  (match c.fault with
   | some (.getClaim, _) => false
   | some (.getXR, e) => e == .notFound
   | _ => true) &&
  !(c.sees xr && c.foreign xr)

/-- the error the syncer's first API call is answered with. The client-side syncer's first call
is the applicator's Get: a NotFound answer is not a failure there - the applicator goes on to
Create, which succeeds iff the XR really does not exist (else AlreadyExists). -/
def ClaimCall.syncFault (c : ClaimCall) (xr : XRObj) : Option EC :=
  match c.fault with
  | some (.sync, e) => if !c.ssa && e == EC.notFound && !xr.present then none else some e
  | _ => none

/-- Sync's write of the XR takes effect -/
def ClaimCall.syncs (c : ClaimCall) (xr : XRObj) : Bool :=
  c.reachesSync xr && (c.syncFault xr).isNone && !c.csaConflict xr

/-- the XR object after the reconcile -/
def claimCallXR (xr : XRObj) (c : ClaimCall) : XRObj :=
  let x := if c.reachesSync xr then c.atSync xr else xr
  if c.syncs xr then
    -- the syncer writes spec.claimRef := this claim. (It gets here with an XR that names ANOTHER
    -- claim only when the reconciler's own read missed the XR - the re-binding that C06 is about.)
    { present := true, ref := some c.self, view := if x.present then x.view else emptyView }
  else x

/-- the XR view a reconcile's verdict is based on: what is stored when the syncer's write of the
XR returns - after anything the XR controller wrote in between, never what a lagging cache served;
an XR the syncer has just created has no conditions -/
def ClaimCall.decides (c : ClaimCall) (xr : XRObj) : XRView := if xr.present then (c.atSync xr).view else emptyView

/-- the exits of claim Reconcile that matter for the conditions -/
inductive CPath where
  | nothing          -- no status update attempted: the claim could not be read, or Sync hit a conflict
  | paused
  | failed           -- ReconcileError: XR read failed, XR bound to another claim, Sync failed
  | waiting
  | available
  | propagateFailed  -- XR ready, but its connection details could not be propagated
  deriving DecidableEq, Repr

def claimPath (xr : XRObj) (c : ClaimCall) : CPath :=
  match c.fault with
  | some (.getClaim, _) => .nothing
  | f =>
    if c.paused then .paused else
    if (match f with | some (.getXR, e) => e != EC.notFound | _ => false) then .failed else
    if c.sees xr && c.foreign xr then .failed else
    match c.syncFault xr with
    | some e => if e == EC.conflict then .nothing else .failed
    | none =>
      if c.csaConflict xr then .nothing else
      if statusOf (c.decides xr).conds "Ready" = some "True" then
        (match f with
         | some (.propagate, _) => .propagateFailed
         | _ => .available)
      else .waiting

/-- Synced=True, then the XR's conditions of the types listed in its status.claimConditionTypes -/
def copied (old : List Cond) (v : XRView) : List Cond :=
  v.claimTypes.foldl (fun acc t => setCond acc (getCond v.conds t)) (setCond old reconcileSuccess)

def pathConds (old : List Cond) (v : XRView) : CPath → Option (List Cond)
  | .nothing => none
  | .paused => some (setCond old reconcilePaused)
  | .failed => some (setCond old reconcileError)
  | .waiting => some (setCond (copied old v) ⟨"Ready", "False", "Waiting"⟩)
  | .available => some (setCond (copied old v) available)
  | .propagateFailed => some (setCond (copied old v) reconcileError)

/-- the claim conditions stored by the reconcile's own status update; none = it did not take effect -/
def claimCall (old : List Cond) (xr : XRObj) (c : ClaimCall) : Option (List Cond) :=
  match c.fault with
  | some (.status, _) => none
  | _ => pathConds old (c.decides xr) (claimPath xr c)

/-! ### sequences -/

structure CWorld where
  claims : List (List Cond)
  xrs : List XRObj
  deriving Repr

structure CStep where
  claim : Nat
  xr : Nat
  /-- the XR controller's status write landing before the reconcile -/
  set : Option XRView
  call : ClaimCall
  deriving Repr

def applySet (x : XRObj) (s : Option XRView) : XRObj :=
  match s with
  | some v => if x.present then { x with view := v } else x
  | none => x

def cstep (w : CWorld) (s : CStep) : CWorld × Option (List Cond) :=
  match w.claims[s.claim]?, w.xrs[s.xr]? with
  | some old, some x0 =>
    let x := applySet x0 s.set
    -- a lagging cache can only serve something older when a newer version exists
    let call := { s.call with stale := s.call.stale && s.set.isSome && x0.present }
    let r := claimCall old x call
    let x' := claimCallXR x call
    ({ claims := (match r with | some cs => w.claims.set s.claim cs | none => w.claims), xrs := w.xrs.set s.xr x' }, r)
  | _, _ => (w, none)

def ctrace : CWorld → List CStep → List (Option (List Cond) × Bool)
  | _, [] => []
  | w, s :: ss =>
    let r := cstep w s
    (r.1.claims[s.claim]?, r.2.isSome) :: ctrace r.1 ss

/-! ### the deletion branch of the claim Reconcile (meta.WasDeleted(cm))

A claim with a deletion timestamp: Ready := Deleting, the bound XR is deleted (background policy),
the propagated connection secret is unpublished, the claim finalizer is removed, Synced :=
ReconcileSuccess. As in the XR reconciler, RemoveFinalizer's Update answers with the stored claim,
which replaces the claim held in memory, status included. -/

inductive CDPhase where
  | deleteXR | unpublish | removeFinalizer
  deriving DecidableEq, Repr

structure CDelCall where
  /-- the first Get (of the claim) fails -/
  getFails : Bool
  paused : Bool
  /-- the read of the XR fails with this class (NotFound = "does not exist") -/
  xrGet : Option EC
  fault : Option (CDPhase × EC)
  lost : Bool
  deriving Repr

/-- a claim being deleted and its XR -/
structure CDelWorld where
  conds : List Cond
  /-- the claim carries the claim finalizer / another one -/
  fin : Bool
  held : Bool
  /-- the bound XR exists (a finalizer keeps it after its deletion was requested) -/
  xr : Bool
  deriving Repr

/-- the read of the XR fails (NotFound is "does not exist", not a failure) -/
def CDelCall.xrReadFails (c : CDelCall) (w : CDelWorld) : Bool :=
  w.xr && (match c.xrGet with | some e => e != EC.notFound | none => false)

/-- the XR is read and found -/
def CDelCall.seesXR (c : CDelCall) (w : CDelWorld) : Bool := w.xr && c.xrGet.isNone

/-- REGENERATED FROM THE SOURCE: does the claim `Reconcile` set Deleting a second time (after
RemoveFinalizer)? In the tree as it is it does not. -/
def claimReassertsDeleting : Bool := decide (Xp.Gen.c05SkelClaimReconcile.count "xpv1.Deleting" ≥ 2)

/-- the end of the branch once the finalizer is (being) removed: with the finalizer present the
Update replaces the claim in memory by the stored one - unless Deleting is set again (`re`) -/
def claimDelDone (re : Bool) (w : CDelWorld) : List Cond :=
  if w.fin && !re then setCond w.conds reconcileSuccess
  else setCond (setCond w.conds deleting) reconcileSuccess

/-- the claim conditions the deletion branch stores; none = no status write took effect.
`re` = Deleting is set again after RemoveFinalizer (the code as it is: false). -/
def claimDeleted (re : Bool) (w : CDelWorld) (c : CDelCall) : Option (List Cond) :=
  if c.getFails || c.lost then none else
  if c.paused then some (setCond w.conds reconcilePaused) else
  if c.xrReadFails w then some (setCond w.conds reconcileError) else
  let c1 := setCond w.conds deleting
  match c.fault with
  | some (.deleteXR, e) =>
    -- Delete is issued only for an XR that was read; a NotFound answer is ignored
    if c.seesXR w && e != EC.notFound then some (setCond c1 reconcileError) else some (claimDelDone re w)
  | some (.unpublish, _) => some (setCond c1 reconcileError)
  | some (.removeFinalizer, e) =>
    -- no conflict test here: any class but the ignored NotFound is a ReconcileError; without the
    -- finalizer no Update is issued
    if !w.fin || e == EC.notFound then some (setCond c1 reconcileSuccess) else some (setCond c1 reconcileError)
  | none => some (claimDelDone re w)

/-- RemoveFinalizer's Update took effect -/
def CDelCall.removes (c : CDelCall) (w : CDelWorld) : Bool :=
  w.fin && !c.getFails && !c.paused && !c.xrReadFails w &&
  (match c.fault with
   | none => true
   | some (.deleteXR, e) => !(c.seesXR w && e != EC.notFound)
   | _ => false)

/-- one reconcile: the claim afterwards (none = gone with its last finalizer) and whether the
reconcile's status update took effect -/
def cdelStep (re : Bool) (w : Option CDelWorld) (c : CDelCall) : Option CDelWorld × Bool :=
  match w with
  | none => (none, false)
  | some w =>
    if c.removes w then
      if w.held then
        (match claimDeleted re w c with
         | some cs => (some { w with conds := cs, fin := false }, true)
         | none => (some { w with fin := false }, false))
      else (none, false)
    else
      match claimDeleted re w c with
      | some cs => (some { w with conds := cs }, true)
      | none => (some w, false)

def cdelTrace (re : Bool) : Option CDelWorld → List CDelCall → List (Option (List Cond) × Bool)
  | _, [] => []
  | w, c :: cs =>
    let r := cdelStep re w c
    (r.1.map (·.conds), r.2) :: cdelTrace re r.1 cs

/-! ### declared call skeleton of the claim `Reconciler.Reconcile`, condition-centred
(`Xp.Gen.c05SkelClaimReconcile` is regenerated from the source; C06 ties its API calls) -/

def skelClaimErrTail : List String := ["cm.SetConditions", "xpv1.ReconcileError", "client.Status.Update"]

def skelClaimReconcile : List String :=
  ["client.Get", "resource.IgnoreNotFound",                    -- CPoint.getClaim: nothing written
   "meta.IsPaused", "cm.SetConditions", "xpv1.ReconcilePaused", "client.Status.Update",   -- CPath.paused
   "client.Get", "resource.IgnoreNotFound"] ++ skelClaimErrTail ++                        -- CPoint.getXR: NotFound = "does not exist" (sees), else CPath.failed
  ["meta.WasCreated", "cmp.Equal"] ++ skelClaimErrTail ++     -- ClaimCall.foreign: all four components of the reference
  ["managedFields.Upgrade", "kerrors.IsConflict"] ++ skelClaimErrTail ++                   -- not modelled: the upgrader is the no-op one in both syncer set-ups of the harness
  -- the deletion branch: claimDeleted (the foreground-deletion wait - "meta.WasDeleted"(xr), the first
  -- status update - is not modelled: the claims of the harness use the background policy)
  ["meta.WasDeleted", "cm.SetConditions", "xpv1.Deleting", "meta.WasCreated", "meta.WasDeleted", "client.Status.Update",
   "client.Delete", "resource.IgnoreNotFound"] ++ skelClaimErrTail ++                      -- CDPhase.deleteXR (NotFound ignored)
  ["claim.UnpublishConnection"] ++ skelClaimErrTail ++                                     -- CDPhase.unpublish
  ["claim.RemoveFinalizer"] ++ skelClaimErrTail ++                                         -- CDPhase.removeFinalizer (no conflict test)
  (if claimReassertsDeleting then ["cm.SetConditions", "xpv1.Deleting", "xpv1.ReconcileSuccess", "client.Status.Update"]
   else ["cm.SetConditions", "xpv1.ReconcileSuccess", "client.Status.Update"]) ++
  ["claim.AddFinalizer", "kerrors.IsConflict"] ++ skelClaimErrTail ++                      -- not modelled: the claims of the harness carry the finalizer (no call is issued)
  ["composite.Sync", "kerrors.IsConflict"] ++ skelClaimErrTail ++                          -- CPoint.sync: syncFault / csaConflict => CPath.nothing | failed
  ["cmp.Equal", "cmp.Equal",                                   -- the "bound" event only
   "cm.SetConditions", "xpv1.ReconcileSuccess",                -- copied: setCond old reconcileSuccess
   "xr.GetClaimConditionTypes", "xr.GetCondition", "cm.SetConditions",   -- copied: the foldl over v.claimTypes
   "resource.IsConditionTrue", "xr.GetCondition",              -- claimPath: statusOf (decides xr).conds "Ready" = some "True"
   "cm.SetConditions", "Waiting", "client.Status.Update",      -- CPath.waiting
   "composite.PropagateConnection"] ++ skelClaimErrTail ++    -- CPoint.propagate: CPath.propagateFailed
  ["cm.SetConditions", "xpv1.Available", "client.Status.Update"]   -- CPath.available; CPoint.status drops any of the updates

end Xp.C05

import Xp.Base.Prog
import Xp.Model.C01
import Xp.Model.C04
import Xp.Gen.C03Skel
/-
C03 model sections of their own (the reconcile as a whole is Xp/Model/C01.lean, the pure
pipeline interpreter Xp/Model/C04.lean; both are shared and used read-only here):

 A. `ExistingExtraResourcesFetcher.Fetch` and `FetchingFunctionRunner.RunFunction`
    (extra_resources.go) written call by call as a `Prog` over the API server's read interface,
    so that every Get / List of an extra resource is a call that a fault plan can fail. The
    requirements test (`reflect.DeepEqual(newRequirements, requirements)`) is structural
    equality on `Option Reqs`: `none` is the nil `*Requirements` the loop starts with, which is
    NOT equal to a present-but-empty requirements message.
 B. `DeletingComposedResourceGarbageCollector.GarbageCollectComposedResources`
    (composition_functions.go) with the controller check the C01 model leaves out, and the
    function composer built on it (`composeFnFull`).
 C. The declared call skeletons of the Go functions mirrored here and in the parts of
    Xp/Model/C01.lean that C03's theorems are about; `Xp/Props/C03.lean` proves each equal to
    the skeleton regenerated from the source tree (`Xp.Gen.c03Skel*`).
-/
namespace Xp.C03
open Xp.C04 (ClusterObj Request Response hasFatal Extra)

/-! ## A. extra resources: `Fetch` and `RunFunction` -/

/-- the `match` oneof of a `ResourceSelector` -/
inductive Match where
  | name (n : String)                       -- ResourceSelector_MatchName
  | labels (ls : List (String × String))    -- ResourceSelector_MatchLabels
  | unset                                   -- oneof not set (a newer / malformed selector)
  deriving DecidableEq, Repr, Inhabited

structure Selector where
  kind : String      -- apiVersion + kind
  m : Match
  deriving DecidableEq, Repr, Inhabited

/-- `requirements.extra_resources`: a Go map, here sorted by key; a `none` value is a nil
`*ResourceSelector` entry -/
abbrev Reqs := List (String × Option Selector)

inductive FReq where
  | getExtra (kind name : String)                              -- client.Get (cluster scoped)
  | listExtra (kind : String) (labels : List (String × String)) -- client.List + MatchingLabels
  deriving DecidableEq, Repr, Inhabited

inductive FResp where
  | found (name : String)
  | notFound
  | items (names : List String)
  | err
  deriving DecidableEq, Repr, Inhabited

/-- the API server's answer to the two reads (the cluster is never written by them) -/
def fexec (cl : List ClusterObj) : FReq → List ClusterObj × FResp
  | .getExtra k n => (cl, if cl.any (fun o => o.kind = k ∧ o.name = n) then .found n else .notFound)
  | .listExtra k ls =>
    (cl, .items ((cl.filter fun o => o.kind = k ∧ ls.all (fun l => o.labels.contains l)).map (·.name)))

def fsem : Sem (List ClusterObj) FReq FResp where
  exec := fexec
  errResp := fun _ _ => .err

/-- value handed to the function for one requirement: `none` = nil `*Resources` (by-name
selector, object not found) -/
abbrev Fetched := Option (List String)

/-- ExistingExtraResourcesFetcher.Fetch, continuation style; the continuation receives `none`
when Fetch returns an error. -/
def fetchP {α : Type} (sel : Option Selector) (k : Option Fetched → Prog FReq FResp α) : Prog FReq FResp α :=
  match sel with
  | none => k none                                   -- errNilResourceSelector
  | some ⟨kind, .name n⟩ => .call (.getExtra kind n) fun
    | .found nm => k (some (some [nm]))
    | .notFound => k (some none)                     -- "return nil, nil"
    | _ => k none                                    -- errGetExtraResourceByName
  | some ⟨kind, .labels ls⟩ => .call (.listExtra kind ls) fun
    | .items ns => k (some (some ns))
    | _ => k none                                    -- errListExtraResources
  | some ⟨_, .unset⟩ => k none                       -- errUnknownResourceSelector

/-- what a successful Fetch returns, as a function of the cluster -/
def fetchVal (cl : List ClusterObj) : Selector → Fetched
  | ⟨kind, .name n⟩ => if cl.any (fun o => o.kind = kind ∧ o.name = n) then some [n] else none
  | ⟨kind, .labels ls⟩ => some ((cl.filter fun o => o.kind = kind ∧ ls.all (fun l => o.labels.contains l)).map (·.name))
  | ⟨_, .unset⟩ => none

/-- selectors Fetch has an answer for (the others make it return an error without any call) -/
def fetchable : Option Selector → Bool
  | some ⟨_, .name _⟩ | some ⟨_, .labels _⟩ => true
  | _ => false

/-- the loop `for name, selector := range newRequirements.GetExtraResources()`; the continuation
receives `none` as soon as one Fetch fails ("fetching resources for %s") -/
def fetchAll {α : Type} : Reqs → Extra → (Option Extra → Prog FReq FResp α) → Prog FReq FResp α
  | [], acc, k => k (some acc)
  | (name, sel) :: rest, acc, k =>
    fetchP sel fun x => x.elim (k none) fun r => fetchAll rest (acc ++ [(name, r)]) k

/-- the parts of a RunFunctionResponse: `base` as in the C04 model (whose `reqs` field is not
looked at here) and the requirements as RunFunction sees them: `none` = `GetRequirements()`
returned nil -/
structure Rsp where
  base : Response
  reqs : Option Reqs
  deriving Repr, Inhabited

/-- a function: deterministic in its request; `none` = the call returned an error -/
abbrev XFn := Request → Option Rsp

inductive RunResult where
  | ok (rsp : Rsp)
  | err
  deriving Repr, Inhabited

/-- FetchingFunctionRunner.RunFunction. `fuel` = calls still allowed
(MaxRequirementsIterations + 1 initially), `prev` = the requirements of the previous iteration
(`none` initially: `var requirements *fnv1.Requirements`), `order` = Go's map iteration order over
the requirements, `tr` = the requests the function has received so far. -/
def runFunctionP (f : XFn) (order : Reqs → Reqs) :
    Nat → Request → Option Reqs → List Request → Prog FReq FResp (List Request × RunResult)
  | 0, _, _, tr => .ret (tr, .err)                       -- "requirements didn't stabilize"
  | fuel + 1, req, prev, tr =>
    match f req with
    | none => .ret (tr ++ [req], .err)                   -- c.wrapped.RunFunction failed
    | some rsp =>
      if hasFatal rsp.base.results then .ret (tr ++ [req], .ok rsp)    -- "We won't iterate"
      else if rsp.reqs = prev then .ret (tr ++ [req], .ok rsp)         -- reflect.DeepEqual
      else fetchAll (order (rsp.reqs.getD [])) [] fun x =>
        x.elim (.ret (tr ++ [req], .err))            -- a Fetch failed
          fun extra => runFunctionP f order fuel { req with extra := extra, ctx := rsp.base.ctx } rsp.reqs (tr ++ [req])

/-- the top-level call -/
def runFunctionTop (f : XFn) (order : Reqs → Reqs) (req : Request) : Prog FReq FResp (List Request × RunResult) :=
  runFunctionP f order (Xp.Gen.c03MaxRequirementsIterations + 1) req none []

/-- the rounds of one `RunFunction`, as a specification: `Rounds f cl order n req prev rq rsp`
says that starting from request `req` with previous requirements `prev`, after `n` further
rounds — each with a non-fatal answer whose requirements differ from the previous round's and
are all fetched — the function is sent `rq` and answers `rsp`. -/
inductive Rounds (f : XFn) (cl : List ClusterObj) (order : Reqs → Reqs) : Nat → Request → Option Reqs → Request → Option Reqs → Prop where
  | here (req prev) : Rounds f cl order 0 req prev req prev
  | next {n req prev rq pv} (rsp : Rsp) :
      f req = some rsp → hasFatal rsp.base.results = false → rsp.reqs ≠ prev →
      (∀ p ∈ order (rsp.reqs.getD []), fetchable p.2 = true) →
      Rounds f cl order n
        { req with extra := (order (rsp.reqs.getD [])).map (fun p => (p.1, (p.2.map (fetchVal cl)).getD none)),
                   ctx := rsp.base.ctx } rsp.reqs rq pv →
      Rounds f cl order (n + 1) req prev rq pv

/-! ### relation to the pure interpreter of the C04 model -/

def ofSel (s : Xp.C04.Sel) : Selector :=
  if s.name ≠ "" then ⟨s.kind, .name s.name⟩ else ⟨s.kind, .labels s.labels⟩

/-- the C04 model writes "no requirements" as `[]` -/
def ofReqs (l : List (String × Xp.C04.Sel)) : Option Reqs :=
  if l = [] then none else some (l.map fun p => (p.1, some (ofSel p.2)))

def liftFn (f : Xp.C04.Fn) : XFn := fun rq => (f rq).map fun r => ⟨r, ofReqs r.reqs⟩

/-! ## B. the function composer's garbage collector, with its controller check -/
open Xp.C01

/-- DeletingComposedResourceGarbageCollector.GarbageCollectComposedResources on the undesired
observed resources (in Go's map order): a resource controlled by someone else aborts the
collection ("Don't garbage collect composed resources that someone else controls"), else
Update (labels stripped, NotFound ignored) and Delete (NotFound ignored). -/
def gcFnFull (lrv : Nat) : List CObj → P → P
  | [], k => k
  | o :: os, k =>
    if o.ctrl = .other then onError lrv     -- errFmtControllerMismatch
    else
      wcall lrv (.gcUpdate o.kind o.name) fun _ =>
      wcall lrv (.delete o.kind o.name) fun _ =>
      gcFnFull lrv os k

/-- `del := observed \ desired` by resource name (the first loop of the collector) -/
def undesiredOf (obs : Obs) (ds : List Desired) : List CObj :=
  (obs.filter fun p => !(ds.any (·.rname = p.1))).map (·.2)

/-- FunctionComposer.Compose with the collector above (everything else as in `composeFn`) -/
def composeFnFull (lrv : Nat) (refs : List Ref) (out : Obs → FnOut) (ch : Choices) : P :=
  observeFn lrv refs [] fun obs =>
  match out obs with
  | .failed => onError lrv
  | .desired ds =>
    renderFn lrv obs ds ch.fresh [] fun named =>
    gcFnFull lrv (ch.gcOrder (undesiredOf obs ds)) <|
    wcall lrv (.patchRefs ch.ver (refsOf named)) fun _ =>
    applyFn lrv (ch.applyOrder named) true fun synced =>
    .call .statusPatch fun
      | .okRv rv => finish rv synced
      | .conflict => onConflict
      | _ => onErrorO none

/-- no entry is controlled by someone else -/
def NonForeign (obs : Obs) : Prop := ∀ p ∈ obs, p.2.ctrl ≠ .other

/-! ## C. declared call skeletons

One entry per call of the Go function, in source order (`return` = an exit), each with the model
step that mirrors it. `Xp/Props/C03.lean` (`skeleton_*`) proves these equal to the lists
regenerated from the current tree. -/

/-- FetchingFunctionRunner.RunFunction ↔ `runFunctionP` -/
def skelRunFunction : List String :=
  [ "wrapped.RunFunction"                 -- `f req`
  , "return"                              --   `none => (tr ++ [req], .err)`
  , "rsp.GetResults", "rs.GetSeverity"    -- `hasFatal rsp.base.results`
  , "return"                              --   `.ok rsp` without iterating
  , "rsp.GetRequirements"                 -- `rsp.reqs`
  , "reflect.DeepEqual"                   -- `rsp.reqs = prev` (structural; nil ≠ present-but-empty)
  , "return"                              --   `.ok rsp`: the requirements stabilised
  , "newRequirements.GetExtraResources"   -- `order (rsp.reqs.getD [])`
  , "resources.Fetch"                     -- `fetchAll` → `fetchP`
  , "return", "errors.Wrapf"              --   `none => (tr ++ [req], .err)`
  , "rsp.GetContext"                      -- `ctx := rsp.base.ctx`
  , "return", "errors.Errorf" ]           -- fuel used up: `(tr, .err)`

/-- ExistingExtraResourcesFetcher.Fetch ↔ `fetchP` -/
def skelFetch : List String :=
  [ "return", "errors.New"                -- nil selector: `none => k none`
  , "rs.GetMatch"                         -- `match sel.m`
  , "rs.GetMatchName", "client.Get"       -- `.getExtra kind n`
  , "kerrors.IsNotFound", "return"        --   `.notFound => k (some none)`
  , "return"                              --   other error: `k none`
  , "AsStruct", "return"                  --   not modelled: AsStruct of an *Unstructured read from the API server cannot fail
  , "return"                              --   `.found nm => k (some (some [nm]))`
  , "client.List", "client.MatchingLabels", "match.MatchLabels.GetLabels"   -- `.listExtra kind ls`
  , "return"                              --   error: `k none`
  , "AsStruct", "return"                  --   not modelled (as above)
  , "return"                              --   `.items ns => k (some (some ns))`
  , "return", "errors.New" ]              -- unknown match: `.unset => k none`

/-- DeletingComposedResourceGarbageCollector.GarbageCollectComposedResources ↔ `gcFnFull` -/
def skelGcFn : List String :=
  [ "metav1.GetControllerOf", "owner.GetUID", "return"   -- `o.ctrl = .other → onError`
  , "meta.RemoveLabels"                                  -- content of the `.gcUpdate` request (labels are not in the abstract store)
  , "client.Update", "resource.IgnoreNotFound", "return" -- `wcall (.gcUpdate ..)`: NotFound goes on, err / conflict abort
  , "client.Delete", "resource.IgnoreNotFound", "return" -- `wcall (.delete ..)`
  , "return" ]                                           -- `[] => k`

/-- GarbageCollectingAssociator.AssociateTemplates ↔ `Xp.C01.associatePT` -/
def skelAssociator : List String :=
  [ "return", "AssociateByOrder", "cr.GetResourceReferences"   -- an unnamed template: not modelled (the XR world has named templates only)
  , "cr.GetResourceReferences"                                 -- the `List Ref` argument
  , "cached.Get", "kerrors.IsNotFound"                         -- `.getCached`
  , "uncached.Get", "kerrors.IsNotFound"                       -- `.notFound => .getObj` ; second NotFound: skip the reference
  , "return"                                                   -- other error of either read: `onError`
  , "GetCompositionResourceName"                               -- `o.annot`
  , "return", "AssociateByOrder", "cr.GetResourceReferences"   -- annotation-less resource: the model stops (`onError`) where the code falls back to
                                                               -- association by order — outside the model, see level_note
  , "metav1.GetControllerOf", "cr.GetUID", "return"            -- template gone ∧ `o.ctrl = .other → onError`
  , "meta.RemoveLabels"                                        -- content of `.gcUpdate`
  , "cached.Update", "resource.IgnoreNotFound", "return"       -- `wcall (.gcUpdate ..)`
  , "cached.Delete", "resource.IgnoreNotFound", "return"       -- `wcall (.delete ..)`
  , "return" ]                                                 -- `[] => k acc`

/-- ExistingComposedResourceObserver.ObserveComposedResources ↔ `Xp.C01.observeFn` -/
def skelObserver : List String :=
  [ "xr.GetResourceReferences"                     -- the `List Ref` argument
  , "cached.Get", "kerrors.IsNotFound"             -- `.getCached`
  , "uncached.Get", "kerrors.IsNotFound"           -- `.notFound => .getObj`; second NotFound: skip
  , "return"                                       -- other error of either read: `onError`
  , "metav1.GetControllerOf", "xr.GetUID"          -- `o.ctrl = .other`: skip
  , "GetCompositionResourceName", "return"         -- `o.annot = "" → onError`
  , "details.FetchConnection", "return"            -- not modelled here: connection secrets are C09's model; the XR world's composed resources have none (no call)
  , "return" ]                                     -- `[] => k acc`

/-- FunctionComposer.Compose ↔ `composeFnFull` (= `Xp.C01.composeFn`, theorem `composeFnFull_eq`) with
`out := pipelineOut …` (the pipeline loop is `Xp.C04.runPipeline`, each step's RunFunction is
`runFunctionP`) -/
def skelComposeFn : List String :=
  [ "composite.ObserveComposedResources"           -- `observeFn`
  , "composite.FetchConnection"                    -- not modelled: the XR's own connection secret (C09); no call in the XR world
  , "AsState"                                      -- `obs.map toRes` (pipelineOut)
  , "client.Get"                                   -- credentials secret: `Step.creds` (`none` = the Get failed) in runPipeline
  , "pipeline.RunFunction"                         -- `runFetching` / `runFunctionP`
  , "FromStruct"                                   -- `toDesired`
  , "RenderComposedResourceMetadata"               -- not modelled: cannot fail for a labelled XR (labels are outside the abstract store)
  , "composite.GenerateName"                       -- `renderFn`: one `.getCached` probe per generated name
  , "composite.GarbageCollectComposedResources"    -- `gcFnFull`
  , "UpdateResourceRefs"                           -- `refsOf`
  , "client.Patch"                                 -- `.patchRefs`
  , "composite.ManagedFieldsUpgrader.Upgrade"      -- not modelled: issues no call unless the object carries client-side-apply managed fields (none in the XR world)
  , "client.Patch", "kerrors.IsInvalid"            -- `applyFn`: `.apply`, `.invalid` tolerated
  , "FromStruct", "removeSystemConditions"         -- not modelled here: XR status content (C05)
  , "client.Status.Patch" ]                        -- `.statusPatch`

end Xp.C03

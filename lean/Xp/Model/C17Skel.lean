import Xp.Model.C17
import Xp.Model.C17Rec
import Xp.Model.C17ResF
/-
C17 model, part 4: the call skeletons the model's definitions mirror (tie "a").

For every Go function mirrored by Model/C17.lean, Model/C17Rec.lean and Model/C17ResF.lean
this file declares, in source order, the calls (and, for the small DAG / lock-node methods,
the `return`s) of that function, one entry per call, with the model step that mirrors it.
harness/main/c17_dump.go extracts the same lists with go/ast from the CURRENT tree into
Xp/Gen/C17Skel.lean on every check run; Props/C17.lean states `Xp.Gen.c17Skel… = skel…`
(`skeleton_*`, by decide). An inserted, removed or reordered call in one of these functions
breaks an obligation before any scenario is run, and points at the model step to revisit.

Conventions of the extractor (harness/main/skel.go): the receiver is dropped (`d.AddNode` is
"AddNode", `d.nodes[x].Neighbors()` is "nodes.Neighbors", `r.client.Status().Update` is
"client.Status.Update"); a call comes before the calls in its arguments.
-/
namespace Xp.C17

/-! ## internal/dag: MapDag and MapUpgradingDag (dag.go, upgrading_dag.go) -/

/-- `Init` (both implementations): `init` -/
def skelInit : List String := [
  "AddNode",            -- `addNodes [] (pkgs.map pkgNode)`: one AddNode per lock package
  "return",             --   its error: `init … = .error e`
  "AddEdges",           -- `initEdges`: per package `addEdges o upg p.source d p.deps`
  "node.Identifier",    --   the source of the edges: `p.source` (`pkgNode p`).id
  "node.Neighbors",     --   the targets: `p.deps`, each a fresh `*Dependency` (`depNode`)
  "return",             --   its error: `.error x`
  "return"]             -- `(d, implied)`

/-- `AddNodes`: `addNodes` -/
def skelAddNodes : List String := [
  "AddNode",            -- `addNode d n`
  "return",             -- `.error e`
  "return"]             -- `.ok d`

/-- `AddNode`: `addNode` -/
def skelAddNode : List String := [
  "node.Identifier",    -- `d.has n.id`
  "return", "errors.Errorf", "node.Identifier",  -- `.error (.nodeExists n.id)`
  "node.Identifier",    -- `d ++ [n]`: stored under its identifier
  "return"]

/-- `MapDag.AddOrUpdateNodes`: `addOrUpdate false` -/
def skelDagAddOrUpdateNodes : List String := [
  "node.Identifier"]    -- replace the node stored under `n.id`, or append it

/-- `MapUpgradingDag.AddOrUpdateNodes`: `addOrUpdate true` -/
def skelUpgAddOrUpdateNodes : List String := [
  "node.Identifier",            -- `d.get n.id`
  "node.AddParentConstraints",  -- `n.parents ++ old.parents`
  "nodes.GetParentConstraints", --   `old.parents`
  "node.Identifier",
  "node.Identifier"]            -- replace / append

/-- `NodeExists`: `Dag.has` -/
def skelNodeExists : List String := ["return"]

/-- `TraceNode`: `trace` / `traceG` -/
def skelTraceNode : List String := [
  "traceNode",          -- `traceNode nb (size + 1) id []`
  "return",             -- `.error .missing`
  "return"]             -- the key set of the tree

/-- `traceNode`: `traceNode` + `traceNbrs` -/
def skelTraceNodeRec : List String := [
  "return", "errors.New",   -- `nb id = none`: `.error .missing`
  "nodes.Neighbors",        -- `nb id = some ns`
  "n.Identifier",           -- `tree.contains n`: skip
  "n.Identifier",           -- `n :: tree`
  "traceNode",              -- `rec n (n :: tree)`
  "n.Identifier",
  "return",                 --   its error
  "return"]

/-- `GetNode`: `Dag.get` -/
def skelGetNode : List String := [
  "return", "errors.Errorf",  -- `none`
  "return"]                   -- `some n`

/-- `AddEdges`: `addEdges` (one source node per call in `Init`) -/
def skelAddEdges : List String := [
  "AddEdge",            -- `addEdge o upg d frm e`; implied targets appended in call order
  "return",             -- `.error x`
  "return"]             -- `(d, imp)`

/-- `MapDag.AddEdge`: `addEdge o false` -/
def skelDagAddEdge : List String := [
  "return", "errors.Errorf",  -- `d.get frm = none`: `.error (.noFrom frm)`
  "to.Identifier",            -- `d.get to.pkg`
  "AddNode",                  -- absent: `to` itself becomes the node (`depNode to`), implied
  "return",                   --   not modelled: AddNode cannot fail right after the absence test
  "return",
  "nodes.AddNeighbors"]       -- `neighborCons f to.pkg`, written into `to` (the stored node iff implied)

/-- `MapUpgradingDag.AddEdge`: `addEdge o true` -/
def skelUpgAddEdge : List String := [
  "return", "errors.Errorf",  -- `.error (.noFrom frm)`
  "to.Identifier",            -- `d.get to.pkg`
  "AddNode",                  -- absent: implied
  "return",                   --   not modelled: cannot fail
  "isValidConstraints",       -- present: `validCon o org.con to.con`
  "nodes.AddNeighbors",       --   violated: `to.parents = pc`
  "to.Identifier",
  "n.AddParentConstraints",   --   `addParents d to.pkg pc`
  "to.GetParentConstraints",
  "return",                   --   `(…, true)`: returned as implied although present
  "nodes.AddNeighbors",       -- `pc` into `to`
  "nodes.AddParentConstraints", -- `to.parents` appended to the stored node: `pc ++ pc` when the
  "to.Identifier",              --   stored node is `to` itself (implied), else `addParents … pc`
  "to.GetParentConstraints",
  "return"]

/-- `Sort`: `sortG` / `sortFrom` -/
def skelSort : List String := [
  "visit",              -- `visit nb fuel n { st with stack := [] }` for every unvisited key of `order`
  "node.Neighbors",
  "return",             -- `.error e`
  "return"]             -- `results`, pre-sized to the number of nodes (padding with "")

/-- `visit`: `visit` + `visitNbrs` (`enter`, `leave`, `finish`) -/
def skelVisit : List String := [
  "n.Identifier",       -- `!st.visited.contains n`
  "n.Identifier",       -- `ex n`
  "return", "errors.Errorf", "n.Identifier",  -- `.error (.missing n)`
  "visit",              -- `rec n st`
  "n.Identifier", "nodes.Neighbors", "n.Identifier",
  "return",             --   its error
  "n.Identifier",       -- `st.stack.contains n`
  "return", "errors.Errorf", "n.Identifier",  -- `.error (.cycle n)`
  "return"]             -- `leave name st2`: first slot holding "" gets `name` (`finish`)

/-- `isValidConstraints`: `validCon`; `o.sat c v` is "c parses, v parses, c.Check(v)" -/
def skelIsValidConstraints : List String := [
  "installed.GetConstraints", "wanted.GetConstraints", "return",  -- `installed == wanted`
  "semver.NewConstraint", "wanted.GetConstraints", "return",      -- inside `o.sat wanted installed`
  "semver.NewVersion", "installed.GetConstraints", "return",
  "c.Check", "return",
  "return"]

/-! ## apis/pkg/v1beta1/lock.go: the two dag.Node implementations -/

/-- `ToNodes`: `pkgs.map pkgNode` -/
def skelToNodes : List String := ["return"]

/-- `LockPackage.Neighbors`: `(pkgNode p).deps = p.deps` -/
def skelLockPackageNeighbors : List String := ["return"]

/-- `Dependency.Neighbors`: `(depNode e).deps = []` -/
def skelDependencyNeighbors : List String := ["return"]

/-- `LockPackage.AddNeighbors`: `neighborCons` for `isPkg`: the constraint of the FIRST
dependency entry with the neighbour's identifier -/
def skelLockPackageAddNeighbors : List String := [
  "dep.Identifier", "n.Identifier",  -- `frm.deps.find? (fun e => e.pkg == to)`
  "n.AddParentConstraints",          -- `[e.con]`, then `break`
  "return"]

/-- `Dependency.AddNeighbors`: `neighborCons` for a dependency node: its own constraint -/
def skelDependencyAddNeighbors : List String := [
  "n.AddParentConstraints",          -- `[frm.con]`
  "return"]

/-- `AddParentConstraints` (both): `addParents` — an append, no calls -/
def skelAddParentConstraints : List String := []

/-! ## internal/controller/pkg/resolver/reconciler.go -/

/-- `Reconciler.Reconcile`: `reconcileP` (Model/C17Rec.lean), continuation by continuation -/
def skelReconcile : List String := [
  "client.Get",                 -- `.getLock`, `kGet`
  "resource.IgnoreNotFound",    --   `.err .notFound => .ret ⟨.none, false⟩`, else `.getLock e`
  "lock.RemoveFinalizer",       -- no packages: `ensureFin l false`
  "kerrors.IsConflict",         --   `kFin`: Conflict = silent requeue
  "lock.CleanConditions",       --   `finishWrap none`
  "client.Status.Update",       --   `.statusLock none rv`, `kStatusWrap`
  "lock.AddFinalizer",          -- `ensureFin l true`
  "kerrors.IsConflict",         --   `kFin`
  "newDag",                     -- `cfg.upg`: MapDag / MapUpgradingDag
  "dag.Init", "v1beta1.ToNodes",  -- `afterFin`: `init cfg.o cfg.upg l.pkgs`
  "lock.SetConditions", "client.Status.Update",  -- `finishErr rv .buildDag`
  "dag.Sort",                   -- `sort d d.keys`
  "lock.SetConditions", "client.Status.Update",  -- `finishErr rv .sortDag`
  "lock.SetConditions", "client.Status.Update",  -- nothing implied: `finishWrap (some true)`
  "dep.Identifier",             -- `depP`: `dep.pkg` of `implied[0]`
  "lock.SetConditions", "client.Status.Update",  -- not modelled: implied[0] is always a *Dependency
  "name.ParseReference",        -- `cfg.refOf dep.pkg`
  "lock.SetConditions", "client.Status.Update",  -- `none => finishWrap (some false)`
  "features.Enabled",           -- `cfg.upg`
  "NewPackageList",             -- `cfg.kindOf dep.pkg = ""`
  "lock.SetConditions", "client.Status.Update",  -- `finishErr rv .depType`
  "client.List",                -- `.listPkgs`, `kList`
  "lock.SetConditions", "client.Status.Update",  -- `finishErr rv (.list e)`
  "fieldpath.Pave.GetString", "name.ParseReference", "pref.Identifier",  -- `lastMatch`
  "findDependencyVersionToInstall",  -- `installP`
  "lock.SetConditions", "client.Status.Update",  -- `finishErr rv (.findInstall e / .pullInstall)`
  "lock.SetConditions", "client.Status.Update",  -- `createP`: `v = "" => finishWrap (some false)`
  "NewPackage",                 -- `cfg.kindOf`, `ref.pkgName`, `fmtImage ref.str v`
  "lock.SetConditions", "client.Status.Update",  -- `finishErr rv .construct`
  "client.Create",              -- `.createPkg`, `kCreate`
  "kerrors.IsAlreadyExists",    --   `.err .alreadyExists`
  "checkExistingPackage",       --   `.getPkg`, `kExisting`
  "lock.SetConditions", "client.Status.Update",  -- `finishErr rv (.create e / .createTaken)`
  "lock.SetConditions", "client.Status.Update",  -- `finishWrap (some true)`
  "features.Enabled",           -- not modelled: unreachable (a package is only matched with upgrades on)
  "dag.GetNode",                -- `parentsOf d dep.pkg`
  "lock.SetConditions", "client.Status.Update",  -- not modelled: an implied node is a node of the DAG
  "findDependencyVersionToUpdate",  -- `updateP`
  "lock.SetConditions", "client.Status.Update",  -- `finishErr rv (.findUpdate e / .pullUpdate)`
  "strings.HasPrefix", "fieldpath.Pave.SetString",  -- `fmtImage ref.str v`
  "client.Update",              -- `writeUpdP`: `.updatePkg p.kind p.name … p.rv`, `kUpdate`
  "lock.SetConditions", "client.Status.Update",  -- `finishErr rv (.update e)`
  "lock.SetConditions", "client.Status.Update"]  -- `finishWrap (some true)`

/-- `findDependencyVersionToInstall`: `toInstall` (and `installP` for the two remote calls) -/
def skelFindInstall : List String := [
  "conregv1.NewHash",       -- `o.digest con`: pinned digest, no resolution
  "semver.NewConstraint",   -- `o.conOk con`
  "config.PullSecretFor",   -- `fetchP`: `.pullSecret ref.str` (`toInstall`: part of `fetch`)
  "fetcher.Tags",           -- `.tags ref.repo` / `fetch`
  "semver.NewVersion",      -- `parseTags`: tags that are not versions are skipped
  "sort.Sort",              -- `sortTags`
  "c.Check",                -- `lastSat (o.sat con)`
  "v.Original"]             --   keeps the tag as written

/-- `checkExistingPackage` (fixes/D31.diff): `kCreate` / `kExisting` -/
def skelCheckExisting : List String := [
  "client.Get",                 -- `.getPkg kind name`
  "fieldpath.Pave.GetString",   -- `p.image`
  "name.ParseReference"]        -- `p.image.bind cfg.refOf`, `eref.repo = ref.repo`

/-- `findDependencyVersionToUpdate`: `toUpdate` (`updateP` / `pickP`) -/
def skelFindUpdate : List String := [
  "findDigestToUpdate",         -- `digestToUpdate o parents`
  "config.PullSecretFor", "fetcher.Tags",  -- `fetchP` / `fetch`
  "semver.NewVersion",          -- `parseTags`
  "dep.GetParentConstraints", "dep.GetParentConstraints",
  "semver.NewConstraint",       -- `parents.all o.conOk`
  "sort.Sort",                  -- `sortTags`
  "semver.MustParse",           -- `o.ver installed = none => .panic`
  "c.Check",                    -- `satAll o parents`
  "v.GreaterThan", "v.Equal",   -- `cur.le v.ver`
  "v.Original",                 -- first valid not-older version
  "targetVersion.Original",     -- `pickUpdate`'s `target`: last valid older one, with downgrades
  "dep.Identifier", "dep.GetParentConstraints",  -- (log line)
  "dep.Identifier", "dep.GetParentConstraints"]  -- `.err .noValidVersion`

/-- `findDigestToUpdate`: `digestLoop` -/
def skelFindDigest : List String := [
  "node.GetParentConstraints",
  "conregv1.NewHash",           -- `o.digest c`
  "node.GetParentConstraints",  -- `.error .diffDigests`
  "node.GetParentConstraints"]  -- `.error .diffTypes`

/-- `NewPackage`: `newPackage` (name, image and kind of the object to create) -/
def skelNewPackage : List String := [
  "pack.SetName", "xpkg.ToDNSLabel", "ref.Context.RepositoryStr",  -- `ref.pkgName` (oracle: library + ToDNSLabel)
  "strings.HasPrefix", "fieldpath.Pave.SetString",                  -- `fmtImage ref.str v`
  "pack.SetAPIVersion", "pack.SetKind",               -- `depKind`: explicit apiVersion + kind
  "ptr.Deref", "pack.SetAPIVersion", "pack.SetKind",  --   type Configuration
  "ptr.Deref", "pack.SetAPIVersion", "pack.SetKind",  --   type Provider
  "ptr.Deref", "pack.SetAPIVersion", "pack.SetKind"]  --   type Function; else error (`none`)

/-- `NewPackageList`: the same dispatch (`depKind`) -/
def skelNewPackageList : List String := [
  "l.SetAPIVersion", "l.SetKind",
  "ptr.Deref", "l.SetAPIVersion", "l.SetKind",
  "ptr.Deref", "l.SetAPIVersion", "l.SetKind",
  "ptr.Deref", "l.SetAPIVersion", "l.SetKind"]

/-! ## internal/controller/pkg/revision/dependency.go -/

/-- `PackageDependencyManager.Resolve`: `resolveF` / `restF` / `refreshF` / `tailF`
(Model/C17ResF.lean) over `resolveTail` (Model/C17.lean) -/
def skelResolve : List String := [
  "pr.GetDesiredState",         -- not modelled: an inactive revision returns (0,0,0,nil) at once
  "meta.GetDependencies", "meta.GetDependencies",  -- `self.deps`, entry by entry, in order, duplicates kept
  "client.Get",                 -- call 0: `resolveF`
  "kerrors.IsNotFound", "client.Create",  -- call 1: the Lock is created empty
  "name.ParseReference", "pr.GetSource",  -- oracle (library): `self.source`, `self.version` come from it
  "newDag", "d.Init", "v1beta1.ToNodes",  -- `restF`: `init o upg l`
  "xpkg.ParsePackageSourceFromReference", -- `parseSource` (Model/C17Glue.lean): `self.source`
  "prRef.Identifier",           -- `self.version`
  "lp.Identifier",              -- `movedEntry self lp`
  "RemoveSelf",                 -- calls k, k+1: its Get and Update (`removeSelf`)
  "client.Get",                 -- `refreshF`
  "d.Init", "v1beta1.ToNodes",  --   `init o upg (refreshed lock)` (fixes/D21.diff)
  "client.Update",              -- `tailF`: the Update that records the revision
  "d.AddOrUpdateNodes",         -- `resolveTail`: `addOrUpdate upg d (pkgNode self)`
  "d.NodeExists", "dep.Identifier", "dep.Identifier",  -- `installed0`, `.missingDirect`
  "d.TraceNode",                -- `trace d2 self.source`
  "imp.Identifier", "imp.Identifier",  -- `implied.filter (fun i => tree.contains i.pkg)`, `.missingDeps`
  "d.GetNode",                  -- `checkDep`: `d.get e.pkg`, `.notInGraph`, `.notLockPackage`
  "conregv1.NewHash", "lp.Identifier",  -- `o.digest e.con`, `.digestMismatch`
  "semver.NewConstraint",       -- `.badConstraint`
  "semver.NewVersion",          -- `.badVersion`
  "c.Check", "lp.Identifier"]   -- `.incompatible` (counted)

/-- `PackageDependencyManager.RemoveSelf`: inside `restF` -/
def skelRemoveSelf : List String := [
  "client.Get",                 -- call k (`env.rmGet`)
  "kerrors.IsNotFound",         --   NotFound: nothing to remove
  "client.Update"]              -- call k+1, only when an entry with the revision's name is there

/-! ## internal/xpkg/name.go -/

/-- `ParsePackageSourceFromReference`: `parseSource` (Model/C17Glue.lean) -/
def skelParseSource : List String := [
  "strings.Cut", "ref.String",  -- `cutAt '@'`
  "strings.LastIndex", "strings.LastIndex",  -- `lastIdx ':' > lastIdx '/'`
  "return"]

end Xp.C17

import Xp.Model.C15
/-
C15: how a package stream falls into documents.

`parser.PackageParser.Parse` (crossplane-runtime) reads the stream with
`yaml.NewYAMLReader` (k8s apimachinery): lines are collected until a line that STARTS with
`---`; what follows on that line may only be blanks or a comment (otherwise a syntax error);
a separator in front of which nothing was collected yields no document; at EOF what was
collected is the last document.  The parser then skips every document that `isEmptyYAML`
(only blank lines and comments) and decodes the others.

A stream is given as its lines, classified: `body i` is a line of the payload of document `i`
of the scenario's document table.
-/
namespace Xp.C15

inductive Line where
  | sep (plain : Bool)  -- `---`, then nothing (`plain`) or blanks / a comment
  | badsep              -- `---` followed by something else
  | comment             -- `# …` (possibly indented)
  | blank
  | body (i : Nat)
  deriving DecidableEq, Repr

/-- `YAMLReader.Read` until EOF: the chunks it returns (`acc`: the lines collected so far).
A separator line behind collected lines ends the chunk and is dropped; a separator line with
NOTHING collected – the first line of the stream, or right behind another separator – is
itself collected (the reader falls through to `buffer.Write(line)`).  `none`: a malformed
separator. -/
def chunks : List Line → List Line → Option (List (List Line))
  | [], acc => some (if acc.isEmpty then [] else [acc])
  | .sep p :: ls, acc => if acc.isEmpty then chunks ls [.sep p] else (chunks ls []).map (acc :: ·)
  | .badsep :: _, _ => none
  | l :: ls, acc => chunks ls (acc ++ [l])

/-- a line `isEmptyYAML` passes over: blank, a comment, or exactly `---` (a collected
separator line that carries blanks or a comment is NOT passed over) -/
def lineEmpty : Line → Bool
  | .comment | .blank | .sep true => true
  | _ => false

/-- `isEmptyYAML` -/
def chunkEmpty (c : List Line) : Bool := c.all lineEmpty

def bodyIdx : Line → Option Nat
  | .body i => some i
  | _ => none

/-- what a chunk that is not passed over decodes to: the document whose payload it holds; a
chunk without payload (a commented separator line and comments) does not decode; a chunk
mixing the payloads of several documents is outside the model (`bad`) -/
def docOfChunk (tbl : List Doc) (c : List Line) : Doc :=
  match c.filterMap bodyIdx with
  | [] => .bad
  | i :: is => if is.all (· == i) then (tbl[i]?).getD .bad else .bad

/-- the documents the parser decodes, in order -/
def docsOfLines (tbl : List Doc) (ls : List Line) : Option (List Doc) :=
  (chunks ls []).map fun cs => (cs.filter (!chunkEmpty ·)).map (docOfChunk tbl)

/-- `Parse` on the stream: a malformed separator or an undecodable document is an error -/
def parseLines (tbl : List Doc) (ls : List Line) : Option Pkg :=
  (docsOfLines tbl ls).bind parse

end Xp.C15

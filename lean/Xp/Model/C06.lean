import Xp.Base.Prog
/-
C06 model: the claim reconciler's binding protocol
(internal/controller/apiextensions/claim/reconciler.go Reconcile,
 syncer_ssa.go ServerSideCompositeSyncer.Sync + PatchingManagedFieldsUpgrader.Upgrade,
 syncer_csa.go ClientSideCompositeSyncer.Sync (with crossplane-runtime's
 APIPatchingApplicator.Apply and APIFinalizer), internal/names/generate.go GenerateName)
call by call, as a `Prog` over an abstract API server with resourceVersion
optimistic concurrency.

Abstract store: one claim (rv, its own identity apiVersion/kind/namespace/name, the FULL
spec.resourceRef = name + group + version + kind, finalizer, deletionTimestamp,
compositeDeletePolicy) with the list of every version ever stored as ghost state (a
cached read may return any of them), XRs by name (rv, the FULL spec.claimRef = name +
namespace + group + version + kind, whether it carries keys reference.Claim drops (uid),
claim labels, finalizer, deletionTimestamp, status), and a ghost event trace.

References are modelled component-wise because the code's decisions depend on them
component-wise: "does the claim reference an XR" looks ONLY at `spec.resourceRef.name`
(reconciler.go `Get(ctx, types.NamespacedName{Name: ref.Name}, xr)`, both syncers
`SetName(ref.Name)`) whatever apiVersion/kind the reference carries, while the client-side
syncer rewrites the claim when the stored reference differs from `xr.GetReference()` in ANY
component (`!cmp.Equal(existing, proposed)`) and the server-side one always rewrites it;
"is this XR bound to this claim" is `cmp.Equal(cm.GetReference(), xr.GetClaimReference())`
on reference.Claim{APIVersion, Kind, Name, Namespace}: ALL of name, namespace, group,
version and kind must agree (a uid key is dropped by GetClaimReference and never compared).

Managed fields (extension round): an XR carries `mf`, the manager names of its
metadata.managedFields in order. `PatchingManagedFieldsUpgrader.Upgrade`'s decision (which managers
exist -> no patch / remove the last before-first-apply entry / clear all managers) is the computed
function `upgradeDecision` of the `mf` of the XR AS READ (possibly stale), wired only together with
the server-side syncer (`Cfg.ssa`, offered/reconciler.go: `wiringSSA`); whether the server can apply
the JSON patch is the computed function `applyUpDec` of the STORED `mf` (a `replace` of an absent
key / a `remove` past the end is Invalid). Neither is an oracle any more.

Not modelled (chosen by an oracle that the theorems quantify over, and that the
driver takes from the real run): the random
name suffixes (name oracle `cands`); which version the lagging cache serves
(`pick`). Field-level sync of spec/status/labels is C07's subject. The pause
annotation and connection-secret propagation are outside (never enabled). The claim's
own apiVersion (`St.me`, `Claim.id`) is fixed: only the XR version of the controller
(`Cfg.xrt`) varies between reconciles.

Hardening round. (1) Every call can fail with ANY error class (`Flt.cls`, `Step.callErr` with an
arbitrary `Err`; an XR read answers NotFound only where the name really was absent: `admissible`), or
take effect and lose its reply with any class (`Flt.lost`, `Step.callLost`). (2) The world may hold
OTHER claims of the kind (`St.others`), reconciled by the same controller (`swap`: the model stays
per claim, the driver switches the claim under reconciliation), and `St.peers` says whether other
claims' controllers act at all: then the environment also creates XRs and (re)binds XRs to OTHER
claims (`Env.peerWrite`: anything but binding an XR to THIS claim). (3) Writes that carry the
resourceVersion of the XR as read (`upgradeXR`, `patchXR _ (some rv)`) are told apart from the
unconditional ones (Delete, the forced apply, the merge patch of an XR that was not read) in the
ghost trace (`Ev.xrWriteG` / `Ev.xrWrite`): in a world with peers only the former are protected
against an XR that was bound to another claim after it was read.
-/
namespace Xp.C06

abbrev Name := String

/-- group/version/kind; `apiVersion` = group/version -/
structure GVK where
  group : String
  version : String
  kind : String
  deriving DecidableEq, Repr

/-- reference.Composite: what a claim's spec.resourceRef holds -/
structure XRef where
  name : Name
  group : String
  version : String
  kind : String
  deriving DecidableEq, Repr

/-- reference.Claim: what an XR's spec.claimRef holds, and what `cm.GetReference()` returns -/
structure CRef where
  name : String
  ns : String
  group : String
  version : String
  kind : String
  deriving DecidableEq, Repr

/-- `xr.GetReference()` of an XR of type `t` named `n` -/
def mkXRef (t : GVK) (n : Name) : XRef := ⟨n, t.group, t.version, t.kind⟩

structure Claim where
  rv : Nat
  id : CRef              -- cm.GetReference(): apiVersion, kind, namespace, name of the object itself
  ref : Option XRef      -- spec.resourceRef
  fin : Bool             -- carries finalizer.apiextensions.crossplane.io
  deleting : Bool        -- deletionTimestamp set
  fg : Bool              -- spec.compositeDeletePolicy = Foreground
  deriving DecidableEq, Repr

/-- `spec.resourceRef.name`: the only component of the reference the reconciler and the syncers read -/
def Claim.refName (c : Claim) : Option Name := c.ref.map (·.name)

structure XR where
  rv : Nat
  cref : Option CRef     -- spec.claimRef as GetClaimReference() parses it
  crefUid : Bool         -- spec.claimRef carries a key reference.Claim has no field for (uid): never compared
  lbl : Option (String × String)  -- the crossplane.io/claim-name and claim-namespace labels (name, namespace)
  fin : Bool             -- has finalizers
  deleting : Bool
  status : Bool          -- has a status
  gen : Nat              -- status.observed: written by the XR controller (environment) only
  /-- metadata.managedFields: the manager name of every entry, in order (all `Upgrade` looks at) -/
  mf : List String
  deriving DecidableEq, Repr

/-- ghost events -/
inductive Ev where
  /-- a claim update carrying `spec.resourceRef.name = n` was applied (acknowledged by the store) -/
  | ack (n : Name)
  /-- the claim controller created XR `n` (Create or apply-create) -/
  | create (n : Name)
  /-- an UNCONDITIONAL write or delete of the claim controller (Delete, the server-side syncer's forced
  apply, the client-side merge patch of an XR that was not read) took effect on the existing XR `n`;
  `was` = its stored claimRef at that moment -/
  | xrWrite (n : Name) (was : Option CRef)
  /-- a write that carries the resourceVersion of the XR as read (the managed-fields JSON patch, the
  client-side merge patch of an XR that was read) took effect on the existing XR `n` -/
  | xrWriteG (n : Name) (was : Option CRef)
  deriving DecidableEq, Repr

/-- another claim of the kind: its identity, stored object, version history and ghost trace -/
structure Side where
  me : CRef
  claim : Option Claim
  hist : List Claim
  trace : List Ev

structure St where
  /-- the identity of the claim this model instance is about (the reconcile request's
  namespace/name + the controller's claim GroupVersionKind); never changes -/
  me : CRef
  claim : Option Claim
  /-- ghost: every version of the claim ever stored, newest first -/
  hist : List Claim
  xrs : Name → Option XR
  /-- ghost: every content XR `n` ever had (`none` = absent), newest first -/
  xhist : Name → List (Option XR)
  nextRv : Nat
  /-- ghost: newest first -/
  trace : List Ev
  /-- do other claims' controllers act in this world (create XRs, bind XRs to THEIR claims)? -/
  peers : Bool := false
  /-- the other claims of the kind in the store (untouched by every call of this claim's reconcile) -/
  others : List Side := []

inductive Err where
  | notFound | conflict | invalid | exists | other
  deriving DecidableEq, Repr

/-- the two JSON patches of PatchingManagedFieldsUpgrader.Upgrade -/
inductive UpDec where
  /-- `{"op":"replace","path":"/metadata/managedFields","value":[{}]}`: clear all field managers -/
  | clear
  /-- `{"op":"remove","path":"/metadata/managedFields/i"}`: drop the before-first-apply entry -/
  | removeAt (i : Nat)
  deriving DecidableEq, Repr

/-- claim.FieldOwnerXR (tied to the source by `field_owner_tied`) -/
def ssaManager : String := "apiextensions.crossplane.io/claim"
/-- the manager the API server records, at the first apply to an object without managers, for everything
that was there before -/
def bfaManager : String := "before-first-apply"
/-- the default (client-side) field manager of the Crossplane client -/
def csaManager : String := "crossplane"

/-- the loop of `Upgrade` over `obj.GetManagedFields()`: `i` = index of the head, `fs` = foundSSA,
`ib` = idxBFA (foundBFA = `ib.isSome`); a later before-first-apply entry overwrites an earlier index -/
def upgradeScan (ssa : String) : List String → Nat → Bool → Option Nat → Bool × Option Nat
  | [], _, fs, ib => (fs, ib)
  | m :: ms, i, fs, ib => upgradeScan ssa ms (i + 1) (fs || m == ssa) (if m == bfaManager then some i else ib)

/-- the `switch` of `Upgrade`: `foundSSA && !foundBFA` -> nothing to do; `foundSSA && foundBFA` -> remove
entry idxBFA; default -> clear all managers -/
def upgradeDecision (ssa : String) (mf : List String) : Option UpDec :=
  match upgradeScan ssa mf 0 false none with
  | (true, none) => none
  | (true, some i) => some (.removeAt i)
  | (false, _) => some .clear

/-- what the API server makes of the patch on an object with managers `mf` (`none` = it cannot apply it:
422 Invalid): `replace` needs the key to be there — an object without managers serialises without
`managedFields` —, `remove` needs the index to exist -/
def applyUpDec : UpDec → List String → Option (List String)
  | .clear, [] => none
  | .clear, _ :: _ => some []
  | .removeAt i, mf => if i < mf.length then some (mf.eraseIdx i) else none

/-- a write of manager `m` records it unless an entry of that manager exists -/
def touchMgr (m : String) (mf : List String) : List String := if mf.contains m then mf else mf ++ [m]

/-- the forced apply of the server-side syncer on an existing object: the applying manager is recorded; if
the object had no managers at all (they were cleared), everything that was there is attributed to
before-first-apply -/
def applyMf (mf : List String) : List String :=
  match mf with
  | [] => [ssaManager, bfaManager]
  | _ => touchMgr ssaManager mf

inductive Req where
  /-- cached read of the claim: `none` = the stored version, `some i` = the i-th newest version ever stored -/
  | getClaim (pick : Option Nat)
  /-- cached read of an XR: `none` = the stored state; `some f` = the older state of the name that `f`
  selects from the list of all older states (newest first; `none` = absent) — the stored state if `f`
  selects nothing or something that never was a state of the name -/
  | getXR (n : Name) (sel : Option (List (Option XR) → Option (Option XR)))
  /-- client.Update(claim): carries the resourceVersion of the in-memory copy -/
  | updClaim (c : Claim)
  /-- client.Status().Update(claim) -/
  | updClaimStatus (rv : Nat)
  /-- one of the two managed-fields JSON patches of `Upgrade` (both carry the XR's resourceVersion) -/
  | upgradeXR (n : Name) (rv : Nat) (d : UpDec)
  | deleteXR (n : Name) (fg : Bool)
  /-- client.Create(XR) of the client-side syncer: carries `spec.claimRef = cref` and the claim labels; `rvSet` = the
  object still carries the resourceVersion of an earlier read (the server rejects such a create) -/
  | createXR (n : Name) (rvSet : Bool) (cref : CRef)
  /-- the client-side syncer's merge patch (claimRef := cref); carries the rv if the XR was read -/
  | patchXR (n : Name) (rv : Option Nat) (cref : CRef)
  /-- the server-side syncer's forced apply (claimRef := cref): creates the XR or (re)binds it -/
  | applyXR (n : Name) (cref : CRef)

inductive Resp where
  | claim (c : Claim)
  | xr (x : XR)
  | ok
  | err (e : Err)
  deriving Repr

def Req.isWrite : Req → Bool
  | .getClaim _ | .getXR _ _ => false
  | _ => true

/-! ### the API server -/

/-- store a new version of the claim (fresh rv; an object that is terminating and has
no finalizer left disappears) -/
def pushClaim (s : St) (c : Claim) : St × Claim :=
  let c' := { c with rv := s.nextRv }
  ({ s with claim := if c'.deleting && !c'.fin then none else some c',
            hist := c' :: s.hist, nextRv := s.nextRv + 1 }, c')

def putXR (s : St) (n : Name) (x : XR) : St × XR :=
  let x' := { x with rv := s.nextRv }
  ({ s with xrs := fun m => if m = n then some x' else s.xrs m,
            xhist := fun m => if m = n then some x' :: s.xhist m else s.xhist m,
            nextRv := s.nextRv + 1 }, x')

def setXR (s : St) (n : Name) (x : Option XR) : St :=
  { s with xrs := fun m => if m = n then x else s.xrs m,
           xhist := fun m => if m = n then x :: s.xhist m else s.xhist m }

def emit (s : St) (e : Ev) : St := { s with trace := e :: s.trace }

/-- the acknowledgement event of a claim update carrying a resourceRef -/
def ackOf (c : Claim) : List Ev :=
  match c.refName with
  | some n => [.ack n]
  | none => []

/-- the XR a create / apply-create stores: claimRef and claim labels from the request -/
def newXR (cref : CRef) (mgr : String) : XR := ⟨0, some cref, false, some (cref.name, cref.ns), false, false, false, 0, [mgr]⟩

/-- the merge patch of the client-side syncer (APIPatchingApplicator: the whole desired object sent as a
JSON merge patch) sets the four fields of spec.claimRef; a key the desired object lacks (uid) is not
removed by a merge patch -/
def bindXR (cref : CRef) (x : XR) : XR := { x with cref := some cref, lbl := some (cref.name, cref.ns), mf := touchMgr csaManager x.mf }

/-- the forced apply of the server-side syncer sets the four fields it owns; a uid key set by
somebody else stays -/
def applyBindXR (cref : CRef) (x : XR) : XR := { x with cref := some cref, lbl := some (cref.name, cref.ns), mf := applyMf x.mf }

/-- the store after Delete(XR `n`), `x` = its stored state, `x1` = `x` with the foregroundDeletion
finalizer if requested: an object with finalizers gets a deletionTimestamp (nothing at all changes,
and no new state enters the name's history, if it already has one), one without disappears -/
def delState (s : St) (n : Name) (x x1 : XR) : St :=
  if x1.fin then
    (if x1.deleting then (if x1 = x then s else setXR s n (some x1)) else (putXR s n { x1 with deleting := true }).1)
  else setXR s n none

def exec (s : St) : Req → St × Resp
  | .getClaim pick =>
    match pick.bind (fun i => s.hist[i]?) with
    | some c => (s, .claim c)
    | none =>
      match s.claim with
      | some c => (s, .claim c)
      | none => (s, .err .notFound)
  | .getXR n sel =>
    match (match sel.bind (fun f => f ((s.xhist n).drop 1)) with
           | some ox => if ox ∈ (s.xhist n).drop 1 then ox else s.xrs n
           | none => s.xrs n) with
    | some x => (s, .xr x)
    | none => (s, .err .notFound)
  | .updClaim c =>
    match s.claim with
    | none => (s, .err .notFound)
    | some cur =>
      if c.rv ≠ cur.rv then (s, .err .conflict)
      else
        let r := pushClaim { s with trace := ackOf c ++ s.trace } { c with deleting := cur.deleting, fg := cur.fg, id := cur.id }
        (r.1, .claim r.2)
  | .updClaimStatus rv =>
    match s.claim with
    | none => (s, .err .notFound)
    | some cur =>
      if rv ≠ cur.rv then (s, .err .conflict)
      else
        let r := pushClaim s cur
        (r.1, .claim r.2)
  | .upgradeXR n rv d =>
    match s.xrs n with
    | none => (s, .err .notFound)
    | some x =>
      if (applyUpDec d x.mf).isNone then (s, .err .invalid)
      else if rv ≠ x.rv then (s, .err .conflict)
      else
        let r := putXR s n { x with mf := (applyUpDec d x.mf).getD x.mf }
        (emit r.1 (.xrWriteG n x.cref), .xr r.2)
  | .deleteXR n fg =>
    match s.xrs n with
    | none => (s, .err .notFound)
    | some x =>
      let x1 := if fg then { x with fin := true } else x
      (emit (delState s n x x1) (.xrWrite n x.cref), .ok)
  | .createXR n rvSet cref =>
    match s.xrs n with
    | some _ => (s, .err .exists)
    | none =>
      if rvSet then (s, .err .other)
      else
        let r := putXR s n (newXR cref csaManager)
        (emit r.1 (.create n), .xr r.2)
  | .patchXR n rv cref =>
    match s.xrs n with
    | none => (s, .err .notFound)
    | some x =>
      if (match rv with | some v => v != x.rv | none => false) then (s, .err .conflict)
      else
        let r := putXR s n (bindXR cref x)
        (emit r.1 (if rv.isSome then .xrWriteG n x.cref else .xrWrite n x.cref), .xr r.2)
  | .applyXR n cref =>
    match s.xrs n with
    | none =>
      let r := putXR s n (newXR cref ssaManager)
      (emit r.1 (.create n), .xr r.2)
    | some x =>
      let r := putXR s n (applyBindXR cref x)
      (emit r.1 (.xrWrite n x.cref), .xr r.2)

/-- what the controller sees when a call is not applied -/
def errResp : Outcome → Req → Resp
  | .conflict, r => if r.isWrite then .err .conflict else .err .other
  | _, _ => .err .other

def sem : Sem St Req Resp := ⟨exec, errResp⟩

/-- An XR read answers NotFound only where the name really was absent (the stored state, or an older
one served by the cache: `exec (.getXR ..)`); every other error class can hit every call. -/
def admissible : Req → Err → Bool
  | .getXR _ _, .notFound => false
  | _, _ => true

/-- fault of one call in a scheduled run: `Outcome` + an error of a given class (not applied) + a reply
lost after the call took effect (the controller sees an error and goes on) -/
inductive Flt where
  | ok | fail | conflict | crashBefore | crashAfter
  | cls (e : Err)
  | lost (e : Err)
  deriving Repr

/-- the error the controller sees under a fault (inadmissible classes degrade to a server error) -/
def fltErr : Flt → Req → Err
  | .conflict, r => if r.isWrite then .conflict else .other
  | .cls e, r => if admissible r e then e else .other
  | .lost e, r => if admissible r e then e else .other
  | _, _ => .other

/-! ### the claim reconciler -/

inductive Res where
  | ok | requeue | err
  deriving DecidableEq, Repr

abbrev P := Prog Req Resp Res

structure Cfg where
  /-- features.EnableBetaClaimSSA: server-side syncer + managed-fields upgrader -/
  ssa : Bool
  /-- `r.gvkXR`: the XR GroupVersionKind this incarnation of the controller reconciles. The store
  holds the XRs of that GroupKind; the version changes when the XRD's referenceable version is
  switched and the controller restarts. It only ever ends up in references the syncers write. -/
  xrt : GVK
  /-- which version the cache serves for the claim -/
  pick : Option Nat
  /-- which state the cache serves for each XR read of the reconcile (0 = the Get in Reconcile,
  1 = the Get inside the client-side Apply, 2.. = the availability Gets of the name generator) -/
  xpick : Nat → Option (List (Option XR) → Option (Option XR))
  /-- name oracle: the names the generator draws, in order -/
  cands : List Name

/-- `return reconcile.Result{Requeue: …}, errors.Wrap(r.client.Status().Update(ctx, cm), errUpdateClaimStatus)` -/
def statusThen (cm : Claim) (r : Res) : P :=
  .call (.updClaimStatus cm.rv) fun
    | .claim _ => .ret r
    | _ => .ret .err

/-- `if kerrors.IsConflict(err) { return Requeue } … SetConditions(ReconcileError); return Requeue, Status().Update` -/
def failWith (cm : Claim) : Err → P
  | .conflict => .ret .requeue
  | _ => statusThen cm .requeue

/-- names.nameGenerator.GenerateName: draw a name, Get it, NotFound = available; at most `fuel` tries -/
def genName (xpick : Nat → Option (List (Option XR) → Option (Option XR))) : Nat → Nat → List Name → (Option Name → P) → P
  | 0, _, _, k => k none
  | _ + 1, _, [], k => k none
  | t + 1, j, c :: cs, k =>
    .call (.getXR c (xpick j)) fun
      | .err .notFound => k (some c)
      | .xr _ => genName xpick t (j + 1) cs k
      | _ => k none

def finish (cm : Claim) : P := statusThen cm .ok

/-- ServerSideCompositeSyncer.Sync once the XR's name is known: Update(claim) with the reference,
then the forced apply of the XR, then (if the XR has a status) Status().Update(claim); then the
tail of Reconcile -/
def ssaBind (cfg : Cfg) (cm : Claim) (n : Name) : P :=
  .call (.updClaim { cm with ref := some (mkXRef cfg.xrt n) }) fun
    | .claim cm1 =>
      .call (.applyXR n cm.id) fun
        | .xr x =>
          if x.status then
            .call (.updClaimStatus cm1.rv) fun
              | .claim cm2 => finish cm2
              | .err e => failWith cm1 e
              | _ => .ret .err
          else finish cm1
        | .err e => failWith cm1 e
        | _ => .ret .err
    | .err e => failWith cm e
    | _ => .ret .err

/-- ServerSideCompositeSyncer.Sync, then the tail of Reconcile: `if ref := cm.GetResourceReference();
ref != nil { xrPatch.SetName(ref.Name) }` whatever apiVersion/kind the reference carries; then
`cm.SetResourceReference(xrPatch.GetReference())` and Update(claim), always -/
def syncSSA (cfg : Cfg) (cm : Claim) : P :=
  match cm.refName with
  | some n => ssaBind cfg cm n
  | none => genName cfg.xpick 10 2 cfg.cands fun
      | some n => ssaBind cfg cm n
      | none => statusThen cm .requeue

/-- the tail of ClientSideCompositeSyncer.Sync after the XR was applied -/
def csaPost (cm1 : Claim) : P :=
  .call (.updClaimStatus cm1.rv) fun
    | .claim cm2 =>
      .call (.updClaim cm2) fun
        | .claim cm3 => finish cm3
        | .err e => failWith cm2 e
        | _ => .ret .err
    | .err e => failWith cm1 e
    | _ => .ret .err

/-- `AllowUpdateIf(!cmp.Equal(old, obj))`: the desired XR (built from the XR read at the start of
the reconcile) equals the current one, i.e. nobody wrote the XR since and it is already bound
and labelled -/
def csaNoop (me : CRef) (xr : Option XR) (cur : XR) : Bool :=
  match xr with
  | some x => x.rv == cur.rv && x.cref == some me && !x.crefUid && x.lbl == some (me.name, me.ns)
  | none => false

/-- `s.client.Apply(ctx, xr, AllowUpdateIf(!cmp.Equal))` = APIPatchingApplicator.Apply -/
def csaApply (cfg : Cfg) (xr : Option XR) (cm1 : Claim) (n : Name) : P :=
  .call (.getXR n (cfg.xpick 1)) fun
    | .err .notFound =>
      .call (.createXR n xr.isSome cm1.id) fun
        | .xr _ => csaPost cm1
        | .err e => failWith cm1 e
        | _ => .ret .err
    | .xr cur =>
      if csaNoop cm1.id xr cur then csaPost cm1
      else
        .call (.patchXR n (xr.map XR.rv) cm1.id) fun
          | .xr _ => csaPost cm1
          | .err e => failWith cm1 e
          | _ => .ret .err
    | .err e => failWith cm1 e
    | _ => .ret .err

/-- the client-side syncer's Update(claim) with the proposed reference (a freshly generated name, or
the recorded name under the controller's current apiVersion/kind), then Apply -/
def csaBindNew (cfg : Cfg) (xr : Option XR) (cm : Claim) (n : Name) : P :=
  .call (.updClaim { cm with ref := some (mkXRef cfg.xrt n) }) fun
    | .claim cm1 => csaApply cfg xr cm1 n
    | .err e => failWith cm e
    | _ => .ret .err

/-- ClientSideCompositeSyncer.Sync, then the tail of Reconcile: `xr.SetName(ref.Name)` whatever
apiVersion/kind the reference carries; `if !cmp.Equal(existing, proposed) { SetResourceReference(proposed);
Update(claim) }` compares the whole reference -/
def syncCSA (cfg : Cfg) (cm : Claim) (xr : Option XR) : P :=
  match cm.ref with
  | some r => if r = mkXRef cfg.xrt r.name then csaApply cfg xr cm r.name else csaBindNew cfg xr cm r.name
  | none => genName cfg.xpick 10 2 cfg.cands fun
      | some n => csaBindNew cfg xr cm n
      | none => statusThen cm .requeue

/-- RemoveFinalizer (Update, NotFound ignored), then the final status update -/
def finalizeClaim (cm : Claim) : P :=
  if cm.fin then
    .call (.updClaim { cm with fin := false }) fun
      | .claim cm1 => statusThen cm1 .ok
      | .err .notFound => statusThen cm .ok
      | .err _ => statusThen cm .requeue
      | _ => .ret .err
  else statusThen cm .ok

/-- `meta.WasDeleted(cm)` branch -/
def deletePath (cm : Claim) (xr : Option (Name × XR)) : P :=
  match xr with
  | none => finalizeClaim cm
  | some (n, x) =>
    if cm.fg && x.deleting then statusThen cm .requeue
    else
      .call (.deleteXR n cm.fg) fun
        | .ok | .err .notFound => if cm.fg then .ret .requeue else finalizeClaim cm
        | .err _ => statusThen cm .requeue
        | _ => .ret .err

/-- r.composite.Sync with the configured syncer -/
def syncWith (cfg : Cfg) (cm : Claim) (xr : Option (Name × XR)) : P :=
  if cfg.ssa then syncSSA cfg cm else syncCSA cfg cm (xr.map (·.2))

/-- AddFinalizer, then Sync -/
def bindPath (cfg : Cfg) (cm : Claim) (xr : Option (Name × XR)) : P :=
  if cm.fin then syncWith cfg cm xr
  else
    .call (.updClaim { cm with fin := true }) fun
      | .claim cm1 => syncWith cfg cm1 xr
      | .err e => failWith cm e
      | _ => .ret .err

def restOf (cfg : Cfg) (cm : Claim) (xr : Option (Name × XR)) : P :=
  if cm.deleting then deletePath cm xr else bindPath cfg cm xr

/-- `r.managedFields.Upgrade(ctx, xr, FieldOwnerXR)` as wired by offered/reconciler.go: the
PatchingManagedFieldsUpgrader together with the server-side syncer, the NopManagedFieldsUpgrader (claim.NewReconciler's
default) otherwise; `!meta.WasCreated(obj)` -> nothing -/
def upgradeOf (cfg : Cfg) (xr : Option (Name × XR)) : Option UpDec :=
  match xr with
  | some (_, x) => if cfg.ssa then upgradeDecision ssaManager x.mf else none
  | none => none

/-- everything after the unbound check: managed-fields Upgrade, then delete or bind -/
def afterCheck (cfg : Cfg) (cm : Claim) (xr : Option (Name × XR)) : P :=
  match xr, upgradeOf cfg xr with
  | some (n, x), some d =>
    .call (.upgradeXR n x.rv d) fun
      | .xr x' => restOf cfg cm (some (n, x'))
      | .err .notFound => restOf cfg cm (some (n, x))
      | .err e => failWith cm e
      | _ => .ret .err
  | _, _ => restOf cfg cm xr

/-- `ref != nil && !cmp.Equal(cm.GetReference(), ref)`: the XR carries a claimRef that differs from
this claim's reference in name, namespace, group, version or kind -/
def unbound (cm : Claim) (x : XR) : Bool :=
  match x.cref with
  | some r => r != cm.id
  | none => false

/-- the unbound check (errFmtUnbound) -/
def checked (cfg : Cfg) (cm : Claim) (xr : Option (Name × XR)) : P :=
  match xr with
  | some (_, x) => if unbound cm x then statusThen cm .ok else afterCheck cfg cm xr
  | none => afterCheck cfg cm none

/-- after the (possibly stale) claim was read: Get the referenced XR -/
def withClaim (cfg : Cfg) (cm : Claim) : P :=
  match cm.refName with
  | some n =>
    .call (.getXR n (cfg.xpick 0)) fun
      | .xr x => checked cfg cm (some (n, x))
      | .err .notFound => checked cfg cm none
      | .err _ => statusThen cm .requeue
      | _ => .ret .err
  | none => checked cfg cm none

def reconcile (cfg : Cfg) : P :=
  .call (.getClaim cfg.pick) fun
    | .claim cm => withClaim cfg cm
    | .err .notFound => .ret .ok
    | _ => .ret .err

/-! ### declared call skeletons

The Go calls (through a field of the receiver) that each function above mirrors, in source
order. `Xp/Props/C06.lean` states that they equal the lists regenerated from the current source
by go/ast on every check run (`Xp.Gen.c06Skel…`): inserting, removing or reordering an API call
in one of these Go functions invalidates the model and breaks that obligation at once.
`withClaim`/`checked`/`afterCheck`/`deletePath`/`finalizeClaim`/`bindPath` mirror `Reconcile`
(`statusThen` = each `client.Status.Update`), `ssaBind`/`syncSSA` mirror the server-side `Sync`,
`csaBindNew`/`csaApply`/`csaPost`/`syncCSA` the client-side `Sync`, `genName` mirrors
`GenerateName`, `upgradeXR` requests mirror `Upgrade`. -/

def skelReconcile : List String :=
  ["client.Get",                      -- getClaim
   "client.Status.Update",            -- paused (not modelled: never paused)
   "client.Get",                      -- getXR
   "client.Status.Update",            -- Get error
   "client.Status.Update",            -- unbound check
   "managedFields.Upgrade", "client.Status.Update",
   "client.Status.Update",            -- foreground: waiting for the XR
   "client.Delete", "client.Status.Update",
   "claim.UnpublishConnection", "client.Status.Update",   -- no-op unpublisher
   "claim.RemoveFinalizer", "client.Status.Update",
   "client.Status.Update",            -- deleted
   "claim.AddFinalizer", "client.Status.Update",
   "composite.Sync", "client.Status.Update",
   "client.Status.Update",            -- waiting
   "composite.PropagateConnection", "client.Status.Update",   -- no secret: no call
   "client.Status.Update"]            -- available

def skelSsaSync : List String := ["names.GenerateName", "client.Update", "client.Patch", "client.Status.Update"]

def skelCsaSync : List String :=
  ["names.GenerateName", "client.Update", "client.Apply", "client.Status.Update", "client.Update"]

def skelUpgrade : List String :=
  ["client.Patch",     -- case foundSSA && foundBFA: upgradeXR _ _ (.removeAt idxBFA)
   "client.Patch"]     -- default: upgradeXR _ _ .clear

def skelGenerateName : List String := ["namer.GenerateName", "reader.Get"]

/-- crossplane-runtime `APIPatchingApplicator.Apply` (the module source the harness is compiled from),
mirrored by `csaApply` -/
def skelApply : List String :=
  ["client.Create",    -- not modelled: only for an object with generateName and no name (the syncer names the XR first)
   "client.Get",       -- csaApply: getXR n (xpick 1)
   "client.Create",    -- NotFound: createXR n _ _
   "client.Patch"]     -- after the ApplyOptions (`csaNoop` = AllowUpdateIf refusing): patchXR n _ _

/-- crossplane-runtime `APIFinalizer.AddFinalizer`: `bindPath`'s updClaim { cm with fin := true } unless `cm.fin` -/
def skelAddFinalizer : List String := ["client.Update"]

/-- crossplane-runtime `APIFinalizer.RemoveFinalizer`: `finalizeClaim`'s updClaim { cm with fin := false } if `cm.fin` -/
def skelRemoveFinalizer : List String := ["client.Update"]

/-- offered/reconciler.go under features.EnableBetaClaimSSA: `Cfg.ssa = true` selects `syncSSA` in `syncWith`
AND `upgradeDecision` in `upgradeOf` -/
def wiringSSA : List String :=
  ["WithCompositeSyncer:NewServerSideCompositeSyncer", "WithManagedFieldsUpgrader:NewPatchingManagedFieldsUpgrader"]

/-- claim.NewReconciler's defaults: `Cfg.ssa = false` selects `syncCSA` and no upgrade patch -/
def wiringDefault : List String :=
  ["CompositeSyncer:NewClientSideCompositeSyncer", "managedFields:NopManagedFieldsUpgrader", "composite:defaultCRComposite"]

/-! #### the declared skeletons of the syncers as functions of the model's programs -/

/-- the client call a request is -/
def reqVerb : Req → String
  | .getClaim _ | .getXR _ _ => "client.Get"
  | .updClaim _ => "client.Update"
  | .updClaimStatus _ => "client.Status.Update"
  | .upgradeXR _ _ _ | .patchXR _ _ _ | .applyXR _ _ => "client.Patch"
  | .deleteXR _ _ => "client.Delete"
  | .createXR _ _ _ => "client.Create"

/-- the requests a program issues when every call is answered by `reply` (at most `fuel` of them) -/
def pathReqs (reply : Req → Resp) : Nat → P → List Req
  | 0, _ => []
  | _, .ret _ => []
  | fuel + 1, .call r k => r :: pathReqs reply fuel (k (reply r))

/-- every call succeeds; an XR read finds the XR iff `found`; the XR applied has a status -/
def okReply (cm : Claim) (x : XR) (found : Bool) : Req → Resp
  | .getClaim _ | .updClaim _ | .updClaimStatus _ => .claim cm
  | .getXR _ _ => if found then .xr x else .err .notFound
  | .deleteXR _ _ => .ok
  | _ => .xr { x with status := true }

/-! ### environment -/

/-- Environment steps: the XR controller (and the garbage collector / a user) rewrite or
remove XRs but never change a claimRef and never create an XR; the user edits or
deletes the claim and may even rewrite the apiVersion/kind of spec.resourceRef (a manifest
restored from a backup taken under another served version), but never changes or removes
spec.resourceRef.name. -/
inductive Env : St → St → Prop where
  | xrWrite (s : St) (n : Name) (x x' : XR) : s.xrs n = some x → x'.cref = x.cref →
      Env s (putXR s n x').1
  | xrRemove (s : St) (n : Name) : Env s (setXR s n none)
  /-- a user creates an XR by hand: it carries no claimRef -/
  | xrCreate (s : St) (n : Name) (x' : XR) : s.xrs n = none → x'.cref = none → Env s (putXR s n x').1
  /-- in a world with other claims: ANOTHER claim's controller creates XR `n` or rewrites it in any way
  (binds it to its claim — even one bound to this claim —, unbinds it), except that it never binds an
  XR to THIS claim -/
  | peerWrite (s : St) (n : Name) (x' : XR) : s.peers = true →
      (x'.cref = some s.me → ∃ x, s.xrs n = some x ∧ x.cref = some s.me) → Env s (putXR s n x').1
  /-- a change of an existing XR that keeps its resourceVersion and claimRef (a finalizer added to an
  XR that is already terminating) -/
  | xrSet (s : St) (n : Name) (x x' : XR) : s.xrs n = some x → x'.cref = x.cref → x'.rv = x.rv →
      Env s (setXR s n (some x'))
  /-- writes to other objects (other claims): resourceVersions are consumed, `others` changes -/
  | tick (s : St) (k : Nat) (o : List Side) : Env s { s with nextRv := s.nextRv + k, others := o }
  | claimWrite (s : St) (c c' : Claim) : s.claim = some c → c'.refName = c.refName → c'.id = c.id →
      Env s (pushClaim s c').1
  | claimGone (s : St) : Env s { s with claim := none }

/-- the scripted environment actions of the correspondence harness -/
inductive EnvAct where
  /-- the XR controller adds its finalizer and writes a status (`status.observed = g`) -/
  | xrTouch (n : Name) (g : Nat)
  | xrRemove (n : Name) | xrDelete (n : Name) | claimDelete | claimTouch
  /-- somebody rewrites apiVersion/kind of the claim's spec.resourceRef (the name stays) -/
  | claimRetype (t : GVK)
  /-- somebody creates XR `n` (absent until then) with this claimRef (`none`: a user, by hand; `some r`:
  the controller of the claim `r`, which is not a claim of the scenario) -/
  | xrCreate (n : Name) (r : Option CRef) (uid : Bool)
  /-- the controller of another claim `r` (not a claim of the scenario) binds the existing XR `n` -/
  | xrBind (n : Name) (r : CRef) (uid : Bool)
  /-- `a` (a claim action) applied to the claim in slot `j` of `St.others` -/
  | other (j : Nat) (a : EnvAct)
  deriving Repr

def St.side (s : St) : Side := ⟨s.me, s.claim, s.hist, s.trace⟩

def St.load (s : St) (d : Side) : St := { s with me := d.me, claim := d.claim, hist := d.hist, trace := d.trace }

/-- make the claim in slot `j` of `others` the claim under reconciliation; the current one takes its
slot (an involution) -/
def swap (s : St) (j : Nat) : St :=
  match s.others[j]? with
  | some d => { s.load d with others := s.others.set j s.side }
  | none => s

def lblOf (r : Option CRef) : Option (String × String) := r.map fun r => (r.name, r.ns)

def applyEnv (s : St) : EnvAct → St
  | .xrTouch n g =>
    match s.xrs n with
    | some x => (putXR s n { x with fin := true, status := true, gen := g }).1
    | none => s
  | .xrRemove n =>
    match s.xrs n with
    | some _ => setXR s n none
    | none => s
  | .xrDelete n =>
    match s.xrs n with
    | some x =>
      if x.fin then (if x.deleting then s else (putXR s n { x with deleting := true }).1)
      else setXR s n none
    | none => s
  | .claimDelete =>
    match s.claim with
    | some c =>
      if c.fin then (if c.deleting then s else (pushClaim s { c with deleting := true }).1)
      else { s with claim := none }
    | none => s
  | .claimTouch =>
    match s.claim with
    | some c => (pushClaim s c).1
    | none => s
  | .claimRetype t =>
    match s.claim with
    | some c =>
      (match c.ref with
       | some r => if r = mkXRef t r.name then s else (pushClaim s { c with ref := some (mkXRef t r.name) }).1
       | none => s)
    | none => s
  | .xrCreate n r uid =>
    match s.xrs n with
    | some _ => s
    | none => (putXR s n ⟨0, r, uid && r.isSome, lblOf r, false, false, false, 0, [csaManager]⟩).1
  | .xrBind n r uid =>
    match s.xrs n with
    | some x =>
      if x.cref = some r ∧ x.crefUid = uid ∧ x.lbl = lblOf (some r) then s
      else (putXR s n { x with cref := some r, crefUid := uid, lbl := lblOf (some r) }).1
    | none => s
  | .other j a =>
    match s.others[j]? with
    | some _ => swap (applyEnv (swap s j) a) j
    | none => s

/-- OUTSIDE the environment `Env` of the theorems (a second incarnation of the claim: `Init`/`Inv` speak about
ONE object whose reference name is set-once): the claim, gone, is created again under the same name — a new
object without reference and finalizer. The version history `hist` keeps the versions of the old incarnation,
so a cached read (`Req.getClaim (some i)`) may still serve them; `exec` answers an Update that carries the
resourceVersion of such a version with Conflict. Replayed by the driver for the scripted action `claimCreate`;
covered by the correspondence and the direct monitors, not by `driver_runs_are_executions`. -/
def recreateClaim (s : St) : St :=
  match s.claim with
  | some _ => s
  | none => (pushClaim s ⟨0, s.me, none, false, false, false⟩).1

/-! ### system: one claim-controller thread, the environment, crashes -/

structure Sys where
  st : St
  /-- the reconcile in flight (`none` = idle) -/
  thread : Option P

/-- One step of the system. `start` also models a crash/restart at any point: the
in-flight reconcile is dropped (all controller-local state is lost) and a new one
starts with an arbitrary cache lag, name oracle and managed-fields oracle. A crash
after a call took effect is `callOk` followed by `start`. `callErr`: the call is not applied and
the controller sees an error of any class. -/
inductive Step : Sys → Sys → Prop where
  | env (s s' : St) (t : Option P) : Env s s' → Step ⟨s, t⟩ ⟨s', t⟩
  | start (s : St) (t : Option P) (cfg : Cfg) : Step ⟨s, t⟩ ⟨s, some (reconcile cfg)⟩
  | callOk (s : St) (r : Req) (k : Resp → P) : Step ⟨s, some (.call r k)⟩ ⟨(exec s r).1, some (k (exec s r).2)⟩
  /-- the call is not applied and the controller sees an error of ANY admissible class -/
  | callErr (s : St) (r : Req) (k : Resp → P) (e : Err) : admissible r e = true →
      Step ⟨s, some (.call r k)⟩ ⟨s, some (k (.err e))⟩
  /-- the call took effect but the reply was lost (timeout): the controller sees an error -/
  | callLost (s : St) (r : Req) (k : Resp → P) (e : Err) : admissible r e = true →
      Step ⟨s, some (.call r k)⟩ ⟨(exec s r).1, some (k (.err e))⟩
  | done (s : St) (a : Res) : Step ⟨s, some (.ret a)⟩ ⟨s, none⟩

inductive Reach (s0 : St) : Sys → Prop where
  | init : Reach s0 ⟨s0, none⟩
  | step (a b : Sys) : Reach s0 a → Step a b → Reach s0 b

/-! ### scheduled runner used by the correspondence driver -/

structure CallRec where
  req : Req
  outcome : Flt
  /-- reply seen by the controller; for `crashAfter` the reply that was lost -/
  resp : Option Resp

/-- Run one reconcile under a fault plan, applying the scripted environment actions
`env k` right after call `k`. -/
def runRec (plan : Nat → Flt) (env : Nat → List EnvAct) : Nat → P → St → St × List CallRec × Option Res
  | _, .ret a, s => (s, [], some a)
  | k, .call r c, s =>
    let after (s : St) : St := (env k).foldl applyEnv s
    match plan k with
    | .ok =>
      let q := runRec plan env (k+1) (c (exec s r).2) (after (exec s r).1)
      (q.1, ⟨r, plan k, some (exec s r).2⟩ :: q.2.1, q.2.2)
    | .crashBefore => (after s, [⟨r, plan k, none⟩], none)
    | .crashAfter => (after (exec s r).1, [⟨r, plan k, some (exec s r).2⟩], none)
    | .lost e =>
      let q := runRec plan env (k+1) (c (.err (fltErr (.lost e) r))) (after (exec s r).1)
      (q.1, ⟨r, plan k, some (exec s r).2⟩ :: q.2.1, q.2.2)
    | f =>
      let q := runRec plan env (k+1) (c (.err (fltErr f r))) (after s)
      (q.1, ⟨r, plan k, some (.err (fltErr f r))⟩ :: q.2.1, q.2.2)

end Xp.C06

import Xp.Model.C07
/-
C07 world model: ONE sync of a claim syncer as the sequence of API calls it is, in a
world that is not quiet:

  * what the reconciler READ (through the informer cache) is an input of its own
    (`rcm`, `rxr`): it may be an older version of the stored objects, or miss the XR;
  * before the k-th API call third parties write (`World.acts k`): a user edits the
    claim, the XR controller / another replica / a user edits, deletes or creates the XR;
  * the k-th API call may fail with an API error of any class (`World.inj k`);
  * the Get inside the client-side Apply is answered by the live store or by the same
    cache state the reconciler read (`World.getLive`);
  * the API server checks resource versions: a claim Update / Status().Update and the
    client-side merge patch of the XR carry the version that was read and are refused
    (Conflict) when the stored object has moved on; server-side apply carries none.

`syncSSAW` / `syncCSAW` mirror syncer_ssa.go / syncer_csa.go (and crossplane-runtime's
APIPatchingApplicator.Apply) call by call. In the quiet world, reading the stored
objects, they are `syncSSA` / `syncCSA` (Proofs/C07World.lean: `syncSSAW_quiet`,
`syncCSAW_quiet`), so every theorem about those is a theorem about this model's
interference-free special case. The differential harness runs THIS model.
-/
namespace Xp.C07
open Xp

/-- a third party's write -/
inductive Act where
  | editClaim (d : Delta)
  | xrCtl (d : Delta)
  | deleteXR
  /-- somebody creates the XR the sync is working on (no effect if it exists) -/
  | createXR (x : KObj)

structure World where
  /-- third-party writes before the k-th API call of the sync -/
  acts : Nat → List Act := fun _ => []
  /-- the k-th API call fails with an error of this class; nothing reaches the store -/
  inj : Nat → Option String := fun _ => none
  /-- the Get inside the client-side Apply reads the live store (else: the cache as the reconciler read it) -/
  getLive : Bool := true

def World.quiet : World := {}

/-- What the API server holds for one claim/XR pair, with resource versions
(`cmV`, `xrV`: counters that move whenever the stored object changes). -/
structure Srv where
  cm : KObj
  cmV : Nat := 0
  xr : Option KObj := none
  xrV : Nat := 0
  prev : Option KObj := none
  deriving Inhabited

def Srv.toSt (s : Srv) : St := { cm := s.cm, xr := s.xr, prev := s.prev }

/-- equality of everything the projection keeps -/
def kobjSame (a b : KObj) : Bool := kobjEqv a b && oeqv jeqv a.status b.status

def bump (changed : Bool) (v : Nat) : Nat := if changed then v + 1 else v

def applyAct (s : Srv) : Act → Srv
  | .editClaim d =>
    let cm' := applyDelta s.cm d
    { s with cm := cm', cmV := bump (!kobjSame s.cm cm') s.cmV }
  | .xrCtl d =>
    match s.xr with
    | some x =>
      let x' := applyDelta x d
      { s with xr := some x', xrV := bump (!kobjSame x x') s.xrV }
    | none => s
  | .deleteXR => { s with xr := none, prev := none }
  | .createXR x =>
    match s.xr with
    | some _ => s
    | none => { s with xr := some x, xrV := s.xrV + 1, prev := none }

def applyActs (s : Srv) (l : List Act) : Srv := l.foldl applyAct s

structure OutW where
  srv : Srv
  writes : List Write := []
  err : String := ""
  /-- API calls made (reads included) -/
  calls : Nat := 0
  deriving Inhabited

def apiErr (cls : String) : String := "api:" ++ cls

/-- A resource-version-checked write of the claim (Update or Status().Update): `held`
is the version the writer's copy carries. -/
def claimWrite (inj : Option String) (held : Nat) (s : Srv) (f : KObj → KObj) : Except String Srv :=
  match inj with
  | some e => .error (apiErr e)
  | none =>
    if held != s.cmV then .error (apiErr "conflict")
    else
      let cm' := f s.cm
      .ok { s with cm := cm', cmV := bump (!kobjSame s.cm cm') s.cmV }

/-- the version of the XR after a server-side apply: a first apply by the manager is
recorded (managedFields) even when no value changes -/
def xrVerAfterApply (s : Srv) (xr' : KObj) : Nat :=
  match s.xr with
  | none => s.xrV + 1
  | some x => bump (s.prev.isNone || !kobjSame x xr') s.xrV

/-! ### syncer_ssa.go: Update(claim) ; Patch(XR, Apply, ForceOwnership) ; Status().Update(claim) -/

def syncSSAW (c : Cfg) (gen : String) (w : World) (rcm : KObj) (rcmV : Nat) (rxr : Option KObj) (s : Srv) : OutW :=
  match rcm.spec with
  | some (.obj cs) =>
    let p := ssaPatch c gen rcm rxr cs
    let body0 := ssaClaim c p.name rcm rxr cs
    let s0 := applyActs s (w.acts 0)
    match claimWrite (w.inj 0) rcmV s0 (fun st => storeClaimUpdate st body0) with
    | .error e => { srv := s0, writes := [.claimUpdate body0], err := e, calls := 1 }
    | .ok s0' =>
      let s1 := applyActs s0' (w.acts 1)
      let w1 := [Write.claimUpdate body0, Write.xrApply p]
      match w.inj 1 with
      | some e => { srv := s1, writes := w1, err := apiErr e, calls := 2 }
      | none =>
        let xr' := applySSA s1.xr s1.prev p
        let s1' : Srv := { s1 with xr := some xr', xrV := xrVerAfterApply s1 xr', prev := some p }
        match xr'.status with
        | none => { srv := s1', writes := w1, calls := 2 }
        | some (.obj xst) =>
          -- the syncer's copy of the claim: the server's answer to the Update
          let cm1 := s0'.cm
          let body := { cm1 with status := some (.obj (ssaStatus cm1.statusFields xst)) }
          let s2 := applyActs s1' (w.acts 2)
          match claimWrite (w.inj 2) s0'.cmV s2 (fun st => storeClaimStatus st body) with
          | .error e => { srv := s2, writes := w1 ++ [.claimStatus body], err := e, calls := 3 }
          | .ok s2' => { srv := s2', writes := w1 ++ [.claimStatus body], calls := 3 }
        | some _ => { srv := s1', writes := w1, err := "xrStatusNotObject", calls := 2 }
  | _ => { srv := s, err := "claimSpecNotObject" }

/-! ### syncer_csa.go -/

/-- the part of the client-side sync after the XR has been applied: `cm1` / `cmV` the
syncer's copy of the claim and its version, `xrA` its copy of the XR (the server's answer
to the Apply), `k` the index of the next API call -/
def csaBackW (w : World) (k : Nat) (cm1 : KObj) (cmV : Nat) (xrA : KObj) (s : Srv) (ws : List Write) : OutW :=
  match csaMergeStatus cm1.status xrA.status with
  | .error e => { srv := s, writes := ws, err := e, calls := k }
  | .ok st' =>
    let body2 := { cm1 with status := st' }
    let s2 := applyActs s (w.acts k)
    match claimWrite (w.inj k) cmV s2 (fun st => storeClaimStatus st body2) with
    | .error e => { srv := s2, writes := ws ++ [.claimStatus body2], err := e, calls := k + 1 }
    | .ok s2' =>
      let cm2 := s2'.cm
      let en2 := extName (some xrA)
      let ann := if en2 != "" then setAnn cm2.annotations extNameKey en2 else cm2.annotations
      match cm2.spec with
      | some (.obj cs) =>
        let body3 := { cm2 with annotations := ann, spec := some (.obj (csaClaimSpec cs xrA.specFields)) }
        let s3 := applyActs s2' (w.acts (k + 1))
        let ws3 := ws ++ [.claimStatus body2, .claimUpdate body3]
        match claimWrite (w.inj (k + 1)) s2'.cmV s3 (fun st => storeClaimUpdate st body3) with
        | .error e => { srv := s3, writes := ws3, err := e, calls := k + 2 }
        | .ok s3' => { srv := s3', writes := ws3, calls := k + 2 }
      | _ => { srv := s2', writes := ws ++ [.claimStatus body2], err := "mergeSpec", calls := k + 1 }

/-- The Get inside `client.Apply`: a NotFound answer (of whatever origin) means "create it".
Answered by the live store, or by the informer cache as the reconciler read it. -/
def csaGet (w : World) (k : Nat) (rxr : Option KObj) (rxrV : Nat) (sg : Srv) : Except String (Option (KObj × Nat)) :=
  match w.inj k with
  | some e => if e == "notFound" then .ok none else .error (apiErr e)
  | none =>
    if w.getLive then .ok (sg.xr.map fun x => (x, sg.xrV))
    else .ok (rxr.map fun x => (x, rxrV))

/-- `client.Apply` after its Get (call `k`) answered `got`: Create | (Patch unless equal).
`d` is the desired XR, built from the XR as READ (`rxr`, version `rxrV`): it carries that version. -/
def csaAfterGet (w : World) (k : Nat) (d : KObj) (rxr : Option KObj) (rxrV : Nat)
    (cm1 : KObj) (cmV : Nat) (sg : Srv) (ws : List Write) : Option (KObj × Nat) → OutW
  | none =>
    let sc := applyActs sg (w.acts (k + 1))
    let ws' := ws ++ [.xrCreate d]
    match w.inj (k + 1) with
    | some e => { srv := sc, writes := ws', err := apiErr e, calls := k + 2 }
    | none =>
      if sc.xr.isSome then { srv := sc, writes := ws', err := apiErr "alreadyExists", calls := k + 2 }
      else if rxr.isSome then
        -- "resourceVersion should not be set on objects to be created"
        { srv := sc, writes := ws', err := apiErr "badRequest", calls := k + 2 }
      else
        let sc' : Srv := { sc with xr := some d, xrV := sc.xrV + 1, prev := none }
        csaBackW w (k + 2) cm1 cmV d sc' ws'
  | some (cur, curV) =>
    if rxr.isSome && curV == rxrV && kobjEqv cur d then
      -- nothing to do: the syncer's copy of the XR is what the Get returned
      csaBackW w (k + 1) cm1 cmV cur sg ws
    else
      let sp := applyActs sg (w.acts (k + 1))
      let ws' := ws ++ [.xrPatch d]
      match w.inj (k + 1) with
      | some e => { srv := sp, writes := ws', err := apiErr e, calls := k + 2 }
      | none =>
        match sp.xr with
        | none => { srv := sp, writes := ws', err := apiErr "notFound", calls := k + 2 }
        | some x =>
          if rxr.isSome && rxrV != sp.xrV then { srv := sp, writes := ws', err := apiErr "conflict", calls := k + 2 }
          else
            let x' := mergePatchXR x d
            let sp' : Srv := { sp with xr := some x', xrV := bump (!kobjSame x x') sp.xrV }
            csaBackW w (k + 2) cm1 cmV x' sp' ws'

/-- `client.Apply(xr, AllowUpdateIf(!cmp.Equal))` of crossplane-runtime's
APIPatchingApplicator: Get ; Create | (Patch unless equal). -/
def csaApplyW (w : World) (k : Nat) (d : KObj) (rxr : Option KObj) (rxrV : Nat)
    (cm1 : KObj) (cmV : Nat) (s : Srv) (ws : List Write) : OutW :=
  let sg := applyActs s (w.acts k)
  match csaGet w k rxr rxrV sg with
  | .error e => { srv := sg, writes := ws, err := e, calls := k + 1 }
  | .ok got => csaAfterGet w k d rxr rxrV cm1 cmV sg ws got

def syncCSAW (c : Cfg) (gen : String) (w : World) (rcm : KObj) (rcmV : Nat) (rxr : Option KObj) (rxrV : Nat) (s : Srv) : OutW :=
  match rcm.spec with
  | some (.obj cs) =>
    let d := csaDesired c gen rcm rxr cs
    if refIs c d.name cs then csaApplyW w 0 d rxr rxrV rcm rcmV s []
    else
      let body := csaBind c d.name rcm cs
      let s0 := applyActs s (w.acts 0)
      match claimWrite (w.inj 0) rcmV s0 (fun st => storeClaimUpdate st body) with
      | .error e => { srv := s0, writes := [.claimUpdate body], err := e, calls := 1 }
      | .ok s0' => csaApplyW w 1 d rxr rxrV s0'.cm s0'.cmV s0' [.claimUpdate body]
  | _ => { srv := s, err := "claimSpecNotObject" }

/-! ### after the sync -/

/-- the API server's pruning of nulls, with versions -/
def pruneNullsW (s : Srv) : Srv :=
  let cm' := dropNullSpec s.cm
  let s1 := { s with cm := cm', cmV := bump (!kobjSame s.cm cm') s.cmV }
  match s1.xr with
  | some x =>
    let x' := dropNullSpec x
    { s1 with xr := some x', xrV := bump (!kobjSame x x') s1.xrV }
  | none => s1

/-- `Srv.xr` is the XR the stored claim references: an XR a third party created under a
name the claim never came to reference is not this pair's -/
def normalizeW (s : Srv) : Srv :=
  match s.xr with
  | some x => if refName s.cm.specFields == some x.name then s else { s with xr := none, prev := none }
  | none => s

/-- out-of-band operations of a history, with versions -/
def stepEnvW (s : Srv) : Op → Srv
  | .editClaim d => applyAct s (.editClaim d)
  | .xrCtl d => applyAct s (.xrCtl d)
  | _ => s

/-! ### writes -/

def Write.isXR : Write → Bool
  | .xrApply _ => true
  | .xrCreate _ => true
  | .xrPatch _ => true
  | _ => false

def Write.body : Write → KObj
  | .claimUpdate b => b
  | .claimStatus b => b
  | .xrApply b => b
  | .xrCreate b => b
  | .xrPatch b => b

/-- a third party's write the API server admits (see `ValidOp`) -/
def ValidAct : Act → Prop
  | .editClaim d => ∀ k, owner k = .xrOnly → alookup k d.setSpec = none
  | _ => True

/-- the claim (and its version) after third parties alone have acted: `ClaimByEnv s s'`
when `s'`'s claim is `s`'s claim changed by third-party writes only -/
def ClaimByEnv (s s' : Srv) : Prop := ∃ l : List Act, (applyActs s l).cm = s'.cm ∧ (applyActs s l).cmV = s'.cmV

end Xp.C07

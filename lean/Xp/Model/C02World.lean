import Xp.Model.C01
/-
C02 — the XR world with a THIRD PARTY acting between two API calls of one reconcile.

The programs are the ones of `Xp.C01` (`reconcile`: composite/reconciler.go Reconcile with
FunctionComposer.Compose / PTComposer.Compose, ObserveComposedResources,
GarbageCollectComposedResources, AssociateTemplates, the two apply loops), unchanged and
shared with C01/C03. What this module adds is the part of the API server those programs rely on
when somebody else writes a composed resource between two of their calls:

 * **resourceVersions.** `client.Update` (the label clean-up in front of both garbage
   collectors' Delete) sends the object AS READ, with its resourceVersion; the API server
   answers 409 Conflict when the stored object has changed since. `W.stale` holds the composed
   resources whose stored resourceVersion differs from the copy the reconcile holds: a write by
   the third party puts the reference in, a Get of this reconcile that returns the object
   (and keeps the copy: the composers keep only copies of objects NOT controlled by somebody
   else) takes it out. `Req.gcUpdate` on a stale reference is refused with `.conflict`.
 * `client.Delete` carries no precondition, the P&T composer's `Apply` sends a JSON merge
   patch of the whole rendered object (its ownerReferences REPLACE the stored ones) without a
   resourceVersion, the function composer's server-side apply is validated by the API server
   (a second controller reference ⇒ Invalid). These are `Xp.C01.exec`'s, except that a merge
   patch of an object that is foreign by now goes through (it never happens in `Xp.C01`
   without a third party: `applyPT` reads the object first).
 * `W.mine` (ghost, written by no request of the third party): the references some Get of
   THIS reconcile has returned not controlled by somebody else — "it was ours (or nobody's)
   at the deciding read".

The third party is an `Xp.Env W`: an arbitrary function applied before each call
(`Xp.runE`), constrained in the theorems only by `Rely` (whatever it changes becomes stale;
it cannot touch the ghost). `adopt` — put a foreign controller reference on one composed
resource — is the action the correspondence harness performs on the real store
(`Store.Mutate` in a `Before` hook).
-/
namespace Xp.C02World
open Xp.C01

structure W where
  base : St
  /-- ghost: references a Get of this reconcile returned NOT controlled by somebody else -/
  mine : List Ref := []
  /-- composed resources whose stored resourceVersion differs from the reconcile's copy -/
  stale : List Ref := []
  deriving Repr, Inhabited

/-- the composed resource a request writes without the API server looking at ownership
(`apply` and `create` are validated by the server itself: Invalid / AlreadyExists) -/
def target : Req → Option Ref
  | .gcUpdate k n => some ⟨k, n⟩
  | .delete k n => some ⟨k, n⟩
  | .mergePatch k n _ _ => some ⟨k, n⟩
  | _ => none

/-- the reference a reply hands the reconcile a usable copy of: a Get that returns an object
NOT controlled by somebody else (the composers drop or refuse the others) -/
def readFound : Req → Resp → Option Ref
  | .getObj k n, .found o => if o.ctrl = .other then none else some ⟨k, n⟩
  | .getCached k n, .found o => if o.ctrl = .other then none else some ⟨k, n⟩
  | _, _ => none

/-- what a reply does to the ghost … -/
def mineAfter (m : List Ref) (r : Req) (resp : Resp) : List Ref :=
  match readFound r resp with
  | some x => if x ∈ m then m else x :: m
  | none => m

/-- … and to the staleness of the reconcile's copies: the copy just read is current -/
def staleAfter (st : List Ref) (r : Req) (resp : Resp) : List Ref :=
  match readFound r resp with
  | some x => st.filter (· ≠ x)
  | none => st

def lift (w : W) (r : Req) : W × Resp :=
  ({ w with base := (C01.exec w.base r).1 }, (C01.exec w.base r).2)

/-- the API server: `Xp.C01.exec` plus optimistic concurrency on the label clean-up Update and
the merge patch that replaces a foreign controller reference -/
def exec (w : W) (r : Req) : W × Resp :=
  match r with
  | .gcUpdate k n =>
    if (⟨k, n⟩ : Ref) ∈ w.stale ∧ (findObj w.base.objs k n).isSome then (w, .conflict) else lift w r
  | .mergePatch k n a c =>
    match findObj w.base.objs k n with
    | some o =>
      if o.ctrl = .other ∧ c ≠ invalidContent then
        ({ w with base := { w.base with objs := mapObj w.base.objs k n (fun o => { o with annot := a, ctrl := .xr, content := c }) } }, .ok)
      else lift w r
    | none => lift w r
  | _ =>
    let p := lift w r
    ({ p.1 with mine := mineAfter w.mine r p.2, stale := staleAfter w.stale r p.2 }, p.2)

def sem : Sem W Req Resp := ⟨exec, C01.sem.errResp⟩

/-- the third party takes the composed resource over: its controller reference now names
another owner (the API server bumps the resourceVersion: the reconcile's copy is stale) -/
def adopt (k n : String) (w : W) : W :=
  match findObj w.base.objs k n with
  | some o =>
    if o.ctrl = .other then w
    else { w with base := { w.base with objs := mapObj w.base.objs k n (fun o => { o with ctrl := .other }) },
                  stale := ⟨k, n⟩ :: w.stale }
  | none => w

/-- the third party's schedule the correspondence driver replays: one adoption before call `i` -/
def adoptAt (i : Nat) (k n : String) : Env W := fun j w => if j = i then adopt k n w else w

/-- is the composed resource controlled by somebody else right now? -/
def foreignAt (w : W) (x : Ref) : Bool :=
  w.base.objs.any fun o => o.kind == x.kind && o.name == x.name && o.ctrl == .other

end Xp.C02World

import Xp.Base.Prog
/-
C02, site "an XRD defining its CRDs".

Call-by-call model of
  internal/controller/apiextensions/definition/reconciler.go  Reconciler.Reconcile
  internal/controller/apiextensions/offered/reconciler.go     Reconciler.Reconcile
run with their default engine (NopEngine: Stop/Start do nothing, IsRunning = true), together
with crossplane-runtime's APIFinalizer and APIUpdatingApplicator
(`r.client.Apply(ctx, crd, MustBeControllableBy(d.GetUID()), StoreCurrentRV(..))`:
Get; NotFound → Create; apply options on the current object; Update at the current
resourceVersion with the WHOLE rendered object, i.e. owner references, finalizers and spec are
replaced, the status is kept).

Store: the XRD (deleting?, the finalizer of the reconciler under test, another finalizer,
offers a claim?, the reconciler's status condition, resourceVersion) and the slot of the CRD
with the derived name (controller ∈ {this XRD, another owner, nobody}, a plain owner
reference, body ∈ {what the XRD renders to, something else}, Established, finalizer,
deleting, resourceVersion). `next` is the API server's resourceVersion counter.

Both reconcilers have the same shape; they differ in the CRD they render (the offered
reconciler cannot render anything for an XRD without claim names) and in how they remove the
defined instances before deleting a CRD they control.
-/
namespace Xp.C02Crd

inductive Which where
  | definition | offered
  deriving DecidableEq, Repr, Inhabited

inductive Ctrl where
  | xrd     -- controller reference to this XRD (same UID)
  | other   -- controller reference to any other UID
  | none    -- no controller reference
  deriving DecidableEq, Repr, Inhabited

inductive Body where
  | rendered | old
  deriving DecidableEq, Repr, Inhabited

/-- the reconciler's own status condition of the XRD (Established resp. Offered) -/
inductive Cond where
  | none | watching | terminating
  deriving DecidableEq, Repr, Inhabited

structure XRD where
  del   : Bool
  fin   : Bool   -- finalizer of the reconciler under test
  ofin  : Bool   -- some other finalizer
  claim : Bool   -- spec.claimNames set
  cond  : Cond
  rv    : Nat
  deriving DecidableEq, Repr, Inhabited

structure CRD where
  ctrl  : Ctrl
  plain : Bool   -- an additional non-controller owner reference
  body  : Body
  est   : Bool
  fin   : Bool
  del   : Bool
  rv    : Nat
  deriving DecidableEq, Repr, Inhabited

structure St where
  xrd  : Option XRD
  crd  : Option CRD
  next : Nat
  deriving DecidableEq, Repr, Inhabited

inductive Req where
  | getXRD
  /-- metadata update of the XRD as read at `rv`: the reconciler's finalizer present / absent -/
  | updateXRD (fin : Bool) (rv : Nat)
  /-- status update of the XRD as read at `rv`: set the reconciler's condition -/
  | statusXRD (c : Cond) (rv : Nat)
  | getCRD
  /-- create the rendered CRD (controller reference to the XRD) -/
  | createCRD
  /-- update the CRD read at `rv` with the rendered object -/
  | updateCRD (rv : Nat)
  | deleteCRD
  /-- DeleteAllOf / List of the instances the CRD defines (none exist in this model) -/
  | deleteInstances
  | listInstances
  deriving DecidableEq, Repr, Inhabited

inductive Resp where
  | xrd (x : Option XRD)
  | crd (c : Option CRD)
  /-- a write was accepted: the object's resourceVersion afterwards and (CRDs) Established -/
  | wrote (rv : Nat) (est : Bool)
  | done            -- delete / deleteAllOf / list went through
  | notFound
  | exists
  | conflict
  | err
  deriving DecidableEq, Repr, Inhabited

def Req.isWrite : Req → Bool
  | .getXRD | .getCRD | .listInstances => false
  | _ => true

/-- a deleting object whose last finalizer is gone disappears -/
def settleXRD (x : XRD) : Option XRD := if x.del && !x.fin && !x.ofin then none else some x
def settleCRD (c : CRD) : Option CRD := if c.del && !c.fin then none else some c

/-- what an Update with the rendered object turns a stored CRD into (resourceVersion aside) -/
def renderedOver (c : CRD) : CRD :=
  { c with ctrl := .xrd, plain := false, body := .rendered, fin := false }

def exec (s : St) : Req → St × Resp
  | .getXRD => (s, .xrd s.xrd)
  | .updateXRD fin rv =>
    match s.xrd with
    | none => (s, .notFound)
    | some x =>
      if x.rv ≠ rv then (s, .conflict)
      else if x.fin = fin then (s, .wrote x.rv false)
      else
        let x' := { x with fin := fin, rv := s.next + 1 }
        ({ s with xrd := settleXRD x', next := s.next + 1 }, .wrote (s.next + 1) false)
  | .statusXRD c rv =>
    match s.xrd with
    | none => (s, .notFound)
    | some x =>
      if x.rv ≠ rv then (s, .conflict)
      else if x.cond = c then (s, .wrote x.rv false)
      else ({ s with xrd := some { x with cond := c, rv := s.next + 1 }, next := s.next + 1 }, .wrote (s.next + 1) false)
  | .getCRD => (s, .crd s.crd)
  | .createCRD =>
    match s.crd with
    | some _ => (s, .exists)
    | none =>
      ({ s with crd := some ⟨.xrd, false, .rendered, false, false, false, s.next + 1⟩, next := s.next + 1 },
       .wrote (s.next + 1) false)
  | .updateCRD rv =>
    match s.crd with
    | none => (s, .notFound)
    | some c =>
      if c.rv ≠ rv then (s, .conflict)
      else if renderedOver c = c then (s, .wrote c.rv c.est)
      else
        ({ s with crd := settleCRD { renderedOver c with rv := s.next + 1 }, next := s.next + 1 },
         .wrote (s.next + 1) c.est)
  | .deleteCRD =>
    match s.crd with
    | none => (s, .notFound)
    | some c =>
      if c.fin then
        if c.del then (s, .done)
        else ({ s with crd := some { c with del := true, rv := s.next + 1 }, next := s.next + 1 }, .done)
      else ({ s with crd := none }, .done)
  | .deleteInstances => (s, .done)
  | .listInstances => (s, .done)

/-- the reply of a call that was not applied: injected conflicts exist for writes only -/
def errResp (o : Outcome) (r : Req) : Resp :=
  match o with
  | .conflict => if r.isWrite then .conflict else .err
  | _ => .err

def sem : Sem St Req Resp := ⟨exec, errResp⟩

inductive Res where
  | ok | requeue | err
  deriving DecidableEq, Repr, Inhabited

abbrev P := Prog Req Resp Res

/-- APIFinalizer.RemoveFinalizer, as called on the deletion path:
conflict → requeue, NotFound ignored, other errors surface. -/
def removeFinalizer (d : XRD) : P :=
  if d.fin then
    .call (.updateXRD false d.rv) fun
      | .wrote _ _ => .ret .ok
      | .notFound => .ret .ok
      | .conflict => .ret .requeue
      | _ => .ret .err
  else .ret .ok

/-- deletion of a CRD the XRD controls: the defined instances first
(definition: DeleteAllOf + List, offered: List), then the CRD; always requeue. -/
def deleteControlled : Which → P
  | .definition =>
    .call .deleteInstances fun
      | .done | .notFound =>
        .call .listInstances fun
          | .done =>
            .call .deleteCRD fun
              | .done | .notFound => .ret .requeue
              | _ => .ret .err
          | _ => .ret .err
      | _ => .ret .err
  | .offered =>
    .call .listInstances fun
      | .done =>
        .call .deleteCRD fun
          | .done | .notFound => .ret .requeue
          | _ => .ret .err
      | _ => .ret .err

/-- `meta.WasDeleted(d)` branch. The guard: the CRD is deleted only if it exists and
`metav1.IsControlledBy(crd, d)`; otherwise the finalizer is removed and the CRD orphaned. -/
def deletion (w : Which) (d : XRD) : P :=
  .call (.statusXRD .terminating d.rv) fun
    | .wrote rv _ =>
      .call .getCRD fun
        | .crd none => removeFinalizer { d with rv := rv }
        | .crd (some c) =>
          if c.ctrl = .xrd then deleteControlled w else removeFinalizer { d with rv := rv }
        | _ => .ret .err
    | .conflict => .ret .requeue
    | _ => .ret .err

/-- what follows a successful Apply: wait for Established, then (engine running) report Watching -/
def afterApply (d : XRD) (est : Bool) : P :=
  if est then
    .call (.statusXRD .watching d.rv) fun
      | .wrote _ _ => .ret .ok
      | _ => .ret .err
  else .ret .requeue

/-- APIUpdatingApplicator.Apply(crd, MustBeControllableBy(uid(d)), StoreCurrentRV) and the
reconciler's handling of its error -/
def applyCRD (d : XRD) : P :=
  .call .getCRD fun
    | .crd none =>
      .call .createCRD fun
        | .wrote _ est => afterApply d est
        | .conflict => .ret .requeue
        | _ => .ret .err
    | .crd (some c) =>
      if c.ctrl = .other then .ret .err      -- MustBeControllableBy: not controllable → error, no write
      else
        .call (.updateCRD c.rv) fun
          | .wrote _ est => afterApply d est
          | .conflict => .ret .requeue
          | _ => .ret .err
    | _ => .ret .err

/-- live XRD: AddFinalizer (APIFinalizer: no call if present), then Apply -/
def live (d : XRD) : P :=
  if d.fin then applyCRD d
  else
    .call (.updateXRD true d.rv) fun
      | .wrote rv _ => applyCRD { d with fin := true, rv := rv }
      | .conflict => .ret .requeue
      | _ => .ret .err

def reconcile (w : Which) : P :=
  .call .getXRD fun
    | .xrd none => .ret .ok                                   -- IgnoreNotFound
    | .xrd (some d) =>
      if w = .offered ∧ d.claim = false then .ret .err        -- cannot render a claim CRD
      else if d.del then deletion w d
      else live d
    | _ => .ret .err

end Xp.C02Crd

import Xp.Model.C07World
/-
C07: labels and annotations - which cross between claim and XR, in which direction.
Predicates the theorems of Props/C07.lean are stated with.
-/
namespace Xp.C07
open Xp

/-- What a claim write may carry as metadata: the claim's own name and labels, and its own
annotations except that the external name is `en` (the XR's) when `en` is not empty.
Nothing else of the XR's metadata reaches the claim. -/
def ClaimMetaOf (cm : KObj) (en : String) (b : KObj) : Prop :=
  b.name = cm.name ∧ b.labels = cm.labels ∧
  ∀ k, alookup k b.anns = if k = extNameKey ∧ en ≠ "" then some en else alookup k cm.anns

/-- the configuration last applied by the claim controller's field manager carries no
Kubernetes-reserved label or annotation -/
def PrevClean (prev : Option KObj) : Prop :=
  ∀ q, prev = some q → ∀ k, reserved k = true → alookup k q.labels = none ∧ alookup k q.anns = none

end Xp.C07

import Xp.Base.Prog
/-
C20 model: Crossplane's initialisation (internal/initializer/*.go, the step list of
cmd/crossplane/core/init.go, internal/xpkg/name.go ToDNSLabel) as `Xp.Prog`
programs over an abstract cluster store.

Every `client.Get/List/Create/Update/Patch/Status().Patch` of the Go functions is
one `call`, in the same order, with the same early returns.

Abstractions (DESIGN.md section 8):
* TLS bytes are `Blob`s: a certificate is (key pair, signing key pair, DNS names,
  CA flag); certificate generation is a parameter `Generator` (assumed to sign
  with the signer it is given, see `Generator.Sound`); x509 itself is not modelled.
* Image references are parsed by the harness (go-containerregistry) and arrive as
  `Ref` = (registry, repository, identifier, `str` = ref.String()); `src` =
  xpkg.ParsePackageSourceFromReference(ref) is computed by the model (`parseSource`).
* A CRD / webhook configuration is the part a merge patch of the file's object
  can change (`content`, `versions`, conversion strategy, caBundle, webhooks) plus
  `extra` (everything the file does not declare: labels, status, ...).
* Server side: `exec` below (create fails on an existing name, update carries the
  object it was computed from = resourceVersion precondition, a merge patch only
  touches declared fields).
-/
namespace Xp.C20

/-! ### abstract objects -/

structure CertInfo where
  kp : Nat            -- key pair of the certificate (its identity)
  signedBy : Nat      -- key pair whose private key signed it
  dns : List String
  ca : Bool
  deriving DecidableEq, Repr, Inhabited

inductive Blob where
  | empty
  | junk (n : Int)
  | cert (c : CertInfo)
  | key (kp : Nat)
  deriving DecidableEq, Repr, Inhabited

structure Secret where
  name : String
  crt : Blob      -- data["tls.crt"]
  key : Blob      -- data["tls.key"]
  ca : Blob       -- data["ca.crt"]
  others : Int    -- every other data key (opaque)
  lbl : Int       -- labels etc. (opaque)
  deriving DecidableEq, Repr, Inhabited

inductive PKind where
  | provider | configuration | function
  deriving DecidableEq, Repr, Inhabited

structure Ref where
  reg : String
  repo : String
  ident : String
  digest : Bool
  str : String   -- ref.String()
  src : String   -- xpkg.ParsePackageSourceFromReference(ref)
  deriving DecidableEq, Repr, Inhabited

structure Pkg where
  kind : PKind
  name : String
  raw : String          -- spec.package
  ref : Option Ref      -- what the reference parser makes of `raw` (none: not a valid reference)
  extra : Int           -- every other field (opaque)
  deriving DecidableEq, Repr, Inhabited

structure Crd where
  name : String
  content : Int
  versions : List (String × Bool)   -- (name, storage)
  conv : Bool                       -- spec.conversion.strategy = Webhook
  bundle : Blob                     -- spec.conversion.webhook.clientConfig.caBundle
  stored : List String              -- status.storedVersions
  extra : Int
  deriving DecidableEq, Repr, Inhabited

structure Svc where
  name : String
  ns : String
  port : Int
  deriving DecidableEq, Repr, Inhabited

structure Hook where
  name : String
  bundle : Blob
  svc : Svc
  deriving DecidableEq, Repr, Inhabited

inductive WKind where
  | validating | mutating
  deriving DecidableEq, Repr, Inhabited

structure Whc where
  kind : WKind
  name : String
  hooks : List Hook
  extra : Int
  deriving DecidableEq, Repr, Inhabited

structure Cr where
  crd : String
  name : String
  payload : Int
  deriving DecidableEq, Repr, Inhabited

structure Store where
  secrets : List Secret
  pkgs : List Pkg
  crds : List Crd
  whcs : List Whc
  crs : List Cr
  lock : Option Int              -- the Lock "lock" (payload: its packages)
  sc : Option (String × Int)     -- StoreConfig "default": (defaultScope, extra)
  drc : Option Int               -- DeploymentRuntimeConfig "default"
  deriving DecidableEq, Repr, Inhabited

/-! ### files and configuration -/

structure CrdFile where
  name : String
  content : Int
  versions : List (String × Bool)
  conv : Bool
  deriving DecidableEq, Repr, Inhabited

structure WhcFile where
  kind : WKind
  name : String
  hooks : List String
  deriving DecidableEq, Repr, Inhabited

inductive FileObj where
  | crd (f : CrdFile)
  | whc (f : WhcFile)
  | other
  deriving DecidableEq, Repr, Inhabited

structure Dir where
  parseErr : Bool
  objs : List FileObj
  deriving DecidableEq, Repr, Inhabited

structure TlsRef where
  name : String
  dns : List String
  deriving DecidableEq, Repr, Inhabited

structure Img where
  img : String
  ref : Option Ref
  deriving DecidableEq, Repr, Inhabited

/-! ### API -/

inductive Req where
  | getSecret (n : String)
  | createSecret (s : Secret)
  | updateSecret (old new : Secret)     -- Update of the object read as `old` (resourceVersion precondition)
  | listPkgs (k : PKind)
  | getPkg (k : PKind) (n : String)
  | createPkg (p : Pkg)
  | patchPkg (k : PKind) (n : String) (r : Ref)
  | getCrd (n : String)
  | createCrd (c : Crd)
  | patchCrd (f : CrdFile) (cb : Blob)
  | getWhc (k : WKind) (n : String)
  | createWhc (w : Whc)
  | patchWhc (k : WKind) (n : String) (hooks : List Hook)
  | listCrs (crd : String)
  | patchCr (crd n : String)                        -- the empty merge patch
  | patchCrdStored (n : String) (vs : List String)  -- Status().Patch of storedVersions
  | getLock
  | createLock
  | patchLock
  | createSc (scope : String)
  | createDrc
  deriving Repr, Inhabited

inductive Err where
  | notFound | alreadyExists | conflict | other
  deriving DecidableEq, Repr, Inhabited

inductive Resp where
  | ok
  | err (e : Err)
  | secret (s : Secret)
  | pkgs (l : List Pkg)
  | pkg (p : Pkg)
  | crd (c : Crd)
  | whc (w : Whc)
  | crs (l : List Cr)
  | lock (n : Int)
  deriving Repr, Inhabited

def findSecret (s : Store) (n : String) : Option Secret := s.secrets.find? (·.name = n)
def findPkg (s : Store) (k : PKind) (n : String) : Option Pkg := s.pkgs.find? (fun p => p.kind = k ∧ p.name = n)
def findCrd (s : Store) (n : String) : Option Crd := s.crds.find? (·.name = n)
def findWhc (s : Store) (k : WKind) (n : String) : Option Whc := s.whcs.find? (fun w => w.kind = k ∧ w.name = n)

/-- insertion sort by name (the API server lists in key order) -/
def insertBy {α : Type} (le : α → α → Bool) (x : α) : List α → List α
  | [] => [x]
  | y :: ys => if le x y then x :: y :: ys else y :: insertBy le x ys

def sortBy {α : Type} (le : α → α → Bool) : List α → List α
  | [] => []
  | x :: xs => insertBy le x (sortBy le xs)

def strLe (a b : String) : Bool := decide (a ≤ b)

/-- what a merge patch of the file's CRD does to a stored CRD -/
def patchCrdWith (f : CrdFile) (cb : Blob) (c : Crd) : Crd :=
  { c with content := f.content, versions := f.versions, conv := c.conv || f.conv,
           bundle := if f.conv then cb else c.bundle }

def newCrd (f : CrdFile) (cb : Blob) : Crd :=
  { name := f.name, content := f.content, versions := f.versions, conv := f.conv,
    bundle := if f.conv then cb else .empty, stored := [], extra := 0 }

/-- `webhooks` is omitted from the patch when the file declares none -/
def patchWhcWith (hooks : List Hook) (w : Whc) : Whc :=
  if hooks = [] then w else { w with hooks := hooks }

def exec (s : Store) : Req → Store × Resp
  | .getSecret n => (s, match findSecret s n with | some x => .secret x | none => .err .notFound)
  | .createSecret x =>
    match findSecret s x.name with
    | some _ => (s, .err .alreadyExists)
    | none => ({ s with secrets := s.secrets ++ [x] }, .ok)
  | .updateSecret old new =>
    match findSecret s new.name with
    | none => (s, .err .notFound)
    | some cur =>
      if cur = old then ({ s with secrets := s.secrets.map fun x => if x.name = new.name then new else x }, .ok)
      else (s, .err .conflict)
  | .listPkgs k => (s, .pkgs (sortBy (fun a b => strLe a.name b.name) (s.pkgs.filter (·.kind = k))))
  | .getPkg k n => (s, match findPkg s k n with | some p => .pkg p | none => .err .notFound)
  | .createPkg p =>
    match findPkg s p.kind p.name with
    | some _ => (s, .err .alreadyExists)
    | none => ({ s with pkgs := s.pkgs ++ [p] }, .ok)
  | .patchPkg k n r =>
    match findPkg s k n with
    | none => (s, .err .notFound)
    | some _ => ({ s with pkgs := s.pkgs.map fun p => if p.kind = k ∧ p.name = n then { p with raw := r.str, ref := some r } else p }, .ok)
  | .getCrd n => (s, match findCrd s n with | some c => .crd c | none => .err .notFound)
  | .createCrd c =>
    match findCrd s c.name with
    | some _ => (s, .err .alreadyExists)
    | none => ({ s with crds := s.crds ++ [c] }, .ok)
  | .patchCrd f cb =>
    match findCrd s f.name with
    | none => (s, .err .notFound)
    | some _ => ({ s with crds := s.crds.map fun c => if c.name = f.name then patchCrdWith f cb c else c }, .ok)
  | .getWhc k n => (s, match findWhc s k n with | some w => .whc w | none => .err .notFound)
  | .createWhc w =>
    match findWhc s w.kind w.name with
    | some _ => (s, .err .alreadyExists)
    | none => ({ s with whcs := s.whcs ++ [w] }, .ok)
  | .patchWhc k n hooks =>
    match findWhc s k n with
    | none => (s, .err .notFound)
    | some _ => ({ s with whcs := s.whcs.map fun w => if w.kind = k ∧ w.name = n then patchWhcWith hooks w else w }, .ok)
  | .listCrs crd => (s, .crs (sortBy (fun a b => strLe a.name b.name) (s.crs.filter (·.crd = crd))))
  | .patchCr crd n => (s, if s.crs.any (fun c => c.crd = crd ∧ c.name = n) then .ok else .err .notFound)
  | .patchCrdStored n vs =>
    match findCrd s n with
    | none => (s, .err .notFound)
    | some _ => ({ s with crds := s.crds.map fun c => if c.name = n then { c with stored := vs } else c }, .ok)
  | .getLock => (s, match s.lock with | some n => .lock n | none => .err .notFound)
  | .createLock =>
    match s.lock with
    | some _ => (s, .err .alreadyExists)
    | none => ({ s with lock := some 0 }, .ok)
  | .patchLock => (s, match s.lock with | some _ => .ok | none => .err .notFound)
  | .createSc scope =>
    match s.sc with
    | some _ => (s, .err .alreadyExists)
    | none => ({ s with sc := some (scope, 0) }, .ok)
  | .createDrc =>
    match s.drc with
    | some _ => (s, .err .alreadyExists)
    | none => ({ s with drc := some 0 }, .ok)

def sem : Sem Store Req Resp where
  exec := exec
  errResp := fun _ _ => .err .other

/-- The API server whose refused calls are answered with an error of class `e` (NotFound, AlreadyExists,
Conflict, or anything else: Forbidden, Invalid, Unauthorized, TooManyRequests, a timeout, a transport error, a
context deadline are all `.other` – no step distinguishes them). `sem` is the case `.other`. -/
def semK (e : Err) : Sem Store Req Resp where
  exec := exec
  errResp := fun _ _ => .err e

/-- The API server whose refused calls are answered with ANY reply whatsoever (`er`: any class of error, even a
made-up success or a made-up object). The safety theorems of the last section of Props/C20.lean hold for every `er`. -/
def semAny (er : Outcome → Req → Resp) : Sem Store Req Resp where
  exec := exec
  errResp := er

/-! ### programs -/

inductive Res where
  | ok
  | err (tag : String)
  deriving DecidableEq, Repr, Inhabited

abbrev P := Prog Req Resp

/-- run `body` on each element, stop at the first error -/
def forEach {α : Type} (body : α → P Res) : List α → P Res
  | [] => .ret .ok
  | x :: xs => Prog.bind (body x) fun r => match r with
    | .ok => forEach body xs
    | e => .ret e

/-- expect a plain success reply -/
def okOr (tag : String) : Resp → P Res
  | .ok => .ret .ok
  | _ => .ret (.err tag)

/-! #### TLS (tls.go) -/

structure Signer where
  key : Nat
  cert : CertInfo
  deriving DecidableEq, Repr, Inhabited

/-- The certificate generator: DNS names, CA flag, signer (none = self-signed), nonce ↦ (key pair, certificate). -/
abbrev Generator := List String → Bool → Option Signer → Nat → Option (Nat × CertInfo)

/-- "signs with the signer it is given": the certificate is for the fresh key pair, carries the
requested names, is signed by the signer's key (its own when self-signed), and – like
x509.CreateCertificate – the generator refuses a signer whose key does not match its certificate. -/
structure Generator.Sound (g : Generator) : Prop where
  kp : ∀ dns ca sg n kp c, g dns ca sg n = some (kp, c) → c.kp = kp ∧ c.dns = dns ∧ c.ca = ca
  self : ∀ dns ca n kp c, g dns ca none n = some (kp, c) → c.signedBy = kp
  signed : ∀ dns ca sg n kp c, g dns ca (some sg) n = some (kp, c) → c.signedBy = sg.key ∧ sg.key = sg.cert.kp

/-- the generator used when replaying real runs: key pair = nonce -/
def stdGen : Generator := fun dns ca sg n =>
  match sg with
  | none => some (n, ⟨n, n, dns, ca⟩)
  | some s => if s.key = s.cert.kp then some (n, ⟨n, s.key, dns, ca⟩) else none

/-- parseCertificateSigner -/
def parseSigner (kd cd : Blob) : Option Signer :=
  match kd, cd with
  | .key k, .cert c => some ⟨k, c⟩
  | _, _ => none

def blankSecret (n : String) : Secret := ⟨n, .empty, .empty, .empty, 0, 0⟩

def writeSecret (old : Option Secret) (new : Secret) : Req :=
  match old with
  | some o => .updateSecret o new
  | none => .createSecret new

def caSecret (caName : String) (old : Option Secret) (kp : Nat) (c : CertInfo) : Secret :=
  { (old.getD (blankSecret caName)) with name := caName, crt := .cert c, key := .key kp, ca := .empty, others := 0 }

def leafSecret (name : String) (old : Option Secret) (kp : Nat) (c : CertInfo) (signer : Signer) : Secret :=
  { (old.getD (blankSecret name)) with name := name, crt := .cert c, key := .key kp, ca := .cert signer.cert }

/-- the generating branch of loadOrGenerateCA; `old` = the incomplete secret that was read
(`caSecret.Data = map[...]` replaces the whole data map) -/
def genCA (g : Generator) (caName : String) (old : Option Secret) (n : Nat) : P (Option Signer × Nat) :=
  match g ["crossplane-root-ca"] true none n with
  | none => .ret (none, n + 1)
  | some (kp, c) =>
    .call (writeSecret old (caSecret caName old kp c)) fun r =>
      match r with
      | .ok => .ret (some ⟨kp, c⟩, n + 1)
      | _ => .ret (none, n + 1)

def hasMaterial (s : Secret) : Bool := s.crt ≠ .empty || s.key ≠ .empty || s.ca ≠ .empty
def isComplete (s : Secret) : Bool := s.key ≠ .empty && s.crt ≠ .empty

/-- loadOrGenerateCA -/
def loadOrGenerateCA (g : Generator) (caName : String) (n : Nat) : P (Option Signer × Nat) :=
  .call (.getSecret caName) fun r =>
    match r with
    | .err .notFound => genCA g caName none n
    | .secret sec => if isComplete sec then .ret (parseSigner sec.key sec.crt, n) else genCA g caName (some sec) n
    | _ => .ret (none, n)

/-- the generating branch of ensureServerCertificate / ensureClientCertificate; `old` = the secret that was read -/
def issueLeaf (g : Generator) (ref : TlsRef) (signer : Signer) (n : Nat) (old : Option Secret) : P (Res × Nat) :=
  if ref.dns = [] then .ret (.err "tls: no DNS names", n) else
  match g ref.dns false (some signer) n with
  | none => .ret (.err "tls: generate", n + 1)
  | some (kp, c) =>
    .call (writeSecret old (leafSecret ref.name old kp c signer)) fun r =>
      match r with
      | .ok => .ret (.ok, n + 1)
      | _ => .ret (.err "tls: write", n + 1)

/-- ensureServerCertificate / ensureClientCertificate (they differ in key usage only) -/
def ensureLeaf (g : Generator) (ref : TlsRef) (signer : Signer) (n : Nat) : P (Res × Nat) :=
  .call (.getSecret ref.name) fun r =>
    match r with
    | .err .notFound => issueLeaf g ref signer n none
    | .secret sec => if hasMaterial sec then .ret (.ok, n) else issueLeaf g ref signer n (some sec)
    | _ => .ret (.err "tls: get", n)

def ensureOpt (g : Generator) (ref : Option TlsRef) (signer : Signer) (n : Nat) : P (Res × Nat) :=
  match ref with
  | none => .ret (.ok, n)
  | some r => ensureLeaf g r signer n

/-- TLSCertificateGenerator.Run -/
def tlsStep (g : Generator) (caName : String) (server client : Option TlsRef) (n : Nat) : P (Res × Nat) :=
  if server.isNone && client.isNone then .ret (.ok, n) else
  Prog.bind (loadOrGenerateCA g caName n) fun (sg, n) =>
    match sg with
    | none => .ret (.err "tls: signer", n)
    | some sg =>
      Prog.bind (ensureOpt g server sg n) fun (r, n) =>
        match r with
        | .ok => ensureOpt g client sg n
        | e => .ret (e, n)

/-! #### CRDs and webhook configurations (crds.go, webhook_configurations.go) -/

/-- Get the TLS secret and take tls.crt as the CA bundle -/
def getBundle (ref : String) : P (Option Blob) :=
  .call (.getSecret ref) fun r =>
    match r with
    | .secret s => if s.crt = .empty then .ret none else .ret (some s.crt)
    | _ => .ret none

/-- resource.APIPatchingApplicator.Apply for a CRD -/
def applyCrd (f : CrdFile) (cb : Blob) : P Res :=
  .call (.getCrd f.name) fun r =>
    match r with
    | .err .notFound => .call (.createCrd (newCrd f cb)) (okOr "crds: create")
    | .crd _ => .call (.patchCrd f cb) (okOr "crds: patch")
    | _ => .ret (.err "crds: get")

def crdsBody (d : Dir) (cb : Blob) : P Res :=
  if d.parseErr then .ret (.err "crds: parse") else
  forEach (fun o => match o with
    | .crd f => if f.conv && cb = .empty then .ret (.err "crds: conversion without TLS") else applyCrd f cb
    | _ => .ret (.err "crds: not a CRD")) d.objs

/-- CoreCRDs.Run -/
def crdsStep (tlsRef : Option String) (d : Dir) : P Res :=
  match tlsRef with
  | none => crdsBody d .empty
  | some ref => Prog.bind (getBundle ref) fun b =>
    match b with
    | none => .ret (.err "crds: bundle")
    | some cb => crdsBody d cb

def whcName (f : WhcFile) : String :=
  if f.kind = .mutating ∨ f.name = "validating-webhook-configuration" then "crossplane" else f.name

def desiredHooks (f : WhcFile) (cb : Blob) (svc : Svc) : List Hook := f.hooks.map fun h => ⟨h, cb, svc⟩

def applyWhc (f : WhcFile) (cb : Blob) (svc : Svc) : P Res :=
  .call (.getWhc f.kind (whcName f)) fun r =>
    match r with
    | .err .notFound => .call (.createWhc ⟨f.kind, whcName f, desiredHooks f cb svc, 0⟩) (okOr "whcs: create")
    | .whc _ => .call (.patchWhc f.kind (whcName f) (desiredHooks f cb svc)) (okOr "whcs: patch")
    | _ => .ret (.err "whcs: get")

/-- WebhookConfigurations.Run -/
def whcsStep (tlsRef : String) (svc : Svc) (d : Dir) : P Res :=
  Prog.bind (getBundle tlsRef) fun b =>
    match b with
    | none => .ret (.err "whcs: bundle")
    | some cb =>
      if d.parseErr then .ret (.err "whcs: parse") else
      forEach (fun o => match o with
        | .whc f => applyWhc f cb svc
        | _ => .ret (.err "whcs: kind")) d.objs

/-! #### storage-version migration (crds_migrator.go) -/

def storageVersion (c : Crd) : String := ((c.versions.find? (·.2)).map (·.1)).getD ""

/-- "apply empty patch for storage version upgrade" to every listed resource -/
def migrateCrs (crd : String) (l : List Cr) : P Res :=
  forEach (fun (cr : Cr) => .call (.patchCr crd cr.name) (okOr "mig: patch")) l

/-- Status().Patch of storedVersions, then "one more check just to be sure" -/
def migrateFinish (crd storage : String) : P Res :=
  .call (.patchCrdStored crd [storage]) fun r =>
    match r with
    | .ok =>
      .call (.getCrd crd) fun r =>
        match r with
        | .crd c' => if c'.stored = [storage] then .ret .ok else .ret (.err "mig: check")
        | _ => .ret (.err "mig: get")
    | _ => .ret (.err "mig: status")

def migrateStep (crd old : String) : P Res :=
  .call (.getCrd crd) fun r =>
    match r with
    | .err .notFound => .ret .ok
    | .crd c =>
      if c.stored.contains old then
        .call (.listCrs crd) fun r =>
          match r with
          | .crs l =>
            Prog.bind (migrateCrs crd l) fun r =>
              match r with
              | .ok => migrateFinish crd (storageVersion c)
              | e => .ret e
          | _ => .ret (.err "mig: list")
      else .ret .ok
    | _ => .ret (.err "mig: get")

/-! #### Lock, StoreConfig, DeploymentRuntimeConfig -/

def lockStep : P Res :=
  .call .getLock fun r =>
    match r with
    | .err .notFound => .call .createLock (okOr "lock: create")
    | .lock _ => .call .patchLock (okOr "lock: patch")
    | _ => .ret (.err "lock: get")

def createIfAbsent (r : Req) (tag : String) : P Res :=
  .call r fun x =>
    match x with
    | .ok => .ret .ok
    | .err .alreadyExists => .ret .ok
    | _ => .ret (.err tag)

def scStep (ns : String) : P Res := createIfAbsent (.createSc ns) "sc"
def drcStep : P Res := createIfAbsent .createDrc "drc"

/-! #### package installer (installer.go) and xpkg.ToDNSLabel (name.go) -/

def trimDashes (cs : List Char) : List Char :=
  ((cs.dropWhile (· = '-')).reverse.dropWhile (· = '-')).reverse

def dnsGo (n : Nat) : Nat → List Char → List Char → List Char
  | _, [], acc => acc
  | i, c :: rest, acc =>
    let acc := if ('a' ≤ c ∧ c ≤ 'z') ∨ ('0' ≤ c ∧ c ≤ '9') then acc ++ [c] else acc
    let acc := if (c = '.' ∨ c = '/' ∨ c = ':' ∨ c = '-') ∧ i ≠ 0 ∧ i ≠ 62 ∧ i ≠ n - 1 then acc ++ ['-'] else acc
    if i = 62 then acc else dnsGo n (i + 1) rest acc

/-- xpkg.ToDNSLabel (on ASCII input, which image repositories are) -/
def toDNSLabel (s : String) : String :=
  String.ofList (trimDashes (dnsGo s.toList.length 0 s.toList []))

/-! ##### xpkg.ParsePackageSourceFromReference (name.go), over the characters of ref.String()

`ref.String()` is the reference AS WRITTEN (go-containerregistry keeps the original string), so the
function is pure string logic: `strings.Cut(s, "@")`, then cut at the last ':' iff it comes after the
last '/'. The driver computes `Ref.src` with `parseSource` from `Ref.str` (it is no longer an input
shipped by the harness), and the observation compares it with the real function per image. -/

/-- `before, _, _ := strings.Cut(s, "@")`: everything in front of the first `c` (all of it when there is none) -/
def cutAt (c : Char) : List Char → List Char
  | [] => []
  | x :: xs => if x = c then [] else x :: cutAt c xs

/-- `strings.LastIndex(s, c)` for a one-byte separator: -1 when absent -/
def lastIndex (c : Char) : List Char → Int
  | [] => -1
  | x :: xs =>
    let r := lastIndex c xs
    if 0 ≤ r then r + 1 else if x = c then 0 else -1

/-- xpkg.ParsePackageSourceFromReference on the characters of ref.String() -/
def parseSourceChars (cs : List Char) : List Char :=
  let s := cutAt '@' cs
  let i := lastIndex ':' s
  if i > lastIndex '/' s then s.take i.toNat else s

/-- xpkg.ParsePackageSourceFromReference(ref), as a function of ref.String() (ASCII, which valid references are) -/
def parseSource (str : String) : String := String.ofList (parseSourceChars str.toList)

/-- ParsePackageSourceFromReference as found at the pinned commit (D14):
`strings.TrimRight(strings.TrimSuffix(ref.String(), ref.Identifier()), ":@")` – the identifier of a reference with
tag AND digest is the digest, so the tag survives; an untagged repository ending in "latest" loses that suffix. -/
def parseSourceCharsDefective (str ident : List Char) : List Char :=
  let s := if ident.isSuffixOf str then str.take (str.length - ident.length) else str
  (s.reverse.dropWhile fun c => c = ':' ∨ c = '@').reverse

/-- A reference as written: `[host/]path[:tag][@digest]`. -/
structure Written where
  host : List Char            -- registry host as written ([] = none), may carry a port
  path : List Char            -- repository path as written
  tag : Option (List Char)
  digest : Option (List Char)
  deriving DecidableEq, Repr, Inhabited

def Written.repoChars (w : Written) : List Char :=
  (if w.host = [] then [] else w.host ++ ['/']) ++ w.path

def optPart (sep : Char) : Option (List Char) → List Char
  | some t => sep :: t
  | none => []

/-- the characters of the reference as written -/
def Written.chars (w : Written) : List Char :=
  w.repoChars ++ optPart ':' w.tag ++ optPart '@' w.digest

/-- what the reference grammar guarantees of the parts (all that the theorem needs): no '@' in front of the digest,
no '/' in a host, no ':' in a repository path, no ':' or '/' in a tag. A host may carry a port (`localhost:5000`). -/
def Written.WF (w : Written) : Prop :=
  '@' ∉ w.host ∧ '/' ∉ w.host ∧ '@' ∉ w.path ∧ ':' ∉ w.path ∧
  (∀ t, w.tag = some t → '@' ∉ t ∧ ':' ∉ t ∧ '/' ∉ t)

/-- the index `source ↦ object name` built from a package list; a later entry overrides an earlier one -/
def buildIndex : List Pkg → List (String × String)
  | [] => []
  | p :: ps =>
    match p.ref with
    | some r => buildIndex ps ++ [(r.src, p.name)]   -- searched front to back: the last listed package wins
    | none => buildIndex ps

def lookupIndex (m : List (String × String)) (k : String) : Option String := (m.find? (·.1 = k)).map (·.2)

/-- buildPack (repaired: looked up by the parsed source) -/
def resolve (m : List (String × String)) (r : Ref) : String :=
  (lookupIndex m r.src).getD (toDNSLabel r.repo)

/-- buildPack as found at the pinned commit (D9): looked up by the repository only -/
def resolveDefective (m : List (String × String)) (r : Ref) : String :=
  (lookupIndex m r.repo).getD (toDNSLabel r.repo)

/-- (object name, reference) for every image, or none if some image is not a valid reference -/
def buildAll (res : List (String × String) → Ref → String) (m : List (String × String)) : List Img → Option (List (String × Ref))
  | [] => some []
  | i :: is =>
    match i.ref with
    | none => none
    | some r => (buildAll res m is).map fun l => (res m r, r) :: l

def applyPkg (k : PKind) (nr : String × Ref) : P Res :=
  .call (.getPkg k nr.1) fun r =>
    match r with
    | .err .notFound => .call (.createPkg ⟨k, nr.1, nr.2.str, some nr.2, 0⟩) (okOr "install: create")
    | .pkg _ => .call (.patchPkg k nr.1 nr.2) (okOr "install: patch")
    | _ => .ret (.err "install: get")

def listOf (k : PKind) (cont : List Pkg → P Res) : P Res :=
  .call (.listPkgs k) fun r =>
    match r with
    | .pkgs l => cont l
    | .err .notFound => cont []
    | _ => .ret (.err "install: list")

/-- the apply loop of PackageInstaller.Run: providers, then configurations, then functions -/
def installApply (ps cs fs : List (String × Ref)) : P Res :=
  Prog.bind (forEach (applyPkg .provider) ps) fun r =>
    match r with
    | .ok => Prog.bind (forEach (applyPkg .configuration) cs) fun r =>
      match r with
      | .ok => forEach (applyPkg .function) fs
      | e => .ret e
    | e => .ret e

/-- PackageInstaller.Run after the three lists: buildPack for every image, then apply all -/
def installBody (res : List (String × String) → Ref → String) (p c f : List Img) (pl cl fl : List Pkg) : P Res :=
  match buildAll res (buildIndex pl) p with
  | none => .ret (.err "install: parse")
  | some ps =>
    match buildAll res (buildIndex cl) c with
    | none => .ret (.err "install: parse")
    | some cs =>
      match buildAll res (buildIndex fl) f with
      | none => .ret (.err "install: parse")
      | some fs => installApply ps cs fs

/-- PackageInstaller.Run, parametric in the lookup used by buildPack -/
def installWith (res : List (String × String) → Ref → String) (p c f : List Img) : P Res :=
  listOf .provider fun pl =>
  listOf .configuration fun cl =>
  listOf .function fun fl => installBody res p c f pl cl fl

def installStep := installWith resolve
def installStepDefective := installWith resolveDefective

/-! #### the initializer -/

inductive Step where
  | tls (ca : String) (server client : Option TlsRef)
  | crds (tlsRef : Option String) (d : Dir)
  | whcs (tlsRef : String) (svc : Svc) (d : Dir)
  | mig (crd old : String)
  | lock
  | install (p c f : List Img)
  | sc (ns : String)
  | drc
  deriving Repr, Inhabited

def withNonce (n : Nat) (p : P Res) : P (Res × Nat) := Prog.bind p fun r => .ret (r, n)

def Step.prog (g : Generator) (n : Nat) : Step → P (Res × Nat)
  | .tls ca s c => tlsStep g ca s c n
  | .crds ref d => withNonce n (crdsStep ref d)
  | .whcs ref svc d => withNonce n (whcsStep ref svc d)
  | .mig crd old => withNonce n (migrateStep crd old)
  | .lock => withNonce n lockStep
  | .install p c f => withNonce n (installStep p c f)
  | .sc ns => withNonce n (scStep ns)
  | .drc => withNonce n drcStep

/-- Initializer.Init: the steps in order, stop at the first error. Result: (outcome, next nonce, steps completed). -/
def runSteps (g : Generator) : List Step → Nat → Nat → P (Res × Nat × Nat)
  | [], n, d => .ret (.ok, n, d)
  | st :: rest, n, d => Prog.bind (st.prog g n) fun (r, n') =>
    match r with
    | .ok => runSteps g rest n' (d + 1)
    | e => .ret (e, n', d)

/-- the fields of core.initCommand -/
structure Cfg where
  ns : String
  sa : String
  webhook : Bool
  svcName : String
  svcNs : String
  svcPort : Int
  ca : String
  server : String
  client : String
  ess : String
  p : List Img
  c : List Img
  f : List Img
  crdDir : Dir
  whcDir : Dir
  deriving Repr, Inhabited

/-- initializer.DNSNamesForService -/
def dnsNamesForService (service ns : String) : List String :=
  [service, service ++ "." ++ ns, service ++ "." ++ ns ++ ".svc"]

def migrators : List (String × String) := [
  ("compositionrevisions.apiextensions.crossplane.io", "v1alpha1"),
  ("environmentconfigs.apiextensions.crossplane.io", "v1beta1"),
  ("usages.apiextensions.crossplane.io", "v1beta1"),
  ("functions.pkg.crossplane.io", "v1beta1"),
  ("functionrevisions.pkg.crossplane.io", "v1beta1"),
  ("locks.pkg.crossplane.io", "v1alpha1")]

/-- The step list built by core.initCommand.Run (cmd/crossplane/core/init.go). -/
def initSteps (c : Cfg) : List Step :=
  [Step.tls c.ca (if c.webhook then some ⟨c.server, dnsNamesForService c.svcName c.svcNs⟩ else none)
      (some ⟨c.client, [c.sa ++ "." ++ c.ns]⟩)]
  ++ (if c.webhook then
        [Step.crds (some c.server) c.crdDir, Step.whcs c.server ⟨c.svcName, c.svcNs, c.svcPort⟩ c.whcDir]
      else [Step.crds none c.crdDir])
  ++ migrators.map (fun m => Step.mig m.1 m.2)
  ++ (if c.ess ≠ "" then [Step.tls c.ca (some ⟨c.ess, ["*." ++ c.ns]⟩) none] else [])
  ++ [Step.lock, Step.install c.p c.c c.f, Step.sc c.ns, Step.drc]

/-- The transcript `initSteps` (and the harness's c20StepsOfCfg) was written from: the statements
of initCommand.Run from `var steps` on, as (guard, statement). `Xp.Gen.c20InitSkeleton` is
regenerated from the source on every run and `Props/C20.lean` proves the two equal. -/
def initSkeleton : List (String × String) := [
  ("", "var steps []initializer.Step"),
  ("", "tlsGeneratorOpts := []initializer.TLSCertificateGeneratorOption{ initializer.TLSCertificateGeneratorWithClientSecretName(c.TLSClientSecretName, []string{fmt.Sprintf(\"%s.%s\", c.ServiceAccount, c.Namespace)}), initializer.TLSCertificateGeneratorWithLogger(log.WithValues(\"Step\", \"TLSCertificateGenerator\")), }"),
  ("c.WebhookEnabled", "tlsGeneratorOpts = append(tlsGeneratorOpts, initializer.TLSCertificateGeneratorWithServerSecretName(c.TLSServerSecretName, initializer.DNSNamesForService(c.WebhookServiceName, c.WebhookServiceNamespace)))"),
  ("", "steps = append(steps, initializer.NewTLSCertificateGenerator(c.Namespace, c.TLSCASecretName, tlsGeneratorOpts...), )"),
  ("c.WebhookEnabled", "nn := types.NamespacedName{ Name: c.TLSServerSecretName, Namespace: c.Namespace, }"),
  ("c.WebhookEnabled", "svc := admv1.ServiceReference{ Name: c.WebhookServiceName, Namespace: c.WebhookServiceNamespace, Port: &c.WebhookServicePort, }"),
  ("c.WebhookEnabled", "steps = append(steps, initializer.NewCoreCRDs(\"/crds\", s, initializer.WithWebhookTLSSecretRef(nn)), initializer.NewWebhookConfigurations(\"/webhookconfigurations\", s, nn, svc))"),
  ("!(c.WebhookEnabled)", "steps = append(steps, initializer.NewCoreCRDs(\"/crds\", s), )"),
  ("", "steps = append(steps, initializer.NewCoreCRDsMigrator(\"compositionrevisions.apiextensions.crossplane.io\", \"v1alpha1\"), initializer.NewCoreCRDsMigrator(\"environmentconfigs.apiextensions.crossplane.io\", \"v1beta1\"), initializer.NewCoreCRDsMigrator(\"usages.apiextensions.crossplane.io\", \"v1beta1\"), initializer.NewCoreCRDsMigrator(\"functions.pkg.crossplane.io\", \"v1beta1\"), initializer.NewCoreCRDsMigrator(\"functionrevisions.pkg.crossplane.io\", \"v1beta1\"), initializer.NewCoreCRDsMigrator(\"locks.pkg.crossplane.io\", \"v1alpha1\"), )"),
  ("c.ESSTLSServerSecretName != \"\"", "steps = append(steps, initializer.NewTLSCertificateGenerator(c.Namespace, c.TLSCASecretName, initializer.TLSCertificateGeneratorWithServerSecretName(c.ESSTLSServerSecretName, []string{fmt.Sprintf(\"*.%s\", c.Namespace)}), initializer.TLSCertificateGeneratorWithLogger(log.WithValues(\"Step\", \"ESSCertificateGenerator\")), ))"),
  ("", "steps = append(steps, initializer.NewLockObject(), initializer.NewPackageInstaller(c.Providers, c.Configurations, c.Functions), initializer.NewStoreConfigObject(c.Namespace), initializer.StepFunc(initializer.DefaultDeploymentRuntimeConfig), )"),
  ("err := initializer.New(cl, log, steps...).Init(context.TODO()); err != nil", "return errors.Wrap(err, \"cannot initialize core\")"),
  ("", "log.Info(\"Initialization has been completed\")"),
  ("", "return nil")]

def initProg (g : Generator) (c : Cfg) (n : Nat) : P (Res × Nat × Nat) := runSteps g (initSteps c) n 0

/-! ### interference by a concurrent peer initialiser

Crossplane runs the same initialisation in several pods (core and rbac-manager init containers,
replicas, the old and the new pod of a rolling update). Between two API calls of OUR run a peer may
therefore have created or completed the TLS secrets. `PeerWrite`: right before our API call number
`before`, the peer has written these secrets (whole objects; an existing secret of that name is
replaced, i.e. its resourceVersion changes; a missing one is created). `peerEnv` turns a list of such
writes into an `Xp.Env`; `runP` is the run under that interference and `run` is the special case of no
peer (`Xp.runE_none`). `peerInit` is the peer we are most interested in: another initialiser that runs
its own step list to completion right before our call `k0`. -/

/-- One out-of-band change of an object by ANOTHER writer (a concurrent initialiser, a user, another
controller, the garbage collector): `put*` replaces the whole object (created when absent), `del*` removes it,
`set*` sets / removes a singleton. -/
inductive PeerOp where
  | delSecret (n : String)
  | putPkg (p : Pkg)
  | delPkg (k : PKind) (n : String)
  | putCrd (c : Crd)
  | delCrd (n : String)
  | putWhc (w : Whc)
  | delWhc (k : WKind) (n : String)
  | putCr (c : Cr)
  | delCr (crd n : String)
  | setLock (v : Option Int)
  | setSc (v : Option (String × Int))
  | setDrc (v : Option Int)
  deriving Repr, Inhabited

structure PeerWrite where
  before : Nat
  secrets : List Secret
  ops : List PeerOp := []
  deriving Repr, Inhabited

def upsertSecret (s : Store) (x : Secret) : Store :=
  match findSecret s x.name with
  | some _ => { s with secrets := s.secrets.map fun y => if y.name = x.name then x else y }
  | none => { s with secrets := s.secrets ++ [x] }

def applyOp (s : Store) : PeerOp → Store
  | .delSecret n => { s with secrets := s.secrets.filter (·.name ≠ n) }
  | .putPkg p =>
    match findPkg s p.kind p.name with
    | some _ => { s with pkgs := s.pkgs.map fun q => if q.kind = p.kind ∧ q.name = p.name then p else q }
    | none => { s with pkgs := s.pkgs ++ [p] }
  | .delPkg k n => { s with pkgs := s.pkgs.filter fun q => ¬ (q.kind = k ∧ q.name = n) }
  | .putCrd c =>
    match findCrd s c.name with
    | some _ => { s with crds := s.crds.map fun d => if d.name = c.name then c else d }
    | none => { s with crds := s.crds ++ [c] }
  | .delCrd n => { s with crds := s.crds.filter (·.name ≠ n) }
  | .putWhc w =>
    match findWhc s w.kind w.name with
    | some _ => { s with whcs := s.whcs.map fun v => if v.kind = w.kind ∧ v.name = w.name then w else v }
    | none => { s with whcs := s.whcs ++ [w] }
  | .delWhc k n => { s with whcs := s.whcs.filter fun v => ¬ (v.kind = k ∧ v.name = n) }
  | .putCr c =>
    if s.crs.any (fun d => d.crd = c.crd ∧ d.name = c.name) then
      { s with crs := s.crs.map fun d => if d.crd = c.crd ∧ d.name = c.name then c else d }
    else { s with crs := s.crs ++ [c] }
  | .delCr crd n => { s with crs := s.crs.filter fun d => ¬ (d.crd = crd ∧ d.name = n) }
  | .setLock v => { s with lock := v }
  | .setSc v => { s with sc := v }
  | .setDrc v => { s with drc := v }

/-- the writes of one window: the secrets first, then the other objects -/
def PeerWrite.apply (w : PeerWrite) (s : Store) : Store :=
  w.ops.foldl applyOp (w.secrets.foldl upsertSecret s)

def peerEnv (ws : List PeerWrite) : Env Store := fun k s =>
  ws.foldl (fun s w => if w.before = k then w.apply s else s) s

/-- a peer that runs its own (fault-free, complete) initialisation right before our call `k0` -/
def peerInit (g : Generator) (steps : List Step) (n k0 : Nat) : Env Store := fun k s =>
  if k = k0 then (run sem Plan.allOk 0 (runSteps g steps n 0) s).1 else s

/-- one run of the initializer under peer interference `env` and fault plan `plan` -/
def runP (g : Generator) (steps : List Step) (env : Env Store) (plan : Plan) (n : Nat) (s : Store) :
    Store × Option (Res × Nat × Nat) :=
  runE sem env plan 0 (runSteps g steps n 0) s

/-- the secret a request writes -/
def Req.writes : Req → Option Secret
  | .createSecret x => some x
  | .updateSecret _ x => some x
  | _ => none

end Xp.C20

import Xp.Model.C09
import Xp.Model.C09World
/-
C09: the call skeletons the model's definitions mirror, one entry per call (or `return`) of the
Go function in source order, each with the model step that mirrors it. Props/C09.lean states
that each list equals the one regenerated from the current tree (Xp.Gen.c09Skel…): inserting,
removing or reordering a call / an early exit in one of these functions breaks an obligation
before any scenario is run.
-/
namespace Xp.C09

/-- composite/api.go NewAPIFilteredSecretPublisher: the publisher merges (JSON merge patch) -/
def skelNewPublisher : List String := ["resource.NewAPIPatchingApplicator"]   -- `mergeData` in publish / publishA

/-- claim/connection.go NewAPIConnectionPropagator: the propagator replaces (Update) -/
def skelNewPropagator : List String := ["resource.NewAPIUpdatingApplicator"]  -- `fs.data` stored as it is in propagate / propagateA

/-- crossplane-runtime APIPatchingApplicator.Apply, as compiled into the harness: the two API
calls of `publishA` -/
def skelPatchingApply : List String :=
  ["client.Create",       -- not modelled: only for an object with generateName and no name (a secret reference has a name)
   "client.Get",          -- publishA: API call 0 (`faultAt f 0`; `slot` is its answer)
   "kerrors.IsNotFound",  -- publishA: `x.cls = .notFound` / `slot = none`
   "client.Create",       -- publishA: `writeOut f 1 d` on an absent secret (refused with AlreadyExists when the Get was a cache miss: `.fail 1`)
   "client.Patch"]        -- publishA: `writeOut f 1 (mergeData s.data d)` after the apply options

/-- crossplane-runtime APIUpdatingApplicator.Apply: the calls 1 and 2 of `propagateA` -/
def skelUpdatingApply : List String :=
  ["client.Create",         -- not modelled: generateName only
   "client.Get",            -- propagateA: API call 1 (`faultAt e.fault 1`; `dst` is its answer)
   "kerrors.IsNotFound",    -- propagateA: `x.cls = .notFound` / `dst = none`
   "client.Create",         -- propagateA: `writeOut e.fault 2 fs.data` on an absent secret
   "m.SetResourceVersion",  -- propagateA: `e.swap` ⇒ `.fail 1` (the Update carries the version read by the Get: Conflict)
   "client.Update"]         -- propagateA: `writeOut e.fault 2 fs.data`

/-- crossplane-runtime ConnectionSecretMustBeControllableBy: `controllable` / `mayControl` -/
def skelMustBeControllable : List String :=
  ["return",                    -- the ApplyOption closure
   "return",                    -- not modelled: current is not a Secret (the writers only apply Secrets)
   "metav1.GetControllerOf",    -- `s.ctrl`
   "return",                    -- `.none | .xrPlain => s.conn` = false: uncontrolled secret of another type
   "return",                    -- `.none | .xrPlain => s.conn` = true
   "return",                    -- `c => c = me` = false
   "return"]                    -- `c => c = me` = true

/-- APIFilteredSecretPublisher.PublishConnection: `publish` / `publishE` / `publishA` -/
def skelPublish : List String :=
  ["o.GetWriteConnectionSecretToReference",            -- `if !wants`
   "return",                                           -- `.nop`
   "resource.ConnectionSecretFor",                     -- `written me d`: connection type, controller reference of the writer; data `desiredData filter details`
   "client.Apply",                                     -- skelPatchingApply: calls 0 and 1 of `publishA`
   "resource.ConnectionSecretMustBeControllableBy",    -- `controllable s .owner` ⇒ else `.fail 0`
   "o.GetUID",                                         -- `.owner` = the writer `me` of `dstView me`
   "resource.AllowUpdateIf",                           -- `needsUpdate s.data d` ⇒ else `.nop`
   "bytes.Equal",                                      -- `dget cur kv.1 ≠ some kv.2`
   "return",                                           -- some published key is missing or different
   "return",                                           -- every published key is stored with that value
   "resource.IsNotAllowed",                            -- `.nop` (published = false, err = false)
   "return",
   "return",                                           -- `.fail _`
   "return"]                                           -- `writeOut` without a fault: published

/-- APIFilteredSecretPublisher.UnpublishConnection: no call at all — the XR's secret is left to
Kubernetes garbage collection; not a step of the model (no operation of `Op` deletes) -/
def skelUnpublish : List String := ["return"]

/-- APIConnectionPropagator.PropagateConnection: `propagate` / `propagateE` / `propagateA` -/
def skelPropagate : List String :=
  ["from.GetWriteConnectionSecretToReference",         -- `!fromWants`
   "to.GetWriteConnectionSecretToReference",           -- `!toWants`
   "return",                                           -- `.nop`
   "from.GetWriteConnectionSecretToReference",         -- the source key `xref` of `Op.prop` (namespace)
   "from.GetWriteConnectionSecretToReference",         -- … (name)
   "client.Get",                                       -- API call 0: `faultAt e.fault 0`, `src`
   "return",                                           -- `.fail 0`: any error reading the XR's secret is final
   "metav1.GetControllerOf",                           -- `fs.ctrl` (`srcView xr`)
   "from.GetUID",                                      -- `fs.ctrl ≠ .xr`
   "return",                                           -- `.fail 0`: not controlled by the bound XR
   "resource.LocalConnectionSecretFor",                -- `written me fs.data`, key `(cns, cref)`
   "client.Apply",                                     -- skelUpdatingApply: calls 1 and 2
   "resource.ConnectionSecretMustBeControllableBy",    -- `controllable d .owner` ⇒ else `.fail 0`
   "to.GetUID",
   "resource.AllowUpdateIf",                           -- `dataEq d.data fs.data` ⇒ `.nop`
   "return",
   "cmp.Equal",                                        -- `dataEq`
   "cmpopts.EquateEmpty",                              -- absent = empty map: `dataEq [] []`
   "resource.IsNotAllowed",                            -- `.nop`
   "return",
   "return",                                           -- `.fail _`
   "return"]                                           -- `writeOut`: published
-- NOT among the calls: GetConnectionDetailsLastPublishedTime of either side. `propagateA` has no
-- time argument: whatever the claim and the XR record about earlier propagations, the two
-- secrets are compared.

/-- claim NopConnectionUnpublisher.UnpublishConnection: `claimRec` on a deleted claim leaves
every secret as it is -/
def skelClaimNopUnpublish : List String := ["return"]

/-- ConnectionDetailsFetcherChain.FetchConnection (wired only under the external secret store
feature flag; the model has the single secret fetcher): the union of the fetchers' answers,
the first error is final -/
def skelFetchChain : List String :=
  ["p.FetchConnection",   -- `fetchA` for the one SecretConnectionDetailsFetcher
   "return",              -- error ⇒ none
   "return"]

/-- SecretConnectionDetailsFetcher.FetchConnection: `fetchA` -/
def skelFetchSecret : List String :=
  ["o.GetWriteConnectionSecretToReference",   -- `ref = none`
   "return",                                  -- `some []` (no details, no error)
   "client.Get",                              -- `wget w k`
   "client.IgnoreNotFound",                   -- `.notFound ⇒ some []`, other classes ⇒ `none`
   "return",
   "return"]                                  -- the secret's data

/-- ExtractConnectionDetails: `extract` -/
def skelExtract : List String :=
  ["return", "errors.Errorf",   -- `c.name = ""` ⇒ none
   "return", "errors.Errorf",   -- FromValue, `c.value = none` ⇒ none
   "return", "errors.Errorf",   -- FromConnectionSecretKey, `c.key = none` ⇒ none
   "return", "errors.Errorf",   -- FromFieldPath, `c.path = none` ⇒ none
   "fromFieldPath",             -- `fromFieldPath (valueAt p)`; an error ⇒ the detail is skipped
   "return"]                    -- `some acc`

/-- fromFieldPath: `fromFieldPath` over the value the path designates (`FVal`) -/
def skelFromFieldPath : List String :=
  ["runtime.DefaultUnstructuredConverter.ToUnstructured",   -- not modelled: a composed resource is unstructured already
   "return",
   "fieldpath.Pave.GetString", "fieldpath.Pave",            -- `.str s ⇒ some s`
   "return",
   "fieldpath.Pave.GetValue", "fieldpath.Pave",             -- `none ⇒ none` (no such field / malformed path)
   "return",
   "return", "json.Marshal"]                                -- `.json t ⇒ some t`

/-- ExtractConfigsFromComposedTemplate: `tmplCfg` (name defaulting) -/
def skelExtractConfigs : List String :=
  ["return",                 -- nil template: no configs
   "connectionDetailType",   -- `tmplCfg`: `ty`
   "return"]

/-- connectionDetailType: `tmplCfg`'s `ty` -/
def skelDetailType : List String :=
  ["return", "ConnectionDetailType",   -- `c.type ≠ ""`
   "return",                           -- value set ⇒ FromValue
   "return",                           -- key set ⇒ FromConnectionSecretKey
   "return",                           -- path set ⇒ FromFieldPath
   "return"]                           -- nothing set ⇒ FromConnectionSecretKey

/-- PTComposer.Compose, the calls on the connection-detail path: `flowDetails false` -/
def skelPTCompose : List String :=
  ["resource.MustBeControllableBy",          -- `ts.any (·.ctrl = .other)` ⇒ none (the Apply below fails)
   "client.Apply",                           -- the composed resources (C01's subject)
   "composed.FetchConnection",               -- `t.secret` / `t.fetchErr` (`fetchA`)
   "composed.ExtractConnection",             -- `extract`
   "ExtractConfigsFromComposedTemplate",     -- `t.cfgs.map tmplCfg`
   "client.Apply"]                           -- the XR (C01's subject)

/-- ExistingComposedResourceObserver.ObserveComposedResources: `flowDetails true`'s filter -/
def skelFnObserve : List String :=
  ["cached.Get", "uncached.Get",        -- not modelled here: the referenced resources exist (C01's subject)
   "metav1.GetControllerOf",            -- `ts.filter (·.ctrl ≠ .other)`
   "xr.GetUID",
   "details.FetchConnection"]           -- `t.secret` / `t.fetchErr` (`fetchA`)

/-- FunctionComposer.Compose, the calls on the connection-detail path -/
def skelFnCompose : List String :=
  ["composite.ObserveComposedResources",   -- skelFnObserve
   "composite.FetchConnection",            -- the XR's own secret: `ownErr` of the driver (an error fails the reconcile before the pipeline)
   "AsState",                              -- the observed details handed to the pipeline
   "pipeline.RunFunction"]                 -- oracle: a harness function copying the observed details like function-patch-and-transform (`foldDetails`)

/-- composite Reconciler.Reconcile, the connection-detail calls: `flowStep` -/
def skelXRReconcile : List String :=
  ["composite.UnpublishConnection",               -- deleted XR: skelUnpublish (no call); not a step of the model
   "resource.Compose",                            -- `flowDetails`
   "composite.PublishConnection",                 -- `stepW filter e w (.pub me ref d)`
   "xr.SetConnectionDetailsLastPublishedTime"]    -- when `published`; an input of nothing in the model (skelPropagate)

/-- claim Reconciler.Reconcile, the connection-detail calls: `claimRec` -/
def skelClaimReconcile : List String :=
  ["claim.UnpublishConnection",                   -- `c.deleted` ⇒ the world stays as it is (skelClaimNopUnpublish)
   "claim.RemoveFinalizer",
   "resource.IsConditionTrue",                    -- `!c.xrReady` ⇒ nothing is propagated
   "composite.PropagateConnection",               -- `stepW _ e w (.prop …)`
   "cm.SetConnectionDetailsLastPublishedTime"]    -- `ClaimOut.stamped` = `out.published`

/-- definition Reconciler.CompositeReconcilerOptions: ONE filtered publisher built from the XRD's
connectionSecretKeys and ONE secret fetcher by default; the external secret store publisher /
fetcher chain / configurator are added only under features.EnableAlphaExternalSecretStores
(off by default; not modelled) -/
def skelWiring : List String :=
  ["composite.WithConnectionPublishers", "composite.NewAPIFilteredSecretPublisher", "d.GetConnectionSecretKeys",   -- `filter` of stepW / flowStep
   "composite.NewSecretConnectionDetailsFetcher",                                                                  -- `fetchA`
   "options.Features.Enabled",                                                                                     -- EnableAlphaExternalSecretStores: not modelled from here …
   "composite.NewAPIFilteredSecretPublisher", "d.GetConnectionSecretKeys",
   "composite.NewSecretStoreConnectionPublisher", "connection.NewDetailsManager", "d.GetConnectionSecretKeys",
   "composite.NewSecretConnectionDetailsFetcher", "connection.NewDetailsManager",
   "composite.NewSecretStoreConnectionDetailsConfigurator",
   "composite.WithConnectionPublishers",                                                                           -- … to here
   "composite.WithComposedConnectionDetailsFetcher",                                                               -- P&T composer: the same fetcher
   "composite.NewExistingComposedResourceObserver",                                                                -- function composer's observer: the same fetcher
   "composite.WithCompositeConnectionDetailsFetcher",
   "options.Features.Enabled"]                                                                                     -- realtime compositions: not C09's subject

/-- what claim.NewReconciler builds when no option replaces them -/
def claimDefaultUnpublisher : String := "*claim.NopConnectionUnpublisher"
def claimDefaultPropagator : String := "*claim.APIConnectionPropagator"

end Xp.C09

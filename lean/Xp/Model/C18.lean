import Xp.Base.Prog
import Xp.Gen.Rbac
/-
C18 model: the RBAC manager.

* `expandOne`/`expand`, `Rule.path`, the rule tree (`Node.allow`/`Node.allowed` with the
  wildcard child) and `validate` mirror
  internal/controller/rbac/provider/roles/requests.go.
* `definedResources`, `renderRoles` (RenderClusterRoles), `reconcile` (Reconciler.Reconcile
  with APIUpdatingApplicator.Apply inlined call by call) mirror roles.go / reconciler.go.
* `renderXRDRoles`, `reconcileXRD` mirror rbac/definition/{roles,reconciler}.go.
* `reconcileBinding` mirrors rbac/provider/binding/reconciler.go.
* `breakdown`, `ruleCovers`, `covers` are a hand-written specification of Kubernetes'
  escalation check (component-helpers auth/rbac/validation: BreakdownRule, ruleCovers,
  Covers) and `ruleAllows` of the RBAC authorizer's RuleAllows.  They are the SPEC the
  tree is compared with; they are not Crossplane code.

All string tables and constants come from `Xp.Gen` (regenerated from the source).
-/
namespace Xp.C18
open Xp.Gen

/-! ## small structurally recursive helpers (kernel-reducible, so `decide` can run the model) -/

/-- split a character list at the first occurrence of `c` -/
def splitFirst (c : Char) : List Char → Option (List Char × List Char)
  | [] => none
  | x :: xs => if x = c then some ([], xs) else (splitFirst c xs).map fun (a, b) => (x :: a, b)

/-- insert `x` before the first element that is not strictly smaller (stable) -/
def insertBy {α : Type} (lt : α → α → Bool) (x : α) : List α → List α
  | [] => [x]
  | y :: ys => if lt y x then y :: insertBy lt x ys else x :: y :: ys

/-- stable insertion sort (what Go's sort.Slice runs on slices of at most 12 elements) -/
def isort {α : Type} (lt : α → α → Bool) : List α → List α
  | [] => []
  | x :: xs => insertBy lt x (isort lt xs)

/-! ## rbacv1.PolicyRule and the granular Rule -/

structure PolicyRule where
  verbs : List String
  apiGroups : List String
  resources : List String
  resourceNames : List String
  nonResourceURLs : List String
  deriving DecidableEq, Repr, Inhabited

def PolicyRule.ofGen (t : List String × List String × List String × List String × List String) : PolicyRule :=
  ⟨t.1, t.2.1, t.2.2.1, t.2.2.2.1, t.2.2.2.2⟩

/-- roles.Rule -/
structure Rule where
  apiGroup : String
  resource : String
  resourceName : String
  nonResourceURL : String
  verb : String
  deriving DecidableEq, Repr, Inhabited

abbrev Path := List String

def wildcard : String := prov_wildcard

/-- Rule.path() -/
def Rule.path (r : Rule) : Path :=
  if r.nonResourceURL ≠ "" then [prov_pathPrefixURL, r.nonResourceURL, r.verb]
  else [prov_pathPrefixResource, r.apiGroup, r.resource, r.resourceName, r.verb]

/-- Expand, one PolicyRule: first URLs × verbs, then groups × resources × names × verbs,
where "no names" becomes the single name `*`. -/
def expandOne (r : PolicyRule) : List Rule :=
  (r.nonResourceURLs.flatMap fun u => r.verbs.map fun v => (⟨"", "", "", u, v⟩ : Rule)) ++
  (r.apiGroups.flatMap fun g => r.resources.flatMap fun rsc =>
    (if r.resourceNames.isEmpty then [wildcard] else r.resourceNames).flatMap fun n =>
      r.verbs.map fun v => (⟨g, rsc, n, "", v⟩ : Rule))

def expand (rs : List PolicyRule) : List Rule := rs.flatMap expandOne

/-! ## the rule tree -/

inductive Node where
  | mk (allowed : Bool) (children : List (String × Node))
  deriving Inhabited

/-- newNode() -/
def Node.empty : Node := .mk false []

def Node.isAllowed : Node → Bool
  | .mk a _ => a

/-- `children[k]` -/
def lookup (k : String) : List (String × Node) → Option Node
  | [] => none
  | (k', c) :: rest => if k' = k then some c else lookup k rest

/-- `if _, ok := children[k]; !ok { children[k] = newNode() }; children[k] = f(children[k])` -/
def upsert (k : String) (f : Node → Node) : List (String × Node) → List (String × Node)
  | [] => [(k, f Node.empty)]
  | (k', c) :: rest => if k' = k then (k', f c) :: rest else (k', c) :: upsert k f rest

/-- node.Allow -/
def Node.allow : Path → Node → Node
  | [], .mk _ cs => .mk true cs
  | k :: p, .mk a cs => .mk a (upsert k (Node.allow p) cs)

/-- one iteration of the `for _, k := range []string{p[0], wildcard}` loop body -/
def look (rec : Node → Bool) (cs : List (String × Node)) (k : String) : Bool :=
  match lookup k cs with
  | some c => c.isAllowed || rec c
  | none => false

/-- node.Allowed -/
def Node.allowed : Path → Node → Bool
  | [], _ => false
  | k :: p, .mk _ cs => look (Node.allowed p) cs k || look (Node.allowed p) cs wildcard

/-- the tree ValidatePermissionRequests builds from the allow-list ClusterRole's rules -/
def tree (allow : List PolicyRule) : Node :=
  (expand allow).foldl (fun t r => t.allow r.path) Node.empty

/-- ClusterRoleBackedValidator.ValidatePermissionRequests (after the Get): the rejected rules -/
def validate (allow requests : List PolicyRule) : List Rule :=
  (expand requests).filter fun r => !(tree allow).allowed r.path

/-- Expand under a context: it checks `ctx.Done()` before appending each granular rule, so with
a context that is already done (deadline exceeded, cancelled) it fails as soon as there is
one rule to append, and returns the empty list otherwise. `none` = `ctx.Err()`. -/
def expandCtx (done : Bool) (rs : List PolicyRule) : Option (List Rule) :=
  if done && !(expand rs).isEmpty then none else some (expand rs)

/-- ValidatePermissionRequests (after the Get) under a context -/
def validateCtx (done : Bool) (allow requests : List PolicyRule) : Option (List Rule) :=
  match expandCtx done allow, expandCtx done requests with
  | some _, some _ => some (validate allow requests)
  | _, _ => none

/-! ## specification: Kubernetes "covers" and the authorizer -/

/-- one granular Kubernetes sub-rule, as produced by BreakdownRule -/
inductive Sub where
  | res (group resource : String) (name : Option String) (verb : String)
  | url (url verb : String)
  deriving DecidableEq, Repr

/-- BreakdownRule -/
def breakdown (r : PolicyRule) : List Sub :=
  (r.apiGroups.flatMap fun g => r.resources.flatMap fun rsc => r.verbs.flatMap fun v =>
    if r.resourceNames.isEmpty then [Sub.res g rsc none v]
    else r.resourceNames.map fun n => Sub.res g rsc (some n) v) ++
  (r.nonResourceURLs.flatMap fun u => r.verbs.map fun v => Sub.url u v)

/-- the rule-tree rule Expand derives from a granular sub-rule -/
def Sub.toRule : Sub → Rule
  | .res g r n v => ⟨g, r, n.getD wildcard, "", v⟩
  | .url u v => ⟨"", "", "", u, v⟩

/-- the sub-rule as a PolicyRule -/
def Sub.asRule : Sub → PolicyRule
  | .res g r n v => ⟨[v], [g], [r], n.toList, []⟩
  | .url u v => ⟨[v], [], [], [], [u]⟩

/-- `strings.SplitN(path, "/", 2)[1]` when the resource contains a '/' -/
def subresourceOf (r : String) : Option String :=
  (splitFirst '/' r.toList).map fun (_, sub) => String.ofList sub

/-- resourceCoversAll(set, [r]) -/
def resourceCovers (set : List String) (r : String) : Bool :=
  set.contains k8sResourceAll || set.contains r ||
  (match subresourceOf r with
   | some sub => set.contains ("*/" ++ sub)
   | none => false)

/-- strings.TrimRight(s, "*") -/
def trimRightStars (s : String) : String :=
  String.ofList (s.toList.reverse.dropWhile (· == '*')).reverse

/-- strings.HasSuffix(s, "*") -/
def endsWithStar (s : String) : Bool := s.toList.getLast? == some '*'

/-- strings.HasPrefix(s, pre) -/
def hasPrefix (pre s : String) : Bool := pre.toList.isPrefixOf s.toList

/-- nonResourceURLCovers(owner, sub) -/
def urlCovers (owner sub : String) : Bool :=
  owner == sub || (endsWithStar owner && hasPrefix (trimRightStars owner) sub)

/-- ruleCovers(ownerRule, subRule) for a granular subRule -/
def ruleCovers (o : PolicyRule) : Sub → Bool
  | .res g r n v =>
      (o.verbs.contains k8sVerbAll || o.verbs.contains v) &&
      (o.apiGroups.contains k8sAPIGroupAll || o.apiGroups.contains g) &&
      resourceCovers o.resources r &&
      (match n with
       | none => o.resourceNames.isEmpty
       | some x => o.resourceNames.isEmpty || o.resourceNames.contains x)
      -- nonResourceURLsCoversAll(o.nonResourceURLs, []) = true
  | .url u v =>
      (o.verbs.contains k8sVerbAll || o.verbs.contains v) &&
      -- hasAll(o.apiGroups, []) = true, resourceCoversAll(o.resources, []) = true
      o.resourceNames.isEmpty &&   -- len(sub.ResourceNames) == 0  ⇒  len(owner.ResourceNames) == 0
      o.nonResourceURLs.any (urlCovers · u)

/-- Covers(allow, [sub]) -/
def covers (allow : List PolicyRule) (s : Sub) : Bool := allow.any (ruleCovers · s)

/-- authorizer.Attributes -/
inductive Attr where
  | res (verb group resource subresource name : String)
  | nonres (verb path : String)
  deriving Repr

/-- rbacv1helpers.ResourceMatches for one rule resource -/
def resourceMatches (ruleRes combined sub : String) : Bool :=
  ruleRes == k8sResourceAll || ruleRes == combined || (sub != "" && ruleRes == "*/" ++ sub)

/-- rbacv1helpers.NonResourceURLMatches for one rule URL -/
def urlMatches (ruleURL path : String) : Bool :=
  ruleURL == k8sNonResourceAll || ruleURL == path ||
  (endsWithStar ruleURL && hasPrefix (trimRightStars ruleURL) path)

/-- RuleAllows(attributes, rule) -/
def ruleAllows (o : PolicyRule) : Attr → Bool
  | .res v g r sub n =>
      o.verbs.any (fun x => x == k8sVerbAll || x == v) &&
      o.apiGroups.any (fun x => x == k8sAPIGroupAll || x == g) &&
      o.resources.any (fun x => resourceMatches x (if sub == "" then r else r ++ "/" ++ sub) sub) &&
      (o.resourceNames.isEmpty || o.resourceNames.contains n)
  | .nonres v p =>
      o.verbs.any (fun x => x == k8sVerbAll || x == v) &&
      o.nonResourceURLs.any (urlMatches · p)

/-! ## provider revisions, roles, the store -/

structure Ref where
  apiVersion : String
  kind : String
  name : String
  deriving DecidableEq, Repr

/-- roles.Resource -/
structure Resource where
  group : String
  plural : String
  deriving DecidableEq, Repr

structure PR where
  name : String
  uid : String
  paused : Bool
  deleted : Bool
  /-- label pkg.crossplane.io/provider-family, "" = absent -/
  family : String
  /-- (registry, org) of spec.package as go-containerregistry parses it; none = unparsable -/
  org : Option (String × String)
  refs : List Ref
  requests : List PolicyRule
  deriving Repr

structure Role where
  name : String
  /-- sorted by key -/
  labels : List (String × String)
  rules : List PolicyRule
  /-- uid of the controller owner reference -/
  ctrl : Option String
  deriving DecidableEq, Repr

structure XRD where
  name : String
  uid : String
  deleted : Bool
  group : String
  plural : String
  /-- spec.claimNames.plural, none = no claimNames -/
  claim : Option String
  deriving Repr

structure Deployment where
  ns : String
  name : String
  sa : String
  owners : List String
  deriving Repr

structure Subject where
  ns : String
  name : String
  deriving DecidableEq, Repr

structure Binding where
  name : String
  roleRef : String
  subjects : List Subject
  ctrl : Option String
  deriving DecidableEq, Repr

structure Store where
  prs : List PR            -- in List order (by name)
  xrds : List XRD
  deploys : List Deployment  -- in List order (by namespace/name)
  roles : List Role
  bindings : List Binding
  /-- the API server's resourceVersion counter -/
  rv : Nat := 0
  /-- resourceVersion of each ClusterRole / ClusterRoleBinding (first entry wins, absent = 0) -/
  roleRV : List (String × Nat) := []
  bindingRV : List (String × Nat) := []
  deriving Repr

/-- metadata.resourceVersion of the named object -/
def rvOf (l : List (String × Nat)) (n : String) : Nat := (l.lookup n).getD 0

/-- schema.ParseGroupVersion(apiVersion).Group (the empty group on a parse error) -/
def groupOfAPIVersion (av : String) : String :=
  match splitFirst '/' av.toList with
  | none => ""                                        -- no '/': the version only
  | some (g, v) => if v.contains '/' then "" else String.ofList g   -- more than one '/': parse error

/-- strings.Cut(name, ".") -/
def cutDot (name : String) : Option (String × String) :=
  (splitFirst '.' name.toList).map fun (p, g) => (String.ofList p, String.ofList g)

/-- DefinedResources -/
def definedResources (refs : List Ref) : List Resource :=
  refs.filterMap fun ref =>
    if groupOfAPIVersion ref.apiVersion ≠ crdGroupName ∨ ref.kind ≠ "CustomResourceDefinition" then none
    else (cutDot ref.name).map fun (p, g) => ⟨g, p⟩

/-- OrgDiffer.Differs on the parsed references -/
def orgDiffers (a b : Option (String × String)) : Bool :=
  match a, b with
  | some x, some y => x != y
  | _, _ => true

/-- `strings.Split(s, "/")[0]`: everything before the first '/', the whole string without one -/
def firstSeg (s : String) : String :=
  match splitFirst '/' s.toList with
  | none => s
  | some (a, _) => String.ofList a

/-- what go-containerregistry makes of a package reference (an oracle supplied by the harness):
`ref.Context().RegistryStr()` and `ref.Context().RepositoryStr()` -/
structure Parsed where
  registry : String
  repo : String
  deriving DecidableEq, Repr

/-- the (registry, organisation) pair OrgDiffer compares: the organisation is the first element of
the repository path -/
def Parsed.orgKey (x : Parsed) : String × String := (x.registry, firstSeg x.repo)

/-- OrgDiffer.Differs, call by call, over the parser's two answers (none = parse error) -/
def orgDiffersParsed (a b : Option Parsed) : Bool :=
  match a with
  | none => true                                    -- if err != nil { return true }
  | some x =>
    match b with
    | none => true                                  -- if err != nil { return true }
    | some y =>
      if x.registry != y.registry then true         -- ca.RegistryStr() != cb.RegistryStr()
      else firstSeg x.repo != firstSeg y.repo       -- oa != ob

/-- the resources the reconciler hands to the renderer: the revision's own plus those of
every *other* member of its family whose package is in the same registry and org -/
def memberResources (p : PR) (members : List PR) : List Resource :=
  members.flatMap fun m =>
    if m.uid = p.uid then [] else if orgDiffers p.org m.org then [] else definedResources m.refs

/-- `rs[i].Plural+rs[i].Group < rs[j].Plural+rs[j].Group` -/
def resourceLT (a b : Resource) : Bool := a.plural ++ a.group < b.plural ++ b.group

/-- the `groups` slice of RenderClusterRoles: groups in order of first appearance -/
def groupsOf : List Resource → List String
  | [] => []
  | r :: rest => r.group :: (groupsOf rest).filter (· ≠ r.group)

/-- `resources[g]` -/
def resourcesOfGroup (rs : List Resource) (g : String) : List String :=
  (rs.filter (·.group = g)).flatMap fun r => [r.plural, r.plural ++ prov_suffixStatus]

def withVerbs (rules : List PolicyRule) (verbs : List String) : List PolicyRule :=
  rules.map fun r => { r with verbs := verbs }

def sortLabels (l : List (String × String)) : List (String × String) :=
  isort (fun a b => a.1 < b.1) l

def rulesSystemExtra : List PolicyRule := provRulesSystemExtra.map PolicyRule.ofGen

def systemRoleName (pr : String) : String := prov_namePrefix ++ pr ++ prov_nameSuffixSystem

/-- the per-group rules (without verbs) RenderClusterRoles builds from the sorted resources -/
def groupRules (sorted : List Resource) : List PolicyRule :=
  (groupsOf sorted).map fun g => ⟨[], [g], resourcesOfGroup sorted g, [], []⟩

def ruleFinalizers (sorted : List Resource) : PolicyRule :=
  ⟨provVerbsUpdate, groupsOf sorted, [prov_resourceAll ++ prov_suffixFinalizers], [], []⟩

def systemRules (p : PR) (sorted : List Resource) : List PolicyRule :=
  withVerbs (groupRules sorted) provVerbsSystem ++ [ruleFinalizers sorted] ++ rulesSystemExtra ++ p.requests

/-- RenderClusterRoles (sort.Slice is a stable insertion sort up to 12 elements) -/
def renderRoles (p : PR) (rs : List Resource) : List Role :=
  if rs.isEmpty then [] else
  let sorted := isort resourceLT rs
  let rules := groupRules sorted
  [ { name := prov_namePrefix ++ p.name ++ prov_nameSuffixEdit,
      labels := sortLabels [(prov_keyAggregateToCrossplane, prov_valTrue), (prov_keyAggregateToAdmin, prov_valTrue), (prov_keyAggregateToEdit, prov_valTrue)],
      rules := withVerbs rules provVerbsEdit, ctrl := some p.uid },
    { name := prov_namePrefix ++ p.name ++ prov_nameSuffixView,
      labels := [(prov_keyAggregateToView, prov_valTrue)],
      rules := withVerbs rules provVerbsView, ctrl := some p.uid },
    { name := systemRoleName p.name,
      labels := [(prov_keyProviderName, p.name)],
      rules := systemRules p sorted, ctrl := some p.uid } ]

/-- RenderClusterRoles after its sort.Slice: the three roles built from the resources in the order
`sorted` (`renderRoles_ordered`: `renderRoles` is this on `isort resourceLT rs`) -/
def renderRolesOrdered (p : PR) (sorted : List Resource) : List Role :=
  [ { name := prov_namePrefix ++ p.name ++ prov_nameSuffixEdit,
      labels := sortLabels [(prov_keyAggregateToCrossplane, prov_valTrue), (prov_keyAggregateToAdmin, prov_valTrue), (prov_keyAggregateToEdit, prov_valTrue)],
      rules := withVerbs (groupRules sorted) provVerbsEdit, ctrl := some p.uid },
    { name := prov_namePrefix ++ p.name ++ prov_nameSuffixView,
      labels := [(prov_keyAggregateToView, prov_valTrue)],
      rules := withVerbs (groupRules sorted) provVerbsView, ctrl := some p.uid },
    { name := systemRoleName p.name,
      labels := [(prov_keyProviderName, p.name)],
      rules := systemRules p sorted, ctrl := some p.uid } ]

/-- definition.RenderClusterRoles -/
def renderXRDRoles (d : XRD) : List Role :=
  let xr (verbs : List String) : PolicyRule := ⟨verbs, [d.group], [d.plural, d.plural ++ xrd_suffixStatus], [], []⟩
  let xrFin : PolicyRule := ⟨xrdVerbsUpdate, [d.group], [d.plural ++ xrd_suffixFinalizers], [], []⟩
  let cl (c : String) (verbs : List String) : PolicyRule := ⟨verbs, [d.group], [c, c ++ xrd_suffixStatus], [], []⟩
  let clFin (c : String) : PolicyRule := ⟨xrdVerbsUpdate, [d.group], [c ++ xrd_suffixFinalizers], [], []⟩
  let claimRules (f : String → List PolicyRule) : List PolicyRule := match d.claim with | some c => f c | none => []
  [ { name := xrd_namePrefix ++ d.name ++ xrd_nameSuffixSystem,
      labels := [(xrd_keyAggregateToSystem, xrd_valTrue)],
      rules := [xr xrdVerbsEdit, xrFin] ++ claimRules (fun c => [cl c xrdVerbsEdit, clFin c]), ctrl := some d.uid },
    { name := xrd_namePrefix ++ d.name ++ xrd_nameSuffixEdit,
      labels := sortLabels [(xrd_keyAggregateToAdmin, xrd_valTrue), (xrd_keyAggregateToNSAdmin, xrd_valTrue),
                            (xrd_keyAggregateToEdit, xrd_valTrue), (xrd_keyAggregateToNSEdit, xrd_valTrue), (xrd_keyXRD, d.name)],
      rules := [xr xrdVerbsEdit] ++ claimRules (fun c => [cl c xrdVerbsEdit]), ctrl := some d.uid },
    { name := xrd_namePrefix ++ d.name ++ xrd_nameSuffixView,
      labels := sortLabels [(xrd_keyAggregateToView, xrd_valTrue), (xrd_keyAggregateToNSView, xrd_valTrue), (xrd_keyXRD, d.name)],
      rules := [xr xrdVerbsView] ++ claimRules (fun c => [cl c xrdVerbsView]), ctrl := some d.uid },
    { name := xrd_namePrefix ++ d.name ++ xrd_nameSuffixBrowse,
      labels := sortLabels [(xrd_keyAggregateToBrowse, xrd_valTrue), (xrd_keyXRD, d.name)],
      rules := [xr xrdVerbsBrowse], ctrl := some d.uid } ]

/-! ## API calls -/

inductive Req where
  | getPR (name : String)
  | listPRs (family : String)
  | getXRD (name : String)
  | listDeployments
  | getRole (name : String)
  | createRole (r : Role)
  /-- Update carrying metadata.resourceVersion `rv` (optimistic concurrency) -/
  | updateRole (r : Role) (rv : Nat)
  | getBinding (name : String)
  | createBinding (b : Binding)
  | updateBinding (b : Binding) (rv : Nat)
  deriving Repr

def Req.isWrite : Req → Bool
  | .createRole _ | .updateRole _ _ | .createBinding _ | .updateBinding _ _ => true
  | _ => false

inductive Resp where
  | pr (p : PR)
  | prs (l : List PR)
  | xrd (d : XRD)
  | deploys (l : List Deployment)
  | role (r : Role) (rv : Nat)
  | binding (b : Binding) (rv : Nat)
  | done
  | notFound
  | alreadyExists
  | conflict
  | other
  deriving Repr

def setRole (r : Role) : List Role → List Role
  | [] => []
  | x :: rest => if x.name = r.name then r :: rest else x :: setRole r rest

def setBinding (b : Binding) : List Binding → List Binding
  | [] => []
  | x :: rest => if x.name = b.name then b :: rest else x :: setBinding b rest

def exec (s : Store) : Req → Store × Resp
  | .getPR n => (s, match s.prs.find? (·.name = n) with | some p => .pr p | none => .notFound)
  | .listPRs f => (s, .prs (s.prs.filter (·.family = f)))
  | .getXRD n => (s, match s.xrds.find? (·.name = n) with | some d => .xrd d | none => .notFound)
  | .listDeployments => (s, .deploys s.deploys)
  | .getRole n => (s, match s.roles.find? (·.name = n) with | some r => .role r (rvOf s.roleRV n) | none => .notFound)
  | .createRole r =>
      if s.roles.any (·.name = r.name) then (s, .alreadyExists)
      else ({ s with roles := s.roles ++ [r], rv := s.rv + 1, roleRV := (r.name, s.rv + 1) :: s.roleRV }, .done)
  | .updateRole r v =>
      if s.roles.any (·.name = r.name) then
        if rvOf s.roleRV r.name = v then
          if setRole r s.roles = s.roles then (s, .done)   -- nothing changes: the API server does not write, the resourceVersion stays
          else ({ s with roles := setRole r s.roles, rv := s.rv + 1, roleRV := (r.name, s.rv + 1) :: s.roleRV }, .done)
        else (s, .conflict)   -- the object has been modified since it was read
      else (s, .notFound)
  | .getBinding n => (s, match s.bindings.find? (·.name = n) with | some b => .binding b (rvOf s.bindingRV n) | none => .notFound)
  | .createBinding b =>
      if s.bindings.any (·.name = b.name) then (s, .alreadyExists)
      else ({ s with bindings := s.bindings ++ [b], rv := s.rv + 1, bindingRV := (b.name, s.rv + 1) :: s.bindingRV }, .done)
  | .updateBinding b v =>
      if s.bindings.any (·.name = b.name) then
        if rvOf s.bindingRV b.name = v then
          if setBinding b s.bindings = s.bindings then (s, .done)
          else ({ s with bindings := setBinding b s.bindings, rv := s.rv + 1, bindingRV := (b.name, s.rv + 1) :: s.bindingRV }, .done)
        else (s, .conflict)
      else (s, .notFound)

/-- what the controller sees when the call is not applied: an injected conflict is a
Conflict only for writes (simstore answers reads with a server error) -/
def errResp : Outcome → Req → Resp
  | .conflict, r => if r.isWrite then .conflict else .other
  | _, _ => .other

def sem : Sem Store Req Resp := ⟨exec, errResp⟩

/-! ## the reconcilers -/

inductive Result where
  | ok        -- reconcile.Result{}, nil
  | requeue   -- reconcile.Result{Requeue: true}, nil
  | err       -- _, err
  deriving DecidableEq, Repr

abbrev P := Prog Req Resp Result

/-- ClusterRolesDiffer -/
def rolesDiffer (cur des : Role) : Bool := cur.labels != des.labels || cur.rules != des.rules

/-- MustBeControllableBy(uid) fails -/
def notControllable (uid : String) (cur : Option String) : Bool :=
  match cur with
  | none => false
  | some c => c != uid

/-- the apply loop shared by the provider-revision and the XRD reconciler:
`Apply(cr, MustBeControllableBy, AllowUpdateIf(ClusterRolesDiffer))` with
APIUpdatingApplicator = Get; NotFound ⇒ Create; else options; Update. -/
def applyRoles (uid : String) : List Role → P
  | [] => .ret .ok
  | cr :: rest =>
    .call (.getRole cr.name) fun
      | .notFound => .call (.createRole cr) fun
          | .done => applyRoles uid rest
          | .conflict => .ret .requeue
          | _ => .ret .err            -- AlreadyExists included: the error is returned, nothing is retried
      | .role cur rv =>
          if notControllable uid cur.ctrl then .ret .err
          else if !rolesDiffer cur cr then applyRoles uid rest   -- errNotAllowed ⇒ continue
          else .call (.updateRole cr rv) fun   -- m.SetResourceVersion(current.GetResourceVersion())
            | .done => applyRoles uid rest
            | .conflict => .ret .requeue
            | _ => .ret .err          -- NotFound included
      | .conflict => .ret .requeue    -- kerrors.IsConflict sees through "cannot get object"
      | _ => .ret .err

structure Cfg where
  /-- name of the allow-list ClusterRole; none = VerySecureValidator (no --provider-clusterrole) -/
  allowRole : Option String

/-- the family part of Reconcile -/
def withFamily (p : PR) (k : List Resource → P) : P :=
  if p.family = "" then k (definedResources p.refs)
  else .call (.listPRs p.family) fun
    | .prs ms => k (definedResources p.refs ++ memberResources p ms)
    | .conflict => .ret .requeue
    | _ => .ret .err

/-- r.rbac.ValidatePermissionRequests -/
def withValidation (cfg : Cfg) (p : PR) (k : List Rule → P) : P :=
  match cfg.allowRole with
  | none => k (expand p.requests)
  | some a => .call (.getRole a) fun
    | .role ar _ => k (validate ar.rules p.requests)
    | _ => .ret .err      -- whatever the error class: "cannot validate permission requests"

/-- roles.Reconciler.Reconcile -/
def reconcile (cfg : Cfg) (name : String) : P :=
  .call (.getPR name) fun
    | .notFound => .ret .ok
    | .pr p =>
      if p.paused then .ret .ok
      else if p.deleted then .ret .ok
      else withFamily p fun resources =>
        withValidation cfg p fun rejected =>
          if !rejected.isEmpty then .ret .ok
          else applyRoles p.uid (renderRoles p resources)
    | _ => .ret .err

/-- definition.Reconciler.Reconcile -/
def reconcileXRD (name : String) : P :=
  .call (.getXRD name) fun
    | .notFound => .ret .ok
    | .xrd d => if d.deleted then .ret .ok else applyRoles d.uid (renderXRDRoles d)
    | _ => .ret .err

/-- ClusterRoleBindingsDiffer (the role ref's kind and API group are constants).
`cmp.Equal` distinguishes the desired empty non-nil `subjects` slice from the nil slice
a stored binding without subjects decodes to, so a binding without subjects always "differs". -/
def bindingsDiffer (cur des : Binding) : Bool :=
  cur.subjects != des.subjects || des.subjects.isEmpty || cur.roleRef != des.roleRef || cur.ctrl != des.ctrl

/-- the subjects loop of the binding reconciler: one subject per owner reference with the
revision's UID -/
def subjectsFor (uid : String) (ds : List Deployment) : List Subject :=
  ds.flatMap fun d => (d.owners.filter (· = uid)).map fun _ => ⟨d.ns, d.sa⟩

/-- binding.Reconciler.Reconcile -/
def reconcileBinding (name : String) : P :=
  .call (.getPR name) fun
    | .notFound => .ret .ok
    | .pr p =>
      if p.paused then .ret .ok
      else if p.deleted then .ret .ok
      else .call .listDeployments fun
        | .deploys ds =>
          let n := systemRoleName p.name
          let rb : Binding := ⟨n, n, subjectsFor p.uid ds, some p.uid⟩
          .call (.getBinding n) fun
            | .notFound => .call (.createBinding rb) fun
                | .done => .ret .ok
                | .conflict => .ret .requeue
                | _ => .ret .err
            | .binding cur rv =>
                if notControllable p.uid cur.ctrl then .ret .err
                else if !bindingsDiffer cur rb then .ret .ok
                else .call (.updateBinding rb rv) fun
                  | .done => .ret .ok
                  | .conflict => .ret .requeue
                  | _ => .ret .err
            | .conflict => .ret .requeue
            | _ => .ret .err
        | _ => .ret .err
    | _ => .ret .err

/-! ## the world around one reconcile: other writers, the informer cache, error classes

`World` is everything outside the program: the fault plan, what OTHER clients do to the store
right before API call `k` (`env`: another controller, another replica, an administrator, the
garbage collector), what the informer cache serves to a READ at call `k` (`view`: identity =
fresh; an older store = lag; a store lacking an object = a miss) and an error reply of a given
class injected at call `k` (`inj`; the call is not applied).  Reads go through the cached
client (`mgr.GetClient()`), writes go to the API server.  `run sem plan` is the special case
without other writers, with a fresh cache and no injected class (`runW_plain`, Proofs/C18Interf). -/

/-- the error classes the code distinguishes (everything else – Forbidden, Invalid, a
transport error that is Temporary(), context deadline exceeded – is `other`) -/
inductive ErrRep where
  | notFound | alreadyExists | conflict | other
  deriving DecidableEq, Repr

def ErrRep.toResp : ErrRep → Resp
  | .notFound => .notFound
  | .alreadyExists => .alreadyExists
  | .conflict => .conflict
  | .other => .other

structure World where
  plan : Plan
  env : Env Store
  view : Nat → Store → Store
  inj : Nat → Option ErrRep

/-- no other writer, fresh cache, no injected class -/
def World.plain (plan : Plan) : World := ⟨plan, Env.none, fun _ s => s, fun _ => none⟩

/-- the store a request is answered from: the served view for reads, the API server for writes -/
def World.at (w : World) (k : Nat) (r : Req) (s : Store) : Store :=
  if r.isWrite then w.env k s else w.view k (w.env k s)

/-- final store and result in a world -/
def runW (w : World) : Nat → P → Store → Store × Option Result
  | _, .ret a, s => (s, some a)
  | k, .call r c, s =>
    match w.plan k with
    | .crashBefore => (w.env k s, none)
    | .crashAfter => ((exec (w.env k s) r).1, none)
    | .fail => runW w (k+1) (c (errResp .fail r)) (w.env k s)
    | .conflict => runW w (k+1) (c (errResp .conflict r)) (w.env k s)
    | .ok =>
      match w.inj k with
      | some e => runW w (k+1) (c e.toResp) (w.env k s)
      | none =>
        if r.isWrite then runW w (k+1) (c (exec (w.env k s) r).2) (exec (w.env k s) r).1
        else runW w (k+1) (c (exec (w.view k (w.env k s)) r).2) (w.env k s)

/-- the program's own applied calls, in order: (the store the call was answered from, request) -/
def ownW (w : World) : Nat → P → Store → List (Store × Req)
  | _, .ret _, _ => []
  | k, .call r c, s =>
    match w.plan k with
    | .crashBefore => []
    | .crashAfter => [(w.at k r s, r)]
    | .fail => ownW w (k+1) (c (errResp .fail r)) (w.env k s)
    | .conflict => ownW w (k+1) (c (errResp .conflict r)) (w.env k s)
    | .ok =>
      match w.inj k with
      | some e => ownW w (k+1) (c e.toResp) (w.env k s)
      | none =>
        if r.isWrite then (w.env k s, r) :: ownW w (k+1) (c (exec (w.env k s) r).2) (exec (w.env k s) r).1
        else (w.view k (w.env k s), r) :: ownW w (k+1) (c (exec (w.view k (w.env k s)) r).2) (w.env k s)

/-! ### what another writer can do (used by the driver; the theorems quantify over ALL `env`) -/

inductive Edit where
  | setRole (r : Role) | delRole (name : String)
  | setPR (p : PR) | delPR (name : String)
  | setXRD (d : XRD) | delXRD (name : String)
  | setDeploy (d : Deployment) | delDeploy (ns name : String)
  | setBinding (b : Binding) | delBinding (name : String)
  deriving Repr

/-- replace the element with the same key, or insert keeping the list sorted by key -/
def upsertSorted {α : Type} (key : α → String) (x : α) : List α → List α
  | [] => [x]
  | y :: ys =>
    if key y = key x then x :: ys
    else if key x < key y then x :: y :: ys
    else y :: upsertSorted key x ys

def deployKey (d : Deployment) : String := d.ns ++ "/" ++ d.name

/-- every edit by another writer gives the object a new resourceVersion -/
def applyEdit (s : Store) : Edit → Store
  | .setRole r =>
      { s with roles := if s.roles.any (·.name = r.name) then setRole r s.roles else s.roles ++ [r],
               rv := s.rv + 1, roleRV := (r.name, s.rv + 1) :: s.roleRV }
  | .delRole n => { s with roles := s.roles.filter (·.name ≠ n) }
  | .setPR p => { s with prs := upsertSorted (·.name) p s.prs }
  | .delPR n => { s with prs := s.prs.filter (·.name ≠ n) }
  | .setXRD d => { s with xrds := upsertSorted (·.name) d s.xrds }
  | .delXRD n => { s with xrds := s.xrds.filter (·.name ≠ n) }
  | .setDeploy d => { s with deploys := upsertSorted deployKey d s.deploys }
  | .delDeploy ns n => { s with deploys := s.deploys.filter (fun d => deployKey d ≠ ns ++ "/" ++ n) }
  | .setBinding b =>
      { s with bindings := if s.bindings.any (·.name = b.name) then setBinding b s.bindings else s.bindings ++ [b],
               rv := s.rv + 1, bindingRV := (b.name, s.rv + 1) :: s.bindingRV }
  | .delBinding n => { s with bindings := s.bindings.filter (·.name ≠ n) }

/-- what a cache that has not (yet) seen the named objects serves -/
def hideNames (names : List String) (s : Store) : Store :=
  { s with prs := s.prs.filter (fun p => !names.contains p.name),
           xrds := s.xrds.filter (fun d => !names.contains d.name),
           deploys := s.deploys.filter (fun d => !names.contains d.name),
           roles := s.roles.filter (fun r => !names.contains r.name),
           bindings := s.bindings.filter (fun b => !names.contains b.name) }

end Xp.C18

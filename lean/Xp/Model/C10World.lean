import Xp.Model.C10Compose
/-
C10 model, part 3: PTComposer.Compose in a world that interferes.

The composer is long-lived and is handed one composite resource after the other; the model stays
per call. What one call sees of the world around the Apply of each composed resource is an `Env`:

* `got`   – what the applicator's Get answers: NotFound (the resource does not exist, or the
            informer cache has not seen it yet), an object (possibly an OLDER version than the API
            server holds), or an error of some class;
* `live`  – what the API server holds for that name when the write arrives – a third party
            (another controller, a user, the garbage collector) may have deleted, edited or created
            it after the Get;
* `fault` – the class of the error the API server answers the write with, if any.

APIPatchingApplicator.Apply (crossplane-runtime, resource/api.go) as called by Compose:
Get; NotFound → Create; any other error → fail; otherwise the apply options
(MustBeControllableBy(xr uid), usage.RespectOwnerRefs – a no-op for anything that is not a Usage –,
then the merge options of the template's own from-XR patches), then a JSON merge patch.
Compose tolerates exactly the errors for which kerrors.IsInvalid holds – whichever call raised
them – and returns every other one.

Patch sets: ComposedTemplates (composition_patches.go) replaces, before anything is rendered,
every patch of type PatchSet by the patches of the patch set of exactly that name.
-/
namespace Xp.C10
open V (lookup setKey eraseKey)

/-! ## patch sets (ComposedTemplates) -/

structure PatchSet where
  name : String
  patches : List Patch
  deriving Inhabited

/-- `pn[s.Name] = s.Patches` over the list, then `pn[name]`: the LAST patch set of exactly that name -/
def lookupSet (n : String) : List PatchSet → Option (List Patch)
  | [] => none
  | s :: rest =>
    match lookupSet n rest with
    | some ps => some ps
    | none => if s.name = n then some s.patches else none

/-- a patch set must not contain patches of type PatchSet -/
def setsValid (pss : List PatchSet) : Bool :=
  pss.all fun s => s.patches.all fun p => p.type != "PatchSet"

/-- the patches of one template with the patch sets inlined, in place; `none`: a PatchSet patch
without a name or naming a patch set that is not defined -/
def inlinePatches (pss : List PatchSet) : List Patch → Option (List Patch)
  | [] => some []
  | p :: ps =>
    if p.type = "PatchSet" then
      match p.setName with
      | none => none
      | some n =>
        match lookupSet n pss with
        | none => none
        | some qs => (inlinePatches pss ps).map (qs ++ ·)
    else (inlinePatches pss ps).map (p :: ·)

def inlineEach (pss : List PatchSet) : List (List Patch) → Option (List (List Patch))
  | [] => some []
  | ps :: rest =>
    match inlinePatches pss ps with
    | none => none
    | some q => (inlineEach pss rest).map (q :: ·)

/-- ComposedTemplates(patchSets, templates), on the templates' patch lists -/
def inlineAll (pss : List PatchSet) (tpls : List (List Patch)) : Option (List (List Patch)) :=
  if setsValid pss then inlineEach pss tpls else none

/-! ## the world around one Apply -/

/-- what the applicator's Get answers -/
inductive Got where
  | notFound
  | found (v : V)
  | err (cls : String)
  deriving Inhabited

structure Env where
  got : Got := .notFound
  /-- what the API server holds for the resource's name when the write arrives -/
  live : Option V := none
  /-- class of the error the write is answered with -/
  fault : Option String := none
  deriving Inhabited

/-- the world in which nobody interferes: the cache is fresh, nobody else writes, the API server
answers as the single-call scenario says -/
def Env.quiet (t : Tpl) : Env :=
  { got := if t.refName == "" then .notFound else .found (t.cur.getD .null),
    live := if t.refName == "" then none else some (t.cur.getD .null),
    fault := match t.applyOutcome with
      | .ok => none
      | .invalid => some "invalid"
      | .error => some "error" }

/-- resource.MustBeControllableBy(uid) on the object read -/
def notControllable (uid : String) (cur : V) : Bool :=
  match controllerOf (getORefs cur) with
  | some c => c.uid != uid
  | none => false

/-- What the apply options leave to be sent for a rendered resource, given what the Get answered:
the rendered object itself if nothing was found, else the rendered object after this template's
own merge options against the object read. `none`: nothing can be sent. -/
def bodyW (t : Tpl) (cd : V) : Got → Option V
  | .notFound => some cd
  | .found cur =>
    match applyOpts cur cd t.patches with
    | .ok d => some d
    | .error _ => none
  | .err _ => none

structure ApplyRes where
  /-- the write attempt, if the applicator got that far -/
  write : Option Write
  sent : Option Sent
  /-- `none`: accepted; `some cls`: the Apply failed with an error of that class -/
  outcome : Option String
  /-- the composed resource as the applicator leaves it in memory (read by the to-XR patches) -/
  after : V
  deriving Inhabited

/-- the API server's own answer to a write that no fault was injected for -/
def natural (create : Bool) (live : Option V) : Option String :=
  if create then (if live.isSome then some "alreadyExists" else none)
  else (if live.isSome then none else some "notFound")

/-- client.Apply(ctx, cd, MustBeControllableBy(uid), RespectOwnerRefs(), mergeOptions(own from-XR patches)...) -/
def applyW (uid : String) (i : Nat) (t : Tpl) (e : Env) (cd : V) : ApplyRes :=
  match e.got with
  | .err c => ⟨none, none, some c, cd⟩
  | .notFound =>
    ⟨some ⟨"create", some i⟩, some ⟨i, cd, cd⟩,
      (match e.fault with | some c => some c | none => natural true e.live), cd⟩
  | .found cur =>
    if notControllable uid cur then ⟨none, none, some "notControllable", cd⟩ else
    match applyOpts cur cd t.patches with
    | .error _ => ⟨none, none, some "option", cd⟩
    | .ok d =>
      let stored := match e.live with
        | some l => mergePatchV l d
        | none => .null
      let oc := match e.fault with | some c => some c | none => natural false e.live
      ⟨some ⟨"patch", some i⟩, some ⟨i, d, stored⟩, oc, if oc.isNone then stored else cur⟩

/-- kerrors.IsInvalid -/
def tolerated (cls : String) : Bool := cls == "invalid"

structure LoopW where
  writes : List Write
  sent : List Sent
  applied : List Bool
  afters : List V
  aborted : Bool
  deriving Inhabited

/-- The apply loop in the world `env` (indexed by template position). -/
def applyLoopW (uid : String) (env : Nat → Env) : Nat → List (Tpl × Rendered) → LoopW
  | _, [] => ⟨[], [], [], [], false⟩
  | i, (t, r) :: rest =>
    if !r.rendered then
      let l := applyLoopW uid env (i + 1) rest
      ⟨l.writes, l.sent, false :: l.applied, .null :: l.afters, l.aborted⟩
    else
      let a := applyW uid i t (env i) r.cd
      match a.outcome with
      | none =>
        let l := applyLoopW uid env (i + 1) rest
        ⟨a.write.toList ++ l.writes, a.sent.toList ++ l.sent, true :: l.applied, a.after :: l.afters, l.aborted⟩
      | some c =>
        if tolerated c then
          let l := applyLoopW uid env (i + 1) rest
          ⟨a.write.toList ++ l.writes, a.sent.toList ++ l.sent, false :: l.applied, .null :: l.afters, l.aborted⟩
        else ⟨a.write.toList, a.sent.toList, [false], [.null], true⟩

/-- The observe loop: to-XR patches of every applied resource read the object the applicator left. -/
def observeLoopW : V → List (Tpl × Bool × V) → V × Bool
  | xr, [] => (xr, false)
  | xr, (t, applied, after) :: rest =>
    if !applied then observeLoopW xr rest
    else
      let res := renderToXR xr after t.patches
      match res.err with
      | some _ => (res.xr, true)
      | none => observeLoopW res.xr rest

structure World where
  env : Nat → Env
  /-- the update that persists the references is answered with an error (of any class; the 409
  that follows a concurrent edit of the composite included) -/
  updFails : Bool := false
  /-- the final patch of the composite is answered with an error -/
  xrApplyFails : Bool := false

/-- PTComposer.Compose from the render loop on, in the world `w`. -/
def composeW (xr : V) (tpls : List Tpl) (w : World) : ComposeRes :=
  match renderAll xr tpls with
  | none => ⟨"parseBase", [], [], [], [], [], []⟩
  | some rs =>
    let rendered := rs.map (·.rendered)
    let refs := rs.map fun r => (kindOf r.cd, getMetaStr r.cd "name")
    let upd : Write := ⟨"update", none⟩
    if w.updFails then ⟨"update", rendered, refs, [upd], [], [], []⟩ else
    let l := applyLoopW (getMetaStr xr "uid") w.env 0 (tpls.zip rs)
    if l.aborted then ⟨"apply", rendered, refs, upd :: l.writes, l.sent, l.applied, []⟩ else
    let (_, failed) := observeLoopW xr (zip3 tpls l.applied l.afters)
    if failed then ⟨"toXR", rendered, refs, upd :: l.writes, l.sent, l.applied, []⟩ else
    if w.xrApplyFails then ⟨"update", rendered, refs, upd :: l.writes ++ [⟨"patch", none⟩], l.sent, l.applied, []⟩ else
    ⟨"", rendered, refs, upd :: l.writes ++ [⟨"patch", none⟩], l.sent, l.applied, l.applied⟩

/-- the world in which nobody interferes -/
def World.quiet (tpls : List Tpl) (updateFails : Bool) : World :=
  { env := fun i => match tpls[i]? with
      | some t => Env.quiet t
      | none => {},
    updFails := updateFails }

/-! ## one step of a sequence: inlining, then Compose -/

/-- what identifies a patch as authored (the oracle tables are attached per template by the harness) -/
def Patch.key (p : Patch) : String × Option String × Option String × Option String :=
  (p.type, p.fromPath.map (·.raw), p.toPath.map (·.raw), p.policy.bind (·.fromFieldPath))

def sameKeys : List Patch → List Patch → Bool
  | [], [] => true
  | a :: as, b :: bs => a.key == b.key && sameKeys as bs
  | _, _ => false

def sameKeysAll : List (List Patch) → List (List Patch) → Bool
  | [], [] => true
  | a :: as, b :: bs => sameKeys a b && sameKeysAll as bs
  | _, _ => false

def withPatches : List Tpl → List (List Patch) → List Tpl
  | t :: ts, ps :: pss => { t with patches := ps } :: withPatches ts pss
  | _, _ => []

/-- One reconcile: `tpls` as authored, `sets` the revision's patch sets, `inl` the inlined patches
with their oracle tables as the harness attached them (they must be, patch by patch, the ones
`inlineAll` yields). -/
def stepW (xr : V) (sets : List PatchSet) (tpls : List Tpl) (inl : List (List Patch)) (w : World) : ComposeRes :=
  match inlineAll sets (tpls.map (·.patches)) with
  | none => ⟨"inline", [], [], [], [], [], []⟩
  | some ps =>
    if sameKeysAll ps inl then composeW xr (withPatches tpls inl) w
    else ⟨"inlineMismatch", [], [], [], [], [], []⟩

end Xp.C10

import Xp.Model.C14
/-
C14, the world around one reconcile of the package manager.

`Xp.C14.exec` (Model/C14.lean) is the API server as ONE writer sees it through an
uncached client.  The real reconciler is built with `mgr.GetClient()`: its reads (Get
package, List revisions, the Get inside `APIPatchingApplicator.Apply`) are served by an
informer cache that may lag, its writes go to the API server, which checks the
resourceVersion a write carries; other clients (a user, the revision controller, the
garbage collector, another replica) write between its calls; a failing call fails with an
error of some class.  This file models that world:

* `View`  - what the informer cache holds (a parameter: the theorems quantify over it),
* `World` - the stored objects, the cache, and which objects have moved on since the
            reconciler was handed them (a write carrying their old resourceVersion conflicts),
* `execW` - the API server + cache as the reconciler's client sees it,
* `Act`   - an action of another client, `Sched` - per API-call index an outcome (with an
            error class) and the actions of other clients right before the call,
* `runW` / `reachW` / `ownW` - `Xp.run` / `reach` / `applied` in that world.

`runW_fresh` (Proofs/C14World.lean): with a fresh cache, no other client and the error classes
of a plain fault plan this is exactly `Xp.run sem`, so every theorem about `sem` is the
interference-free, lag-free special case.
-/
namespace Xp.C14

/-- what the informer cache behind the reconciler's client holds -/
structure View where
  /-- the revisions of the kind as cached (`none` = as stored) -/
  revs : Option (List Rev) := none
  /-- the package as cached: `none` = as stored, `some none` = not in the cache yet,
  `some (some p)` = an OLDER version `p` -/
  pkg : Option (Option Pkg) := none
  deriving Repr, Inhabited

structure World where
  live : Store
  view : View := {}
  /-- the names the last List of revisions handed out: a Patch of one of them carries the
  resourceVersion it was listed with -/
  listed : List String := []
  /-- revisions whose stored version is newer than the one the reconciler holds -/
  dirty : List String := []
  /-- the stored package is newer than the one the reconciler was handed -/
  pkgDirty : Bool := false
  deriving Repr, Inhabited

/-- a world seen through a fresh cache by the only writer -/
def World.fresh (s : Store) : World := { live := s }

def liftW (w : World) (r : Req) : World × Resp :=
  ({ w with live := (exec w.live r).1 }, (exec w.live r).2)

/-- the revisions a cached read sees -/
def cachedRevs (w : World) : List Rev := w.view.revs.getD w.live.revs

def undirty (n : String) (w : World) : World := { w with dirty := w.dirty.filter (· ≠ n) }

/-- after a write of revision `n` that answered with the object, the reconciler holds its newest version -/
def wrote (n : String) (x : World × Resp) : World × Resp :=
  match x.2 with
  | .rev _ => (undirty n x.1, x.2)
  | _ => x

def execW (w : World) : Req → World × Resp
  | .getPkg n =>
    match w.view.pkg with
    | none => ({ w with pkgDirty := false }, (exec w.live (.getPkg n)).2)
    | some none => (w, .err .notFound)
    | some (some p) => if p.name = n then ({ w with pkgDirty := true }, .pkg p) else (w, .err .notFound)
  | .statusPkg n st => if w.pkgDirty then (w, .err .conflict) else liftW w (.statusPkg n st)
  | .listRevs par =>
    let l := (cachedRevs w).filter (fun r => r.parent = some par)
    -- a List served from a fresh cache hands out the stored versions
    ({ w with listed := l.map (·.name),
              dirty := if w.view.revs.isNone then w.dirty.filter (fun n => n ∉ l.map (·.name)) else w.dirty }, .revs l)
  | .listImageConfigs => (w, .ok)
  | .getRev n =>
    match findRev n (cachedRevs w) with
    | some r => (w, .rev r)
    | none => (w, .err .notFound)
  | .createRev r hasRV => wrote r.name (liftW w (.createRev r hasRV))
  | .patchRev d =>
    match findRev d.name w.live.revs with
    | none => (w, .err .notFound)
    | some _ =>
      if d.name ∈ w.listed ∧ d.name ∈ w.dirty then (w, .err .conflict)
      else wrote d.name (liftW w (.patchRev d))
  | .updateRev d =>
    match findRev d.name w.live.revs with
    | none => (w, .err .notFound)
    | some _ =>
      if d.name ∈ w.dirty then (w, .err .conflict)
      else wrote d.name (liftW w (.updateRev d))
  | .deleteRev n => liftW w (.deleteRev n)
  | .env a => liftW w (.env a)

/-! ### other clients -/

/-- an action of another client of the API server; none of them makes a revision Active -/
inductive Act where
  | edit (sp : Spec)      -- a user edits the package
  | touch (n : String)    -- the revision controller writes revision `n` (status, its finalizer)
  | del (n : String)      -- somebody deletes revision `n`
  | deact (n : String)    -- somebody sets revision `n` Inactive
  | create (r : Rev)      -- somebody creates revision `r` (never Active)
  | sync                  -- the informer cache catches up
  deriving Repr, Inhabited

def setLive (w : World) (revs : List Rev) (n : String) : World :=
  { w with live := { w.live with revs := revs }, dirty := n :: w.dirty }

def actW (w : World) : Act → World
  | .edit sp =>
    match w.live.pkg with
    | some p => if p.spec = sp then w else { w with live := { w.live with pkg := some { p with spec := sp } }, pkgDirty := true }
    | none => w
  | .touch n =>
    match findRev n w.live.revs with
    | some c => setLive w (setRev { c with fin := true } w.live.revs) n
    | none => w
  | .del n =>
    match findRev n w.live.revs with
    | some c =>
      if c.fin then (if c.deleting then w else setLive w (setRev { c with deleting := true } w.live.revs) n)
      else setLive w (w.live.revs.filter (fun r => r.name ≠ n)) n
    | none => w
  | .deact n =>
    match findRev n w.live.revs with
    | some c => if c.state = .inactive then w else setLive w (setRev { c with state := .inactive } w.live.revs) n
    | none => w
  | .create r =>
    match findRev r.name w.live.revs with
    | some _ => w
    | none =>
      setLive w (insertRev { r with deleting := false, state := if r.state = .active then .inactive else r.state } w.live.revs) r.name
  | .sync => { w with view := {} }

/-! ### schedules: outcome (with error class) and other clients' actions per API-call index -/

inductive Out where
  | ok
  | fail (e : Err)   -- not applied; the reconciler sees an error of class `e` (a Conflict on a read is a server error)
  | crashBefore
  | crashAfter
  deriving DecidableEq, Repr, Inhabited

structure Sched where
  out : Nat → Out
  env : Nat → World → World

def failResp (e : Err) (r : Req) : Resp :=
  if e = .conflict ∧ isWrite r = false then .err .other else .err e

/-- the plain fault plans of `Xp.Base.Prog`: nobody else acts, a failure is a server error -/
def Sched.ofPlan (plan : Plan) : Sched :=
  { out := fun k => match plan k with
      | .ok => .ok
      | .fail => .fail .other
      | .conflict => .fail .conflict
      | .crashBefore => .crashBefore
      | .crashAfter => .crashAfter
    env := fun _ w => w }

variable {α : Type}

/-- final world and result (`none` = crashed) -/
def runW (sc : Sched) : Nat → P α → World → World × Option α
  | _, .ret a, w => (w, some a)
  | k, .call r c, w =>
    match sc.out k with
    | .ok => runW sc (k+1) (c (execW (sc.env k w) r).2) (execW (sc.env k w) r).1
    | .fail e => runW sc (k+1) (c (failResp e r)) (sc.env k w)
    | .crashBefore => (sc.env k w, none)
    | .crashAfter => ((execW (sc.env k w) r).1, none)

/-- every world visible at some instant: the start, after what other clients did before each
call, after each call -/
def reachW (sc : Sched) : Nat → P α → World → List World
  | _, .ret _, w => [w]
  | k, .call r c, w =>
    match sc.out k with
    | .ok => w :: sc.env k w :: reachW sc (k+1) (c (execW (sc.env k w) r).2) (execW (sc.env k w) r).1
    | .fail e => w :: reachW sc (k+1) (c (failResp e r)) (sc.env k w)
    | .crashBefore => [w, sc.env k w]
    | .crashAfter => [w, sc.env k w, (execW (sc.env k w) r).1]

/-- the start and the world right after each call was answered (what the harness snapshots) -/
def afterW (sc : Sched) : Nat → P α → World → List World
  | _, .ret _, w => [w]
  | k, .call r c, w =>
    match sc.out k with
    | .ok => w :: afterW sc (k+1) (c (execW (sc.env k w) r).2) (execW (sc.env k w) r).1
    | .fail e => w :: afterW sc (k+1) (c (failResp e r)) (sc.env k w)
    | .crashBefore => [w, sc.env k w]
    | .crashAfter => [w, (execW (sc.env k w) r).1]

/-- the reconciler's own applied calls: (world at the moment of the call, request, reply) -/
def ownW (sc : Sched) : Nat → P α → World → List (World × Req × Resp)
  | _, .ret _, _ => []
  | k, .call r c, w =>
    match sc.out k with
    | .ok => (sc.env k w, r, (execW (sc.env k w) r).2) :: ownW sc (k+1) (c (execW (sc.env k w) r).2) (execW (sc.env k w) r).1
    | .fail e => ownW sc (k+1) (c (failResp e r)) (sc.env k w)
    | .crashBefore => []
    | .crashAfter => [(sc.env k w, r, (execW (sc.env k w) r).2)]

/-- every reply the reconciler received, applied or failed: (request, reply) -/
def heardW (sc : Sched) : Nat → P α → World → List (Req × Resp)
  | _, .ret _, _ => []
  | k, .call r c, w =>
    match sc.out k with
    | .ok => (r, (execW (sc.env k w) r).2) :: heardW sc (k+1) (c (execW (sc.env k w) r).2) (execW (sc.env k w) r).1
    | .fail e => (r, failResp e r) :: heardW sc (k+1) (c (failResp e r)) (sc.env k w)
    | .crashBefore => []
    | .crashAfter => []

/-- the Active revisions of `pname` stored in a world -/
def activeW (pname : String) (w : World) : List Rev := activeRevs pname w.live

end Xp.C14

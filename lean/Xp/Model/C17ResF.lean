import Xp.Model.C17
import Xp.Model.C17Rec
/-
C17 model, part 3: PackageDependencyManager.Resolve with a missing Lock and with a failing API
call. Resolve's calls on the Lock are: Get (NotFound: Create); for a moved revision RemoveSelf
(Get; Update when an entry with the revision's name is there) and the refreshing Get; the Update
that records the revision. `Fault` makes call number `k` (0-based, in that order) come back with
an error of class `cls` instead of being carried out; what the other writers do right before that
call (`Interf`) still happens. The code branches on the class at two calls only: NotFound on the
first Get (the Lock is created) and NotFound on RemoveSelf's Get (nothing to remove); every other
error is returned as it is. `resolveI` (no Lock missing, no call failing) is the special case
(`Props: resolveF_without_faults`, `absent_lock_is_the_empty_lock`).
-/
namespace Xp.C17

structure Fault where
  k : Nat
  cls : ErrClass
  deriving DecidableEq, Repr

def failAt (f : Option Fault) (k : Nat) : Option ErrClass :=
  match f with
  | some x => if x.k = k then some x.cls else none
  | none => none

inductive ResErrF where
  /-- what Resolve itself concludes -/
  | res (e : ResErr)
  /-- "cannot get or create lock" -/
  | getOrCreate (c : ErrClass)
  /-- the error of a later call, returned as it is -/
  | api (c : ErrClass)
  deriving DecidableEq, Repr

structure ResOutF where
  found : Int
  installed : Int
  invalid : Int
  err : ResErrF
  /-- the Lock's packages as stored when the call returns; `none`: there is no Lock -/
  lock : Option (List Pkg)
  deriving Repr

def ResOut.lift (r : ResOut) : ResOutF := ⟨r.found, r.installed, r.invalid, .res r.err, some r.lock⟩

/-- the last part of Resolve: the DAG `d` was built from the lock as last read (`l1`); the Update
that records the revision is call `k` -/
def tailF (o : Oracle) (upg : Bool) (self : Pkg) (env : Interf) (f : Option Fault)
    (l1 : List Pkg) (d : Dag) (imp : List Dep) (k : Nat) : ResOutF :=
  if l1.any (fun lp => lp.name == self.name) then (resolveTail o upg self l1 d imp).lift
  else
    match failAt f k with
    | some c => ⟨self.deps.length, 0, 0, .api c, some (env.upd.getD l1)⟩
    | none =>
      match env.upd with
      | some w => ⟨self.deps.length, 0, 0, .res .conflict, some w⟩
      | none => (resolveTail o upg self l1 d imp).lift

/-- the refreshing Get (call `k`) after RemoveSelf left `stored`, Init on what it returns -/
def refreshF (o : Oracle) (upg : Bool) (self : Pkg) (env : Interf) (f : Option Fault)
    (stored : List Pkg) (k : Nat) : ResOutF :=
  match failAt f k with
  | some c => ⟨self.deps.length, 0, 0, .api c, some (env.refresh.getD stored)⟩
  | none =>
    match init o upg (env.refresh.getD stored) with
    | .error _ => ⟨self.deps.length, 0, 0, .res .initDag, some (env.refresh.getD stored)⟩
    | .ok (d, imp) => tailF o upg self env f (env.refresh.getD stored) d imp (k + 1)

/-- Resolve after its first Get returned `l`; the next call is number `k` -/
def restF (o : Oracle) (upg : Bool) (self : Pkg) (env : Interf) (f : Option Fault) (l : List Pkg) (k : Nat) : ResOutF :=
  match init o upg l with
  | .error _ => ⟨self.deps.length, 0, 0, .res .initDag, some l⟩
  | .ok (d0, imp0) =>
    if l.any (movedEntry self) then
      -- RemoveSelf: Get (call k) ...
      match failAt f k with
      | some c =>
        -- "If lock does not exist then we don't need to remove self"
        if c = .notFound then refreshF o upg self env f (env.rmGet.getD l) (k + 1)
        else ⟨self.deps.length, 0, 0, .api c, some (env.rmGet.getD l)⟩
      | none =>
        if (env.rmGet.getD l).any (fun lp => lp.name == self.name) then
          -- ... and Update (call k+1)
          match failAt f (k + 1) with
          | some c => ⟨self.deps.length, 0, 0, .api c, some (env.rmUpd.getD (env.rmGet.getD l))⟩
          | none =>
            match env.rmUpd with
            | some w => ⟨self.deps.length, 0, 0, .res .conflict, some w⟩
            | none => refreshF o upg self env f (removeSelf (env.rmGet.getD l) self.name) (k + 2)
        else refreshF o upg self env f (env.rmGet.getD l) (k + 1)
    else tailF o upg self env f l d0 imp0 k

/-- Resolve (with fixes/D21.diff) for an active revision; `lock = none`: there is no Lock object -/
def resolveF (o : Oracle) (upg : Bool) (lock : Option (List Pkg)) (self : Pkg) (env : Interf) (f : Option Fault) : ResOutF :=
  match failAt f 0, lock with
  | some c, _ =>
    if c = .notFound then
      -- the Get says NotFound: Create (call 1)
      match failAt f 1, lock with
      | some c1, _ => ⟨self.deps.length, 0, 0, .getOrCreate c1, lock⟩
      | none, some _ => ⟨self.deps.length, 0, 0, .getOrCreate .alreadyExists, lock⟩
      | none, none => restF o upg self env f [] 2
    else ⟨self.deps.length, 0, 0, .getOrCreate c, lock⟩
  | none, none =>
    match failAt f 1 with
    | some c1 => ⟨self.deps.length, 0, 0, .getOrCreate c1, none⟩
    | none => restF o upg self env f [] 2
  | none, some l => restF o upg self env f l 1

/-- the lock contents one of Resolve's Gets may hand to Init on a path that can end without error -/
def readsF (lock : Option (List Pkg)) (self : Pkg) (env : Interf) : List (List Pkg) :=
  let l := lock.getD []
  [l, env.refresh.getD (removeSelf (env.rmGet.getD l) self.name), env.refresh.getD (env.rmGet.getD l)]

end Xp.C17

/-
C15: `xpkg.teeReadCloser` (internal/xpkg/reader.go) – the reader the revision reconciler hands
to the parser while the image stream is copied into `cache.Store` through a pipe.

    func (t *teeReadCloser) Read(b []byte) (int, error) {
        if t.err != nil { return 0, t.err }            -- sticky (fixes/D18.diff)
        n, err := t.t.Read(b)                          -- io.TeeReader(r, w)
        if err != nil && !errors.Is(err, io.EOF) { t.err = err }
        return n, err
    }

`io.TeeReader.Read` (standard library, taken as documented): `n, err = r.Read(p)`; if `n > 0`
it writes `p[:n]` to `w`, and a write error is returned as `(bytes written, write error)`.

The source is a script of read results (one per `Read` of the source: some bytes and
ok / EOF / failure; an exhausted script reads `(0, EOF)`), the writer accepts bytes until it
holds `cap` of them and fails from then on (what a pipe whose reader was closed with an error,
or a file system that fails at byte `cap`, does).  A consumer is ANY number of `Read`s – also
one that overlooks an error and reads on, as `bufio.Reader.ReadLine` under the YAML reader does
when it holds a partial line.

`sticky = false` is the reader without fixes/D18.diff (the error is reported once).
-/
namespace Xp.C15

/-- what one `Read` reports besides the bytes -/
inductive RRes where
  | ok | eof | srcErr | writeErr
  deriving DecidableEq, Repr

def RRes.isErr : RRes → Bool
  | .srcErr | .writeErr => true
  | _ => false

/-- one read result of the source: bytes, and ok / eof / srcErr -/
structure SrcEv where
  data : List Nat
  res : RRes
  deriving DecidableEq, Repr

structure Tee where
  src : List SrcEv            -- what the source will answer
  cap : Option Nat := none    -- the writer fails once it holds this many bytes
  out : List Nat := []        -- what the writer accepted so far
  err : Option RRes := none   -- `t.err`
  deriving DecidableEq, Repr

/-- bytes of `d` the writer still accepts -/
def Tee.room (t : Tee) (d : List Nat) : Nat :=
  match t.cap with
  | none => d.length
  | some c => min (c - t.out.length) d.length

/-- one `teeReadCloser.Read` (with a buffer that holds a whole source read) -/
def Tee.read (sticky : Bool) (t : Tee) : (List Nat × RRes) × Tee :=
  match (if sticky then t.err else none) with
  | some e => (([], e), t)
  | none =>
    match t.src with
    | [] => (([], .eof), t)
    | ev :: rest =>
      if t.room ev.data < ev.data.length then
        -- io.TeeReader: the write fails; the bytes written are reported with the write error
        ((ev.data.take (t.room ev.data), .writeErr),
         { t with src := rest, out := t.out ++ ev.data.take (t.room ev.data), err := some .writeErr })
      else
        ((ev.data, ev.res),
         { t with src := rest, out := t.out ++ ev.data, err := if ev.res.isErr then some ev.res else t.err })

/-- `n` consecutive reads: what each returned, and the state after them -/
def Tee.reads (sticky : Bool) : Nat → Tee → List (List Nat × RRes) × Tee
  | 0, t => ([], t)
  | n + 1, t =>
    let (r, t') := t.read sticky
    let (rs, t'') := Tee.reads sticky n t'
    (r :: rs, t'')

/-- everything the consumer was handed -/
def seenBytes (rs : List (List Nat × RRes)) : List Nat := rs.flatMap (·.1)

/-- all bytes of a source script -/
def srcBytes (es : List SrcEv) : List Nat := es.flatMap (·.data)

end Xp.C15

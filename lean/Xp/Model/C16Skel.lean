import Xp.Model.C16World
import Xp.Model.C16Enrich
/-
C16 call skeletons: for every Go function the C16 model mirrors, the ordered list of calls
(and early `return`s) the model was written against, one entry per call with the model step
that mirrors it. `harness/main/c16_dump.go` regenerates the same lists with go/ast from the
CURRENT tree into `Xp/Gen/C16Skel.lean`; `Props/C16.lean` (section 11) states that the two are
equal. A call inserted, removed or moved in one of these functions breaks an obligation
before any scenario runs.

Entry format (harness/main/skel.go): the dotted call chain with the receiver dropped
(`e.client.Get` -> `client.Get`), calls of function literals (the goroutine bodies) in source
order, an outer call before the calls in its arguments, `return` for every return statement
(recorded BEFORE the calls of its own result expression).
-/
namespace Xp.C16

/-- `APIEstablisher.Establish` — model: `establish` / `establishI` / `establishV` -/
def skelEstablish : List String :=
  ["addLabels",            -- `addLabels` (Model/C16Enrich.lean) on every package object, before anything else
   "return",               --   its error (an object that is no resource.Object): not modelled, package objects always are
   "validate",             -- `getCert` then `validateAll … (pick objs vorder)`
   "return",               --   `establishCore`: `(s1, .err e)` / `(s1, .crash)` — the establish phase is not entered
   "establish",            -- `establishAll … (pickCD cds eorder)`
   "return",               --   its error: no references
   "return"]               -- `.ok refs`

/-- `APIEstablisher.addLabels` — model: `addLabels` (Model/C16Enrich.lean) -/
def skelAddLabels : List String :=
  ["parent.GetCommonLabels",   -- `common` argument of `addLabels`
   "return",                   -- not a resource.Object: not modelled
   "d.GetLabels",              -- `labels` argument; nil = `none`
   "d.SetLabels",              -- nil labels: `some common`… the object gets the parent's map itself
   "return"]

/-- `APIEstablisher.validate` — model: `getCert`, `validateAll`, `validateOne`, `validateGo` (`…V` in the world) -/
def skelValidate : List String :=
  ["getWebhookTLSCert",         -- `getCert` (only `control` and a parent with a runtime)
   "return",                    --   `establish`: `.err e` / `.crash` before any goroutine
   "errgroup.WithContext",      -- goroutines: `validateAll` over `pick objs vorder` (completion order = parameter `vorder`)
   "g.SetLimit",                --   1/2/4 in the harness; the model runs them one after the other in completion order
   "g.Go",
   "return",                    -- errAssertResourceObj: not modelled
   "enrichControlledResource",  -- `validateOne`: refusal of a CRD with webhook conversion and no CA bundle; the rewriting is `enrich` (Model/C16Enrich.lean)
   "return",                    --   `(s, .err .other)` before any API call
   "res.DeepCopyObject",        -- `current` starts as a copy of desired: irrelevant, the Get overwrites it
   "return",                    -- errAssertClientObj: not modelled
   "client.Get",                -- `fault i .get`, then `s.get d.key` (`viewOf` in the world: the informer cache)
   "resource.IgnoreNotFound",
   "return",                    --   `.err .other` / `.crash`
   "kerrors.IsNotFound",        -- `none` branch
   "create",                    --   control: `apiCreate rejects true (fault i .dry) … createRefs` (DRY RUN)
   "return",                    --   its error
   "return",                    --   `.ok ⟨des, none⟩`
   "ctx.Done",                  --   the channel has room for every object; a cancelled context is a fault of the plan
   "return",
   "update",                    -- `some cur` branch: `updateSub`, `apiUpdate rejects true (fault i .dry)` (DRY RUN)
   "return",                    --   its error (AddControllerReference: `.notControllable`, or the API's)
   "return",                    --   `.ok cd`
   "ctx.Done",
   "return",
   "g.Wait",                    -- the first error in completion order (`validateAll` keeps the first `.err`)
   "return",
   "close",
   "return"]                    -- `.ok cds`

/-- `APIEstablisher.getWebhookTLSCert` — model: `getCert` -/
def skelGetWebhookTLSCert : List String :=
  ["parentWithRuntime.GetTLSServerSecretName",  -- `Tls.noName`
   "return",                                     --   `.ok ()` without a read
   "client.Get",                                 -- `fault 0 .tls`; `Tls.missing` = NotFound
   "return",                                     --   `.err .other`
   "return",                                     -- `Tls.empty`: `.err .other`
   "return"]                                     -- `Tls.present`

/-- `APIEstablisher.establish` — model: `establishAll`, `establishOne` (`…I` under interference) -/
def skelEstablishPhase : List String :=
  ["errgroup.WithContext",   -- goroutines: `establishAll` over `pickCD cds eorder` (completion order = parameter `eorder`)
   "g.SetLimit",
   "g.Go",
   "create",                 -- `cd.current = none` and control: `apiCreate rejects false (fault i .real)`
   "return",
   "meta.TypedReferenceTo",  -- the reference of a created object: `⟨key, kinded := false⟩` (the typed client cleared TypeMeta);
                             --   of an object an inactive revision did not create: `⟨key, true⟩`
   "return",
   "ctx.Done",
   "return",
   "update",                 -- `cd.current = some cur`: `updateSub`, `apiUpdate rejects false (fault i .real)`
   "return",
   "meta.TypedReferenceTo",  -- `⟨key, true⟩`
   "return",
   "ctx.Done",
   "return",
   "g.Wait",                 -- first error in completion order (`establishAll`); every goroutine runs
   "return",                 --   no references are returned with an error
   "close",
   "return"]

/-- `APIEstablisher.create` — model: `createRefs`, `apiCreate` -/
def skelCreate : List String :=
  ["meta.AsController",         -- `asController p`
   "meta.TypedReferenceTo",
   "GetPackageOwnerReference",  -- `pkgRef p` (controller := false)
   "obj.SetOwnerReferences",    -- `{ des with owners := createRefs p }`: whatever the package said is overwritten
   "return",
   "client.Create"]             -- `apiCreate`

/-- `APIEstablisher.update` — model: `withPkg`, `updateSub`, `apiUpdate` -/
def skelUpdate : List String :=
  ["GetPackageOwnerReference",     -- `pkgRef p`
   "meta.AddOwnerReference",       -- `withPkg p cur.owners`
   "meta.AddOwnerReference",       -- !control: `addOwner (withPkg …) (asOwner p)`
   "meta.AsOwner",
   "meta.TypedReferenceTo",
   "return",
   "client.Update",                --   submits CURRENT (content untouched): `{ cur with owners := … }`
   "desired.SetOwnerReferences",   -- control: desired takes over current's references …
   "current.GetOwnerReferences",
   "meta.AddControllerReference",  --   … `addController (withPkg …) (asController p)`
   "meta.AsController",
   "meta.TypedReferenceTo",
   "return",                       --   `.error .notControllable`: somebody else controls it
   "desired.SetResourceVersion",   --   `rv := cur.rv`
   "current.GetResourceVersion",
   "return",
   "client.Update"]                --   submits DESIRED: `{ des with owners := refs, rv := cur.rv }`

/-- `APIEstablisher.ReleaseObjects` — model: `release`, `releaseAll`, `releaseOne`, `releaseSub` (`…V` in the world) -/
def skelReleaseObjects : List String :=
  ["parent.GetObjects",       -- `refs` = status.objectRefs
   "return",                  -- empty list: `releaseAll … [] = .ok ()`
   "errgroup.WithContext",    -- goroutines: `releaseAll` over `pick refs order`
   "g.SetLimit",
   "g.Go",
   "ctx.Done",                -- `ran i`: a goroutine started after another one failed does nothing
   "return",
   "u.SetName",               -- the lookup key; a reference without kind cannot be looked up (`!ref.kinded`)
   "client.Get",              -- `fault i .get`, `s.get ref.key` (unstructured: not cached)
   "kerrors.IsNotFound",
   "return",                  --   gone: `.ok ()`
   "return",                  --   `.err .other`
   "u.GetOwnerReferences",
   "parent.GetUID",           -- `releaseSub`: the FIRST entry with the revision's uid, `flipFirst`
   "meta.AsOwner",            --   no entry: append `asOwner p`
   "meta.TypedReferenceTo",
   "u.SetOwnerReferences",
   "client.Update",           -- `apiUpdate rejects false (fault i .real)`, only when something changed
   "return",
   "return",
   "return",
   "g.Wait"]

/-- `GetPackageOwnerReference` — model: `pkgRef` (and `pkgOwner` of Model/C16Enrich.lean) -/
def skelGetPackageOwnerReference : List String :=
  ["rev.GetLabels",            -- `p.label`
   "rev.GetOwnerReferences",   -- `p.owners.find? (·.name = p.label)`: the first one with that NAME
   "return",
   "return"]

/-- `Reconciler.Reconcile`, what concerns the package objects — model: `reconcileRev` / `reconcileRevV` / `reconcileState` -/
def skelReconcile : List String :=
  ["client.Status.Update",      -- (revision being deleted / paused / pre-hook paths: not modelled, the harness never takes them)
   "lock.RemoveSelf",
   "kerrors.IsConflict", "kerrors.IsConflict",
   "client.Status.Update", "client.Status.Update",
   "kerrors.IsConflict",
   "client.Status.Update", "client.Status.Update",
   "pr.GetDesiredState",        -- `ds = inactiveState` (`!r.active`)
   "deactivateRevision",        --   `release … (sys.refs uid)`
   "kerrors.IsConflict",        --   `.err x` (requeue or error: the list is kept either way)
   "pr.GetObjects",             --   `(sys.refs uid).length > 0`: the shortcut
   "client.Status.Update",      --   … ends in a status update: `.ok ()`, refused (`.err .conflict`) when the revision was read stale
   "client.Status.Update", "client.Status.Update", "client.Status.Update", "client.Status.Update", "client.Status.Update",
                                -- (fetching / parsing / linting the package: the harness's package cache and parser always succeed)
   "client.Update",             -- the update of the revision's metadata that precedes Establish: refused for a stale revision
                                --   (`reconcileRevV`, `staleRefs = some _`: Establish is never reached)
   "kerrors.IsConflict",
   "client.Status.Update", "client.Status.Update",
   "kerrors.IsConflict",
   "client.Status.Update",
   "kerrors.IsConflict",
   "client.Status.Update",
   "objects.Establish",         -- `establishAndRecord`: `establish … r.parent r.active … r.objs`
   "pkg.GetObjects",            --   `r.objs`
   "pr.GetDesiredState",        --   control = `ds = activeState`
   "kerrors.IsConflict",        --   error: `(⟨s', sys.refs⟩, .err x)` — the list is NOT touched
   "client.Status.Update",
   "sort.Slice",                -- `e.sortRefs` (unstable sort: an arbitrary function in the theorems, `sortRefsDesc` in the driver)
   "uniqueResourceIdentifier", "uniqueResourceIdentifier",
   "pr.SetObjects",             -- `setRefs sys.refs uid (sortRefs ks)` — only after a successful Establish
   "kerrors.IsConflict",        -- (post hook: ConfigurationRevision parents have none)
   "client.Status.Update",
   "client.Status.Update"]      -- the status update that persists the list

/-- `Reconciler.deactivateRevision` — model: the `release` call of `reconcileRev` -/
def skelDeactivateRevision : List String :=
  ["lock.RemoveSelf",            -- not modelled: the lock holds no package object (the harness's lock always succeeds)
   "objects.ReleaseObjects",     -- `release e.rejects e.fault r.parent e.ran sys.store (sys.refs uid) e.rorder`
   "runtimeHook.Deactivate"]     -- not modelled: no runtime hook in the harness's reconciler

end Xp.C16

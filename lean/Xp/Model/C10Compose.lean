import Xp.Model.C10
/-
C10 model, part 2: RenderFromJSON, RenderComposedResourceMetadata and the render / apply loops of
PTComposer.Compose (composition_render.go, composition_pt.go), over the unstructured accessors of
k8s.io/apimachinery they use; the apply step for one composed resource (merge.go: mergeOptions,
withMergeOptions, mergeReplace, mergePath; crossplane-runtime APIPatchingApplicator.Apply; the API
server's JSON merge patch).
-/
namespace Xp.C10
open V (lookup setKey eraseKey)

/-! ## unstructured metadata accessors -/

/-- unstructured.SetNestedField(obj, v, "metadata", key); the error for a non-map metadata is dropped -/
def setMeta (o : V) (key : String) (v : V) : V :=
  match o with
  | .obj m =>
    match lookup "metadata" m with
    | none => .obj (setKey "metadata" (.obj [(key, v)]) m)
    | some (.obj md) => .obj (setKey "metadata" (.obj (setKey key v md)) m)
    | some _ => o
  | _ => o

/-- unstructured.RemoveNestedField(obj, "metadata", key) -/
def removeMeta (o : V) (key : String) : V :=
  match o with
  | .obj m =>
    match lookup "metadata" m with
    | some (.obj md) => .obj (setKey "metadata" (.obj (eraseKey key md)) m)
    | _ => o
  | _ => o

/-- getNestedString(obj, "metadata", key) -/
def getMetaStr (o : V) (key : String) : String :=
  match o.get? "metadata" with
  | some (.obj md) =>
    match lookup key md with
    | some (.str s) => s
    | _ => ""
  | _ => ""

def topStr (o : V) (key : String) : String :=
  match o.get? key with
  | some (.str s) => s
  | _ => ""

def allStrings : List (String × V) → Option (List (String × String))
  | [] => some []
  | (k, .str s) :: rest => (allStrings rest).map ((k, s) :: ·)
  | _ :: _ => none

/-- NestedStringMap(obj, "metadata", key): nil unless a map all of whose values are strings -/
def strMap (o : V) (key : String) : Option (List (String × String)) :=
  match o.get? "metadata" with
  | some (.obj md) =>
    match lookup key md with
    | some (.obj l) => allStrings l
    | _ => none
  | _ => none

def lookupS (k : String) : List (String × String) → String
  | [] => ""
  | (k', v) :: rest => if k' = k then v else lookupS k rest

def setS (k v : String) : List (String × String) → List (String × String)
  | [] => [(k, v)]
  | (k', v') :: rest => if k' = k then (k, v) :: rest else (k', v') :: setS k v rest

/-- meta.AddLabels / meta.AddAnnotations -/
def addStrMap (o : V) (key : String) (add : List (String × String)) : V :=
  let merged := match strMap o key with
    | none => add
    | some cur => add.foldl (fun acc (k, v) => setS k v acc) cur
  setMeta o key (.obj (merged.map fun (k, v) => (k, V.str v)))

structure ORef where
  apiVersion : String
  kind : String
  name : String
  uid : String
  controller : Option Bool
  block : Option Bool
  deriving Repr, Inhabited

def optBoolAt (m : List (String × V)) (k : String) : Option Bool :=
  match lookup k m with
  | some (.bool b) => some b
  | _ => none

def strAt (m : List (String × V)) (k : String) : String :=
  match lookup k m with
  | some (.str s) => s
  | _ => ""

/-- extractOwnerReference -/
def orefOf (m : List (String × V)) : ORef :=
  { apiVersion := strAt m "apiVersion", kind := strAt m "kind", name := strAt m "name", uid := strAt m "uid",
    controller := optBoolAt m "controller", block := optBoolAt m "blockOwnerDeletion" }

def allMaps : List V → Option (List ORef)
  | [] => some []
  | .obj m :: rest => (allMaps rest).map (orefOf m :: ·)
  | _ :: _ => none

/-- Unstructured.GetOwnerReferences: nil unless a list of maps -/
def getORefs (o : V) : List ORef :=
  match o.get? "metadata" with
  | some (.obj md) =>
    match lookup "ownerReferences" md with
    | some (.arr l) => (allMaps l).getD []
    | _ => []
  | _ => []

/-- ToUnstructured(&metav1.OwnerReference) -/
def orefV (r : ORef) : V :=
  .obj ([("apiVersion", V.str r.apiVersion), ("kind", .str r.kind), ("name", .str r.name), ("uid", .str r.uid)]
    ++ (match r.controller with | some b => [("controller", V.bool b)] | none => [])
    ++ (match r.block with | some b => [("blockOwnerDeletion", V.bool b)] | none => []))

/-- metav1.GetControllerOf -/
def controllerOf (rs : List ORef) : Option ORef := rs.find? fun r => r.controller == some true

/-- meta.AddOwnerReference -/
def addORef (rs : List ORef) (r : ORef) : List ORef :=
  if rs.any (·.uid == r.uid) then
    let rec go : List ORef → List ORef
      | [] => []
      | x :: xs => if x.uid == r.uid then r :: xs else x :: go xs
    go rs
  else rs ++ [r]

/-! ## RenderFromJSON -/

/-- SetName / SetNamespace: an empty value removes the field -/
def setOrRemoveMeta (o : V) (key val : String) : V :=
  if val == "" then removeMeta o key else setMeta o key (.str val)

/-- RenderFromJSON(o, data) for `o := composed.New(composed.FromReference(ref))`.
`base = none`: the bytes are not a JSON object. Errors: "unmarshal", "kindChanged". -/
def renderFromJSON (refKind refApiVersion refName refNamespace : String) (base : Option V) : Except String V :=
  match base with
  | some (.obj m) =>
    let b := V.obj m
    if kindOf b == "" then .error "unmarshal" else
    let o := setOrRemoveMeta (setOrRemoveMeta b "name" refName) "namespace" refNamespace
    if (refKind != "" || refApiVersion != "") && kindOf o != refKind then .error "kindChanged" else .ok o
  | _ => .error "unmarshal"

/-! ## RenderComposedResourceMetadata -/

def labelPrefix : String := Xp.Gen.c10LabelNamePrefix
def labelClaimName : String := Xp.Gen.c10LabelClaimName
def labelClaimNamespace : String := Xp.Gen.c10LabelClaimNamespace
def annoResourceName : String := Xp.Gen.c10AnnotationResourceName

/-- RenderComposedResourceMetadata(cd, xr, n). Errors: "namePrefixLabel", "controllerRef". -/
def renderMeta (cd xr : V) (n : String) : V × Option String :=
  let xl := (strMap xr "labels").getD []
  let pre := lookupS labelPrefix xl
  if pre == "" then (cd, some "namePrefixLabel") else
  let cd1 := setMeta cd "generateName" (.str (pre ++ "-"))
  let cd2 := if n != "" then addStrMap cd1 "annotations" [(annoResourceName, n)] else cd1
  let cd3 := addStrMap cd2 "labels"
    [(labelPrefix, pre), (labelClaimName, lookupS labelClaimName xl), (labelClaimNamespace, lookupS labelClaimNamespace xl)]
  let ref : ORef := { apiVersion := topStr xr "apiVersion", kind := topStr xr "kind", name := getMetaStr xr "name",
                      uid := getMetaStr xr "uid", controller := some true, block := some true }
  let rs := getORefs cd3
  match controllerOf rs with
  | some c => if c.uid != ref.uid then (cd3, some "controllerRef")
              else (setMeta cd3 "ownerReferences" (.arr ((addORef rs ref).map orefV)), none)
  | none => (setMeta cd3 "ownerReferences" (.arr ((addORef rs ref).map orefV)), none)

/-! ### the `render` scenario: RenderFromJSON followed by RenderComposedResourceMetadata -/

structure RenderScn where
  refKind : String
  refApiVersion : String
  refName : String
  refNamespace : String
  base : Option V
  xr : V
  tplName : String
  deriving Inhabited

structure RenderRes where
  jsonErr : String
  metaErr : String
  cd : V
  deriving Inhabited

def renderOne (s : RenderScn) : RenderRes :=
  match renderFromJSON s.refKind s.refApiVersion s.refName s.refNamespace s.base with
  | .error e => ⟨e, "", .null⟩
  | .ok o =>
    let (cd, me) := renderMeta o s.xr s.tplName
    ⟨"", me.getD "", cd⟩

/-! ## PTComposer.Compose -/

/-- what GenerateName does for a resource that has no name yet (the name oracle) -/
inductive NameGen where
  | keep
  | name (n : String)
  | fail
  deriving Repr, Inhabited

/-- what the API server answers when the composed resource is applied -/
inductive ApplyOutcome where
  | ok | invalid | error
  deriving Repr, Inhabited, DecidableEq

structure Tpl where
  name : Option String
  base : Option V
  patches : List Patch
  refKind : String
  refApiVersion : String
  refName : String
  nameGen : NameGen
  applyOutcome : ApplyOutcome
  /-- status of the composed resource as stored (read by the to-XR patches after the apply) -/
  status : Option V := none
  /-- the existing composed resource as the API server holds it before this reconcile (what the
  applicator's Get returns); `none` for a template without an existing resource -/
  cur : Option V := none
  deriving Inhabited

/-- one write attempt; `idx = none` is the composite resource itself, `some i` template i's resource -/
structure Write where
  verb : String
  idx : Option Nat
  deriving Repr, Inhabited, DecidableEq

def Write.target (w : Write) : String :=
  match w.idx with
  | none => "xr"
  | some i => toString i

/-- The render step of the loop for one template. `none`: the base cannot be parsed (terminal). -/
structure Rendered where
  cd : V
  rendered : Bool
  deriving Inhabited

def renderTpl (xr : V) (t : Tpl) : Option Rendered :=
  match renderFromJSON t.refKind t.refApiVersion t.refName "" t.base with
  | .error _ => none
  | .ok o =>
    let r1 := renderFromXR xr o t.patches
    let (cd2, me) := renderMeta r1.cd xr (t.name.getD "")
    -- names.GenerateName: nothing to do for a named resource or one without generateName
    let (cd3, ge) : V × Bool :=
      if getMetaStr cd2 "name" != "" || getMetaStr cd2 "generateName" == "" then (cd2, false)
      else match t.nameGen with
        | .keep => (cd2, false)
        | .name n => (setMeta cd2 "name" (.str n), false)
        | .fail => (cd2, true)
    some ⟨cd3, r1.err.isNone && me.isNone && !ge⟩

def renderAll (xr : V) : List Tpl → Option (List Rendered)
  | [] => some []
  | t :: ts => match renderTpl xr t with
    | none => none
    | some r => (renderAll xr ts).map (r :: ·)

/-! ### the apply step (merge.go, APIPatchingApplicator.Apply, JSON merge patch) -/

/-- mergePath(path, dst, src, mo): the value src holds at `path` (if any, and not nil) is merged
into dst at the same path. The Go code returns nil on `IsNotFound(err) || val == nil`, and
GetValue returns a nil value with every error: no error of the lookup (unparsable path, a scalar
on the way) gets past that test – all of them mean "nothing to merge". -/
def mergePath (orc : List Orc) (path : Path) (dst src : V) (mo : Option MergeOpts) : Out :=
  match getPath src path with
  | .error _ => ⟨dst, none⟩
  | .ok .null => ⟨dst, none⟩
  | .ok val => patchToObject orc path val dst mo

/-- mergeReplace(path, current, desired, mo): desired's value at `path` is merged onto a copy of
current with the merge options, and the merged value replaces desired's. `to` is the desired object
afterwards (not meaningful after an error: the apply is abandoned then). -/
def mergeReplace (orc : List Orc) (path : Path) (current desired : V) (mo : Option MergeOpts) : Out :=
  let o1 := mergePath orc path current desired mo
  match o1.err with
  | some e => ⟨desired, some e⟩
  | none => mergePath [] path desired o1.to none

/-- mergeOptions(filterPatches(patches, patchTypesFromXR()...)): the apply option a patch
contributes – `withMergeOptions(*p.ToFieldPath, p.Policy.MergeOptions)` for a from-XR patch (raw
type) that has a policy and a toFieldPath. -/
def Patch.applyOpt (p : Patch) : Option (Path × Option MergeOpts) :=
  if patchTypesFromXR.contains p.type then
    match p.policy, p.toPath with
    | some pol, some tp => some (tp, pol.mergeOptions)
    | _, _ => none
  else none

/-- the loop over the apply options in APIPatchingApplicator.Apply: each option rewrites `desired`
given the object read from the API server; the first error abandons the apply -/
def applyOpts (current : V) : V → List Patch → Except E V
  | desired, [] => .ok desired
  | desired, p :: ps =>
    match p.applyOpt with
    | none => applyOpts current desired ps
    | some (tp, mo) =>
      let o := mergeReplace p.applyOrc tp current desired mo
      match o.err with
      | some e => .error e
      | none => applyOpts current o.to ps

mutual
/-- JSON merge patch (RFC 7386) as the API server applies it: objects merge key by key, a null
deletes the key, everything else (arrays included) replaces. -/
def mergePatchV : V → V → V
  | t, .obj pm => .obj (mergePatchFields (match t with | .obj tm => tm | _ => []) pm)
  | _, p => p
def mergePatchFields : List (String × V) → List (String × V) → List (String × V)
  | tm, [] => tm
  | tm, (k, .null) :: rest => mergePatchFields (eraseKey k tm) rest
  | tm, (k, v) :: rest => mergePatchFields (setKey k (mergePatchV ((lookup k tm).getD .null) v) tm) rest
end

/-- What the apply step sends for ONE rendered composed resource and what the API server holds
afterwards if it accepts it – `(body, stored)`. A new resource is created as rendered. For an
existing one the applicator reads the current object, runs the apply options of THIS template's
patches over the rendered object and sends the result as a JSON merge patch. An error means that
an apply option failed: nothing is sent. (MustBeControllableBy / RespectOwnerRefs are not part of
the model: the scenario's existing resources are controlled by the XR and are not Usages.) -/
def sentFor (t : Tpl) (cd : V) : Except E (V × V) :=
  if t.refName == "" then .ok (cd, cd)
  else
    let cur := t.cur.getD .null
    match applyOpts cur cd t.patches with
    | .error e => .error e
    | .ok d => .ok (d, mergePatchV cur d)

/-- one object sent to the API server for the composed resource of template `idx` -/
structure Sent where
  idx : Nat
  /-- the created object, or the body of the merge patch -/
  body : V
  /-- what the API server holds for the resource once it has accepted the write -/
  stored : V
  deriving Inhabited

/-- The apply loop: resources that were not rendered are skipped; a failing apply option aborts
before anything is sent; Invalid is tolerated; any other error aborts. Returns the writes, what
was sent with them, the per-template "applied" flags and whether the loop aborted. -/
def applyLoop : Nat → List (Tpl × Rendered) → List Write × List Sent × List Bool × Bool
  | _, [] => ([], [], [], false)
  | i, (t, r) :: rest =>
    if !r.rendered then
      let (ws, bs, fl, ab) := applyLoop (i + 1) rest
      (ws, bs, false :: fl, ab)
    else
      match sentFor t r.cd with
      | .error _ => ([], [], [false], true)
      | .ok (b, st) =>
        let w : Write := ⟨if t.refName == "" then "create" else "patch", some i⟩
        let snt : Sent := ⟨i, b, st⟩
        match t.applyOutcome with
        | .error => ([w], [snt], [false], true)
        | .invalid =>
          let (ws, bs, fl, ab) := applyLoop (i + 1) rest
          (w :: ws, snt :: bs, false :: fl, ab)
        | .ok =>
          let (ws, bs, fl, ab) := applyLoop (i + 1) rest
          (w :: ws, snt :: bs, true :: fl, ab)

/-- The observe loop: to-XR patches of every applied resource; an error is terminal. -/
def observeLoop : V → List (Tpl × Rendered × Bool) → V × Bool
  | xr, [] => (xr, false)
  | xr, (t, r, applied) :: rest =>
    if !applied then observeLoop xr rest
    else
      let cd := match t.status, r.cd with
        | some s, .obj m => V.obj (setKey "status" s m)
        | _, c => c
      let res := renderToXR xr cd t.patches
      match res.err with
      | some _ => (res.xr, true)
      | none => observeLoop res.xr rest

def zip3 {α β γ} : List α → List β → List γ → List (α × β × γ)
  | a :: as, b :: bs, c :: cs => (a, b, c) :: zip3 as bs cs
  | _, _, _ => []

structure ComposeRes where
  err : String
  rendered : List Bool
  refs : List (String × String)
  writes : List Write
  /-- what was sent for the composed resources, in write order -/
  sent : List Sent
  /-- per template: the API server accepted the write (as far as the apply loop got) -/
  applied : List Bool
  synced : List Bool
  deriving Inhabited

/-- the objects the API server holds for the resources whose write it accepted, in write order -/
def ComposeRes.stored (r : ComposeRes) : List V :=
  (r.sent.filter fun s => r.applied.getD s.idx false).map (·.stored)

/-- PTComposer.Compose from the render loop on (template association and patch-set inlining are
not part of this model: the scenario gives the association). -/
def composePT (xr : V) (tpls : List Tpl) (updateFails : Bool) : ComposeRes :=
  match renderAll xr tpls with
  | none => ⟨"parseBase", [], [], [], [], [], []⟩
  | some rs =>
    let rendered := rs.map (·.rendered)
    let refs := rs.map fun r => (kindOf r.cd, getMetaStr r.cd "name")
    let upd : Write := ⟨"update", none⟩
    if updateFails then ⟨"update", rendered, refs, [upd], [], [], []⟩ else
    let (ws, sent, applied, aborted) := applyLoop 0 (tpls.zip rs)
    if aborted then ⟨"apply", rendered, refs, upd :: ws, sent, applied, []⟩ else
    let (_, failed) := observeLoop xr (zip3 tpls rs applied)
    if failed then ⟨"toXR", rendered, refs, upd :: ws, sent, applied, []⟩ else
    ⟨"", rendered, refs, upd :: ws ++ [⟨"patch", none⟩], sent, applied, applied⟩

/-- the property predicate, evaluated by the driver on every model run -/
def unrenderedNotWritten (r : ComposeRes) : Bool :=
  (List.range r.rendered.length).all fun i =>
    r.rendered.getD i true || !(r.writes.any fun w => w.idx == some i)

end Xp.C10

import Xp.Base.Prog
/-
C19 — executable model of the Usage machinery.

* `Store`: the abstract API server restricted to what the Usage code touches:
  Usages (of/by references, selector, finalizer, deleting, ready, owner refs,
  details annotation) and arbitrary cluster-scoped resources identified by
  (group, kind, name) carrying the in-use label, the deletion-attempt annotation,
  labels and owner references. resourceVersion optimistic concurrency and "a
  no-op write does not bump the resourceVersion" are modelled as in simstore.
* `Thread`: one in-flight `Reconciler.Reconcile` of
  internal/controller/apiextensions/usage/reconciler.go (+ selector.go) as an
  explicit program counter; one `Thread.step` = one API call, in the order the Go
  code issues them, with the same early returns.
* `Store.admitDelete`: internal/usage/handler.go `validateNoUsages`, invoked for
  DELETE of objects matching the objectSelector of
  cluster/webhookconfigurations/usage.yaml (atomic read of the index + optional
  annotate).
* `Action`/`Sys.exec`: the small-step system: user create/delete of Usages and
  resources, Kubernetes GC of one object, the XR composer re-applying a composed
  Usage (`RespectOwnerRefs`), start of a reconcile, one API call of a reconcile
  under a fault outcome. Every interleaving and fault plan is a
  `List Action`.
-/
namespace Xp.C19

abbrev Labels := List (String × String)

/-! ### apiVersion parsing and the shared index key (internal/usage/handler.go) -/

/-- `schema.ParseGroupVersion`: the group, or `none` for "unexpected GroupVersion string" -/
def parseGV (av : String) : Option String :=
  let cs := av.toList
  if cs = [] ∨ cs = ['/'] then some ""
  else match cs.count '/' with
    | 0 => some ""
    | 1 => some (String.ofList (cs.takeWhile (· ≠ '/')))
    | _ => none

/-- `gr, _ := schema.ParseGroupVersion(apiVersion); gr.Group` -/
def groupOf (av : String) : String := (parseGV av).getD ""

/-- `fmt.Sprintf("%s.%s.%s", group, kind, name)` -/
def indexKey (group kind name : String) : String := group ++ "." ++ kind ++ "." ++ name

/-- `indexValue(apiVersion, kind, name)` as used by both `IndexValueForObject` and the Usage indexer -/
def indexValue (av kind name : String) : String := indexKey (groupOf av) kind name

def inUseLabelKey : String := "crossplane.io/in-use"

/-! ### objects -/

structure OwnerRef where
  uid : Nat
  controller : Bool
  kind : String
  name : String
  deriving DecidableEq, Repr, Inhabited

structure Sel where
  labels : Labels
  mc : Bool
  deriving DecidableEq, Repr, Inhabited

/-- v1beta1.Resource; `name = ""` stands for "no resourceRef" -/
structure RSpec where
  av : String
  kind : String
  name : String
  sel : Option Sel
  deriving DecidableEq, Repr, Inhabited

structure Usage where
  name : String
  uid : Nat
  rv : Nat
  of : RSpec
  by_ : Option RSpec
  reason : Option String
  composed : Bool            -- carries label crossplane.io/composite
  owners : List OwnerRef
  fin : Bool                 -- finalizer usage.apiextensions.crossplane.io
  deleting : Bool            -- deletionTimestamp set
  details : Option String    -- annotation crossplane.io/usage-details
  ready : Bool               -- condition Ready=True (Available)
  deriving DecidableEq, Repr, Inhabited

structure Res where
  group : String
  kind : String
  name : String
  uid : Nat
  rv : Nat
  labels : Labels
  inUse : Bool               -- label crossplane.io/in-use = "true"
  attempt : Option String    -- annotation usage.crossplane.io/deletion-attempt-with-policy
  owners : List OwnerRef
  deriving DecidableEq, Repr, Inhabited

def Res.is (r : Res) (g k n : String) : Bool := r.group == g && r.kind == k && r.name == n

/-- the index value a Usage is listed under (`[]` while spec.of has no resolved name) -/
def Usage.indexedBy (u : Usage) (key : String) : Bool :=
  u.of.name != "" && indexValue u.of.av u.of.kind u.of.name == key

/-- Usage `u` names resource `r` as used: same group (whatever the version), kind and resolved name -/
def Usage.names (u : Usage) (r : Res) : Bool :=
  u.of.name != "" && groupOf u.of.av == r.group && u.of.kind == r.kind && u.of.name == r.name

def Res.allLabels (r : Res) : Labels := if r.inUse then (inUseLabelKey, "true") :: r.labels else r.labels

def labelsMatch (sel : Labels) (r : Res) : Bool := sel.all fun kv => r.allLabels.lookup kv.1 == some kv.2

def ctrlOf (os : List OwnerRef) : Option Nat := (os.find? (·.controller)).map (·.uid)

/-- `meta.HaveSameController` -/
def sameCtrl (a b : List OwnerRef) : Bool :=
  match ctrlOf a, ctrlOf b with
  | some x, some y => x == y
  | _, _ => false

/-- `meta.AddOwnerReference`: replace the first reference with the same UID, else append -/
def addOwnerRef : List OwnerRef → OwnerRef → List OwnerRef
  | [], r => [r]
  | o :: os, r => if o.uid = r.uid then r :: os else o :: addOwnerRef os r

/-- `detailsAnnotation` -/
def detailsOf (u : Usage) : String :=
  match u.reason with
  | some r => r
  | none =>
    match u.by_ with
    | some b => b.kind ++ "/" ++ b.name ++ " uses " ++ u.of.kind ++ "/" ++ u.of.name
    | none => "undefined"

/-! ### the API server -/

inductive Err where
  | notFound | conflict | alreadyExists | invalid | other | crashed
  deriving DecidableEq, Repr, Inhabited

structure Store where
  usages : List Usage
  res : List Res
  nextUid : Nat
  nextRv : Nat
  /-- ghost: every (uid, group, kind, name) a resource was ever created with -/
  born : List (Nat × String × String × String)
  deriving Repr, Inhabited

def Store.empty : Store := ⟨[], [], 1, 1, []⟩

def Store.getU (s : Store) (n : String) : Option Usage := s.usages.find? (fun x => x.name == n)

def Store.getR (s : Store) (g k n : String) : Option Res := s.res.find? (fun x => x.is g k n)

def Store.putU (s : Store) (u : Usage) : Store :=
  { s with usages := s.usages.map fun x => if x.name == u.name then u else x }

def Store.dropU (s : Store) (n : String) : Store :=
  { s with usages := s.usages.filter fun x => !(x.name == n) }

def Store.putR (s : Store) (r : Res) : Store :=
  { s with res := s.res.map fun x => if x.is r.group r.kind r.name then r else x }

def Store.dropR (s : Store) (g k n : String) : Store :=
  { s with res := s.res.filter fun x => !(x.is g k n) }

def Store.bump (s : Store) : Store := { s with nextRv := s.nextRv + 1 }

/-- number of Usages listed under an index value (`client.MatchingFields{InUseIndexKey: key}`) -/
def Store.countU (s : Store) (key : String) : Nat := (s.usages.filter (·.indexedBy key)).length

inductive Req where
  | getU (n : String)
  | getR (g k n : String)
  | listR (g k : String) (sel : Labels)
  | listU (key : String)
  | updU (u : Usage)
  | updStatus (u : Usage)
  | updR (r : Res)
  deriving Repr

inductive Resp where
  | usage (u : Usage)
  | res (r : Res)
  | rlist (l : List Res)
  | count (n : Nat)
  | err (e : Err)
  deriving Repr, Inhabited

def Req.isWrite : Req → Bool
  | .updU _ | .updStatus _ | .updR _ => true
  | _ => false

/-- the object the server stores for an Update request `u` when `x` is stored: uid, deletion
state and status are the server's -/
def Usage.onto (u x : Usage) : Usage := { u with uid := x.uid, deleting := x.deleting, ready := x.ready }

/-- `client.Update` of a Usage: rv-checked replacement of everything but status, uid and
deletion state; a no-op does not bump the rv; a terminating object without finalizer goes away -/
def Store.updU (s : Store) (u : Usage) : Store × Resp :=
  match s.getU u.name with
  | none => (s, .err .notFound)
  | some x =>
    if x.rv ≠ u.rv then (s, .err .conflict)
    else if u.onto x = x then (s, .usage x)
    else if x.deleting && !u.fin then ((s.dropU u.name).bump, .usage { u.onto x with rv := s.nextRv })
    else ((s.putU { u.onto x with rv := s.nextRv }).bump, .usage { u.onto x with rv := s.nextRv })

/-- `client.Status().Update` of a Usage: only the status is written -/
def Store.updStatus (s : Store) (u : Usage) : Store × Resp :=
  match s.getU u.name with
  | none => (s, .err .notFound)
  | some x =>
    if x.rv ≠ u.rv then (s, .err .conflict)
    else if x.ready = u.ready then (s, .usage x)
    else ((s.putU { x with ready := u.ready, rv := s.nextRv }).bump, .usage { x with ready := u.ready, rv := s.nextRv })

/-- `client.Update` of a resource: rv-checked replacement -/
def Store.updR (s : Store) (r : Res) : Store × Resp :=
  match s.getR r.group r.kind r.name with
  | none => (s, .err .notFound)
  | some x =>
    if x.rv ≠ r.rv then (s, .err .conflict)
    else if ({ r with uid := x.uid } : Res) = x then (s, .res x)
    else ((s.putR { r with uid := x.uid, rv := s.nextRv }).bump, .res { r with uid := x.uid, rv := s.nextRv })

def Store.exec (s : Store) : Req → Store × Resp
  | .getU n => (s, match s.getU n with | some u => .usage u | none => .err .notFound)
  | .getR g k n => (s, match s.getR g k n with | some r => .res r | none => .err .notFound)
  | .listR g k sel => (s, .rlist (s.res.filter fun r => r.group == g && r.kind == k && labelsMatch sel r))
  | .listU key => (s, .count (s.countU key))
  | .updU u => s.updU u
  | .updStatus u => s.updStatus u
  | .updR r => s.updR r

/-! ### one reconcile as a program counter -/

inductive Pc where
  | getUsage
  | ofList | ofUpdate (pick : String)
  | byList | byUpdate (pick : String)
  | dGetUsing | dGetUsed | dList (used : Res) | dUnlabel (used : Res) | dRemoveFin
  | addFin | addDetails | getUsed | label (used : Res) | getUsing | addOwner (ref : OwnerRef) | status
  deriving Repr, Inhabited

inductive Result where
  | none | noneErr | requeue | poll | pollErr | wait | crashed
  deriving DecidableEq, Repr, Inhabited

structure Thread where
  uname : String
  pc : Pc
  /-- the Usage as last returned by the server -/
  u : Usage
  /-- `orig := u.DeepCopy()` as far as `cmp.Equal(u, orig)` can tell -/
  origRv : Nat
  origReady : Bool
  /-- ghost: the Usages in the store when this reconcile listed the Usages of its used resource -/
  seen : List Usage
  deriving Repr, Inhabited

inductive After where
  | cont (t : Thread)
  | done (r : Result)
  deriving Repr, Inhabited

def Thread.goto (t : Thread) (pc : Pc) : After := .cont { t with pc := pc }

def ofKeyOf (u : Usage) : String × String × String := (groupOf u.of.av, u.of.kind, u.of.name)

/-- the API call issued at a program counter -/
def Thread.request (t : Thread) : Req :=
  let u := t.u
  match t.pc with
  | .getUsage => .getU t.uname
  | .ofList => .listR (groupOf u.of.av) u.of.kind ((u.of.sel.map (·.labels)).getD [])
  | .ofUpdate pick => .updU { u with of := { u.of with name := pick } }
  | .byList =>
    match u.by_ with
    | some b => .listR (groupOf b.av) b.kind ((b.sel.map (·.labels)).getD [])
    | none => .listR "" "" []
  | .byUpdate pick => .updU { u with by_ := u.by_.map fun b => { b with name := pick } }
  | .dGetUsing | .getUsing =>
    match u.by_ with
    | some b => .getR (groupOf b.av) b.kind b.name
    | none => .getR "" "" ""
  | .dGetUsed | .getUsed => .getR (groupOf u.of.av) u.of.kind u.of.name
  | .dList _ => .listU (indexValue u.of.av u.of.kind u.of.name)
  | .dUnlabel used => .updR { used with inUse := false }
  | .dRemoveFin => .updU { u with fin := false }
  | .addFin => .updU { u with fin := true }
  | .addDetails => .updU { u with details := some (detailsOf u) }
  | .label used => .updR { used with inUse := true }
  | .addOwner ref => .updU { u with owners := addOwnerRef u.owners ref }
  | .status => .updStatus { u with ready := true }

/-- after the owner reference: `u.Status.SetConditions(Available()); if !cmp.Equal(u, orig) …` -/
def Thread.afterOwner (t : Thread) : After :=
  if t.u.rv ≠ t.origRv ∨ t.origReady = false then t.goto .status else .done .poll

def Thread.afterLabel (t : Thread) : After :=
  match t.u.by_ with
  | none => t.afterOwner
  | some _ => t.goto .getUsing

def Thread.afterFin (t : Thread) : After :=
  if t.u.details ≠ some (detailsOf t.u) then t.goto .addDetails else t.goto .getUsed

def Thread.afterResolve (t : Thread) : After :=
  if t.u.deleting then
    (if t.u.by_.isSome && t.u.composed then t.goto .dGetUsing else t.goto .dGetUsed)
  else if t.u.fin then t.afterFin else t.goto .addFin

def Thread.afterOf (t : Thread) : After :=
  match t.u.by_ with
  | none => t.afterResolve
  | some b =>
    if b.name = "" then
      (match b.sel with
       | none => .done .noneErr
       | some _ => t.goto .byList)
    else t.afterResolve

def Thread.afterGet (t : Thread) : After :=
  match parseGV t.u.of.av with
  | none => .done .noneErr
  | some _ =>
    if t.u.of.name = "" then
      (match t.u.of.sel with
       | none => .done .noneErr
       | some _ => t.goto .ofList)
    else t.afterOf

def Thread.afterUnlabel (t : Thread) : After :=
  if t.u.fin then t.goto .dRemoveFin else .done .none

/-- the smaller name first (the server lists sorted by name; the resolver takes the first match) -/
def pickFirst (l : List Res) : Option Res :=
  l.foldl (fun acc r => match acc with
    | none => some r
    | some a => if r.name < a.name then some r else some a) none

/-- `resolveSelector`: first listed resource (with the same controller if required) -/
def resolvePick (sel : Option Sel) (owners : List OwnerRef) (l : List Res) : Option String :=
  let mc := (sel.map (·.mc)).getD false
  (pickFirst (l.filter fun r => !mc || sameCtrl r.owners owners)).map (·.name)

/-- what the reconciler does with the reply, up to its next API call -/
def Thread.next (t : Thread) (seenNow : List Usage) (resp : Resp) : After :=
  match t.pc, resp with
  -- Get the Usage
  | .getUsage, .usage u => ({ t with u := u, origRv := u.rv, origReady := u.ready } : Thread).afterGet
  | .getUsage, .err .notFound => .done .none
  | .getUsage, _ => .done .noneErr
  -- resolveSelectors (any error is returned)
  | .ofList, .rlist l =>
    (match resolvePick t.u.of.sel t.u.owners l with
     | some n => t.goto (.ofUpdate n)
     | none => .done .noneErr)
  | .ofList, _ => .done .noneErr
  | .ofUpdate _, .usage u => ({ t with u := u } : Thread).afterOf
  | .ofUpdate _, _ => .done .noneErr
  | .byList, .rlist l =>
    (match resolvePick (t.u.by_.bind (·.sel)) t.u.owners l with
     | some n => t.goto (.byUpdate n)
     | none => .done .noneErr)
  | .byList, _ => .done .noneErr
  | .byUpdate _, .usage u => ({ t with u := u } : Thread).afterResolve
  | .byUpdate _, _ => .done .noneErr
  -- deletion
  | .dGetUsing, .res _ => .done .wait
  | .dGetUsing, .err .notFound => t.goto .dGetUsed
  | .dGetUsing, _ => .done .noneErr
  | .dGetUsed, .res r => t.goto (.dList r)
  | .dGetUsed, .err .notFound => t.afterUnlabel
  | .dGetUsed, _ => .done .noneErr
  | .dList used, .count n =>
    if n < 2 then ({ t with seen := seenNow } : Thread).goto (.dUnlabel used) else t.afterUnlabel
  | .dList _, _ => .done .noneErr
  | .dUnlabel _, .res _ => t.afterUnlabel
  | .dUnlabel _, .err .conflict => .done .requeue
  | .dUnlabel _, _ => .done .noneErr
  | .dRemoveFin, .usage _ => .done .none
  | .dRemoveFin, .err .notFound => .done .none
  | .dRemoveFin, .err .conflict => .done .requeue
  | .dRemoveFin, _ => .done .noneErr
  -- add path
  | .addFin, .usage u => ({ t with u := u } : Thread).afterFin
  | .addFin, .err .conflict => .done .requeue
  | .addFin, _ => .done .noneErr
  | .addDetails, .usage u => ({ t with u := u } : Thread).goto .getUsed
  | .addDetails, .err .conflict => .done .requeue
  | .addDetails, _ => .done .noneErr
  | .getUsed, .res r =>
    if r.inUse = false ∨ !(r.owners.any fun o => o.uid == t.u.uid) then t.goto (.label r) else t.afterLabel
  | .getUsed, _ => .done .noneErr
  | .label _, .res _ => t.afterLabel
  | .label _, .err .conflict => .done .requeue
  | .label _, _ => .done .noneErr
  | .getUsing, .res g =>
    (match t.u.owners with
     | o :: _ => if o.uid = g.uid then t.afterOwner else t.goto (.addOwner ⟨g.uid, false, g.kind, g.name⟩)
     | [] => t.goto (.addOwner ⟨g.uid, false, g.kind, g.name⟩))
  | .getUsing, _ => .done .noneErr
  | .addOwner _, .usage u => ({ t with u := u } : Thread).afterOwner
  | .addOwner _, .err .conflict => .done .requeue
  | .addOwner _, _ => .done .noneErr
  | .status, .usage _ => .done .poll
  | .status, _ => .done .pollErr

/-- reply seen by the controller when the call is not applied -/
def faultResp (o : Outcome) (r : Req) : Resp :=
  match o with
  | .conflict => if r.isWrite then .err .conflict else .err .other
  | _ => .err .other

/-- the reply of a `listU`, possibly from a stale informer cache (`stale = some n`) -/
def staleResp (stale : Option Nat) (r : Req) (resp : Resp) : Resp :=
  match r, resp, stale with
  | .listU _, .count _, some n => .count n
  | _, _, _ => resp

structure StepOut where
  store : Store
  after : After
  req : Req
  /-- reply as logged (`none` = the process crashed at this call) -/
  reply : Option Resp

/-- one API call of a reconcile under a fault outcome -/
def Thread.step (t : Thread) (o : Outcome) (stale : Option Nat) (s : Store) : StepOut :=
  let r := t.request
  let ex := s.exec r
  match o with
  | .ok => let resp := staleResp stale r ex.2; ⟨ex.1, t.next s.usages resp, r, some resp⟩
  | .fail => ⟨s, t.next s.usages (faultResp .fail r), r, some (faultResp .fail r)⟩
  | .conflict => ⟨s, t.next s.usages (faultResp .conflict r), r, some (faultResp .conflict r)⟩
  | .crashBefore => ⟨s, .done .crashed, r, none⟩
  | .crashAfter => ⟨ex.1, .done .crashed, r, none⟩

/-! ### a call answered by the world: informer cache and error classes

`Reconciler.client` is the manager's client: typed objects (`Usage`, `UsageList`) are read
through the informer cache, unstructured objects (the used and the using resource, the
selector's List) and every write go to the API server. A `Call` says how ONE API call of a
reconcile is answered: `usage` = the answer of the cached `Get` of the Usage (`some none` = the
Usage is missing from the cache, `some (some u)` = the version `u` the cache holds), `count` =
the number of Usages the cached, indexed `List` returns, `cls` = the error class an injected
failure carries (`.other` stands for every class the code does not name: Forbidden, Timeout,
ServiceUnavailable, a transport error, a context deadline). `Call.plain` = live answers, generic
error: the world of `Thread.step _ _ none`. -/
structure Call where
  count : Option Nat := none
  usage : Option (Option Usage) := none
  cls : Err := .other
  deriving Repr, Inhabited

def Call.plain : Call := {}

def Call.isPlain (c : Call) : Bool := c.count.isNone && c.usage.isNone && c.cls == .other

/-- the reply of a cached read as served by the informer cache -/
def Call.answer (c : Call) (r : Req) (resp : Resp) : Resp :=
  match r, resp with
  | .listU _, .count n => .count (c.count.getD n)
  | .getU _, live =>
    (match c.usage with
     | none => live
     | some none => .err .notFound
     | some (some u) => .usage u)
  | _, live => live

/-- one API call of a reconcile answered by the world `c` under a fault outcome -/
def Thread.stepW (t : Thread) (o : Outcome) (c : Call) (s : Store) : StepOut :=
  let r := t.request
  let ex := s.exec r
  match o with
  | .ok => let resp := c.answer r ex.2; ⟨ex.1, t.next s.usages resp, r, some resp⟩
  | .fail => ⟨s, t.next s.usages (.err c.cls), r, some (.err c.cls)⟩
  | .conflict => ⟨s, t.next s.usages (faultResp .conflict r), r, some (faultResp .conflict r)⟩
  | .crashBefore => ⟨s, .done .crashed, r, none⟩
  | .crashAfter => ⟨ex.1, .done .crashed, r, none⟩

/-! ### the environment: users, admission webhook, Kubernetes GC -/

/-- owner reference to the XR-like controller object `ctrl`, if it exists -/
def Store.ctrlRef (s : Store) (ctrl : String) : List OwnerRef :=
  if ctrl = "" then [] else
  match s.getR "ex.org" "XR" ctrl with
  | some x => [⟨x.uid, true, "XR", ctrl⟩]
  | none => []

def Store.createRes (s : Store) (g k n : String) (labels : Labels) (inUse : Bool) (ctrl : String) : Store × Option Err :=
  if n = "" then (s, some .invalid) else
  match s.getR g k n with
  | some _ => (s, some .alreadyExists)
  | none =>
    ({ s with res := s.res ++ [⟨g, k, n, s.nextUid, s.nextRv, labels, inUse, none, s.ctrlRef ctrl⟩],
              nextUid := s.nextUid + 1, nextRv := s.nextRv + 1,
              born := (s.nextUid, g, k, n) :: s.born }, none)

def Store.createUsage (s : Store) (name : String) (of : RSpec) (by_ : Option RSpec) (reason : Option String)
    (composed : Bool) (ctrl : String) : Store × Option Err :=
  if name = "" then (s, some .invalid) else
  match s.getU name with
  | some _ => (s, some .alreadyExists)
  | none =>
    ({ s with usages := s.usages ++ [⟨name, s.nextUid, s.nextRv, of, by_, reason, composed, s.ctrlRef ctrl, false, false, none, false⟩],
              nextUid := s.nextUid + 1, nextRv := s.nextRv + 1 }, none)

/-- DELETE of a Usage (no webhook applies: Usages do not carry the in-use label) -/
def Store.deleteUsage (s : Store) (name : String) : Store × Bool :=
  match s.getU name with
  | none => (s, false)
  | some x =>
    if x.fin then
      (if x.deleting then (s, true) else ((s.putU { x with deleting := true, rv := s.nextRv }).bump, true))
    else (s.dropU name, true)

/-- The XR composer re-applies a composed Usage it controls (composition_pt.go:
`Apply(cd, MustBeControllableBy(xr), usage.RespectOwnerRefs())` with the patching applicator).
The desired object carries only the XR's controller reference; `RespectOwnerRefs` replaces the
desired owner references by the current ones whenever the current Usage has any, so the
reference the Usage controller added is not lost. `none` = nothing to apply,
`some false` = not controllable by that XR. -/
def controlledByOther (os : List OwnerRef) (uid : Nat) : Bool :=
  match ctrlOf os with
  | some c => c != uid
  | none => false

def Store.reapplyUsage (s : Store) (name ctrl : String) : Store × Option Bool :=
  match s.getU name with
  | none => (s, none)
  | some x =>
    match s.getR "ex.org" "XR" ctrl with
    | none => (s, none)
    | some xr =>
      if controlledByOther x.owners xr.uid then (s, some false)
      else if x.owners ≠ [] then (s, some true)
      else ((s.putU { x with owners := [⟨xr.uid, true, "XR", ctrl⟩], rv := s.nextRv }).bump, some true)

/-- The same re-apply for a composed Usage whose template names an apiVersion of the Usage kind
that `RespectOwnerRefs` does not recognise (it compares the whole GroupVersionKind of the current
object, as served in the template's version, with ONE version): the option does nothing, the
merge patch carries the desired `ownerReferences` and the list is replaced by the XR's controller
reference. -/
def Store.reapplyRaw (s : Store) (name ctrl : String) : Store × Option Bool :=
  match s.getU name with
  | none => (s, none)
  | some x =>
    match s.getR "ex.org" "XR" ctrl with
    | none => (s, none)
    | some xr =>
      if controlledByOther x.owners xr.uid then (s, some false)
      else if x.owners = [⟨xr.uid, true, "XR", ctrl⟩] then (s, some true)
      else ((s.putU { x with owners := [⟨xr.uid, true, "XR", ctrl⟩], rv := s.nextRv }).bump, some true)

/-- set one label (the in-use label is a field of its own and is never touched here) -/
def setLabel : Labels → String × String → Labels
  | [], kv => [kv]
  | (k, v) :: l, kv => if k = kv.1 then (k, kv.2) :: l else (k, v) :: setLabel l kv

/-- Another writer (the XR composer patching a composed resource, a provider, a user) merges
labels into a resource: a merge patch without resourceVersion; the in-use label, the attempt
annotation and the owner references are left alone; the resourceVersion moves iff something
changed. -/
def Store.touchRes (s : Store) (g k n : String) (labels : Labels) : Store × Bool :=
  match s.getR g k n with
  | none => (s, false)
  | some r =>
    if labels.foldl setLabel r.labels = r.labels then (s, true)
    else ((s.putR { r with labels := labels.foldl setLabel r.labels, rv := s.nextRv }).bump, true)

/-- Another writer puts the controller's finalizer on a Usage (a Usage templated or restored with
`metadata.finalizers` already set): the only way a Usage can hold the finalizer - and so survive
its own deletion request - BEFORE its selectors were ever resolved. -/
def Store.setFin (s : Store) (n : String) : Store × Bool :=
  match s.getU n with
  | none => (s, false)
  | some x => if x.fin then (s, true) else ((s.putU { x with fin := true, rv := s.nextRv }).bump, true)

inductive Verdict where
  | allowed | denied | errored
  deriving DecidableEq, Repr, Inhabited

/-- "Use the default propagation policy if not provided" -/
def effPolicy (policy : String) : String := if policy = "" then "Background" else policy

/-- `Handler.validateNoUsages` for a DELETE request in API group `g` (any version): List the
Usages indexed under the object's key; if there is one, record the attempt and deny. -/
def Store.admitDelete (s : Store) (r : Res) (policy : String) (listOk patchOk : Bool) (stale : Option Nat) : Store × Verdict :=
  if !listOk then (s, .errored)
  else if stale.getD (s.countU (indexKey r.group r.kind r.name)) > 0 then
    (if r.attempt ≠ some (effPolicy policy) then
      (if !patchOk then (s, .errored)
       else ((s.putR { r with attempt := some (effPolicy policy), rv := s.nextRv }).bump, .denied))
     else (s, .denied))
  else (s, .allowed)

inductive DelResult where
  | notFound
  | done (hook : Bool) (v : Verdict)
  deriving DecidableEq, Repr, Inhabited

/-- a DELETE request for a resource: the webhook is consulted iff the stored object matches the
objectSelector (in-use label); an allowed delete removes the object -/
def Store.deleteRes (s : Store) (g k n policy : String) (listOk patchOk : Bool) (stale : Option Nat) : Store × DelResult :=
  match s.getR g k n with
  | none => (s, .notFound)
  | some r =>
    if r.inUse then
      (match (s.admitDelete r policy listOk patchOk stale).2 with
       | .allowed => ((s.admitDelete r policy listOk patchOk stale).1.dropR g k n, .done true .allowed)
       | v => ((s.admitDelete r policy listOk patchOk stale).1, .done true v))
    else (s.dropR g k n, .done false .allowed)

def Store.alive (s : Store) (uid : Nat) : Bool :=
  s.usages.any (·.uid == uid) || s.res.any (·.uid == uid)

inductive GcResult where
  | absent | unowned | owned | deletedUsage | res (r : DelResult)
  deriving DecidableEq, Repr, Inhabited

def Store.gcUsage (s : Store) (name : String) : Store × GcResult :=
  match s.getU name with
  | none => (s, .absent)
  | some x =>
    if x.owners = [] then (s, .unowned)
    else if x.owners.any fun o => s.alive o.uid then (s, .owned)
    else ((s.deleteUsage name).1, .deletedUsage)

def Store.gcRes (s : Store) (g k n : String) : Store × GcResult :=
  match s.getR g k n with
  | none => (s, .absent)
  | some x =>
    if x.owners = [] then (s, .unowned)
    else if x.owners.any fun o => s.alive o.uid then (s, .owned)
    else ((s.deleteRes g k n "Background" true true none).1, .res (s.deleteRes g k n "Background" true true none).2)

/-! ### the system -/

structure Sys where
  store : Store
  threads : List Thread
  /-- MaxConcurrentReconciles of the Usage controller -/
  maxc : Nat
  deriving Repr, Inhabited

def Sys.init (maxc : Nat) : Sys := ⟨Store.empty, [], maxc⟩

inductive Action where
  | cr (g kind name : String) (labels : Labels) (inUse : Bool) (ctrl : String)
  | cu (name : String) (of : RSpec) (by_ : Option RSpec) (reason : Option String) (composed : Bool) (ctrl : String)
  | du (name : String)
  | dr (g kind name policy : String) (listOk patchOk : Bool) (stale : Option Nat)
  | gcU (name : String)
  | gcR (g kind name : String)
  | xa (name ctrl : String)
  | start (u : String)
  | step (u : String) (o : Outcome) (stale : Option Nat)
  /-- another writer merges labels into a resource -/
  | er (g kind name : String) (labels : Labels)
  /-- one API call of a reconcile answered by the world (informer cache, error class) -/
  | stepW (u : String) (o : Outcome) (c : Call)
  /-- the XR composer re-applies a composed Usage templated in a version `RespectOwnerRefs` does not recognise -/
  | xaRaw (name ctrl : String)
  /-- another writer puts the finalizer on a Usage (outside the `listFresh` world: a Usage holding the
  finalizer with unresolved selectors) -/
  | ef (name : String)
  deriving Repr, Inhabited

/-- what an action reports (compared with the real run by the driver) -/
inductive Report where
  | created (e : Option Err)
  | deletedU (found : Bool)
  | del (r : DelResult)
  | gc (r : GcResult)
  | reapplied (r : Option Bool)
  | started (ok : Bool)
  | ignored
  | call (req : Req) (reply : Option Resp) (fin : Option Result)
  | touched (found : Bool)
  deriving Repr, Inhabited

def Sys.thread? (sys : Sys) (n : String) : Option Thread := sys.threads.find? (fun t => t.uname == n)

def Sys.exec (sys : Sys) : Action → Sys × Report
  | .cr g k n l iu c => let x := sys.store.createRes g k n l iu c; ({ sys with store := x.1 }, .created x.2)
  | .cu n o b r c ct => let x := sys.store.createUsage n o b r c ct; ({ sys with store := x.1 }, .created x.2)
  | .du n => let x := sys.store.deleteUsage n; ({ sys with store := x.1 }, .deletedU x.2)
  | .dr g k n p lo po st => let x := sys.store.deleteRes g k n p lo po st; ({ sys with store := x.1 }, .del x.2)
  | .gcU n => let x := sys.store.gcUsage n; ({ sys with store := x.1 }, .gc x.2)
  | .gcR g k n => let x := sys.store.gcRes g k n; ({ sys with store := x.1 }, .gc x.2)
  | .xa n c => let x := sys.store.reapplyUsage n c; ({ sys with store := x.1 }, .reapplied x.2)
  | .start n =>
    match sys.thread? n with
    | some _ => (sys, .started false)
    | none =>
      if sys.threads.length ≥ sys.maxc then (sys, .started false)
      else ({ sys with threads := sys.threads ++ [⟨n, .getUsage, default, 0, false, []⟩] }, .started true)
  | .step n o st =>
    match sys.thread? n with
    | none => (sys, .ignored)
    | some t =>
      let out := t.step o st sys.store
      match out.after with
      | .cont t' =>
        ({ sys with store := out.store, threads := sys.threads.map fun x => if x.uname == n then t' else x },
         .call out.req out.reply none)
      | .done r =>
        ({ sys with store := out.store, threads := sys.threads.filter fun x => !(x.uname == n) },
         .call out.req out.reply (some r))

  | .er g k n l => let x := sys.store.touchRes g k n l; ({ sys with store := x.1 }, .touched x.2)
  | .xaRaw n c => let x := sys.store.reapplyRaw n c; ({ sys with store := x.1 }, .reapplied x.2)
  | .ef n => let x := sys.store.setFin n; ({ sys with store := x.1 }, .touched x.2)
  | .stepW n o c =>
    match sys.thread? n with
    | none => (sys, .ignored)
    | some t =>
      let out := t.stepW o c sys.store
      match out.after with
      | .cont t' =>
        ({ sys with store := out.store, threads := sys.threads.map fun x => if x.uname == n then t' else x },
         .call out.req out.reply none)
      | .done r =>
        ({ sys with store := out.store, threads := sys.threads.filter fun x => !(x.uname == n) },
         .call out.req out.reply (some r))

def Sys.run (sys : Sys) : List Action → Sys
  | [] => sys
  | a :: as => Sys.run (sys.exec a).1 as

/-- the plain world: every Usage read (reconciler and webhook) is answered from the live store,
injected failures carry no particular class, and composed Usages are templated in the version
`RespectOwnerRefs` recognises. (`.er`, another writer editing a resource, IS part of the plain
world: the theorems quantified over `listFresh` schedules cover it.) -/
def Action.fresh : Action → Bool
  | .dr _ _ _ _ _ _ st => st.isNone
  | .step _ _ st => st.isNone
  | .stepW _ _ _ => false
  | .xaRaw _ _ => false
  | .ef _ => false
  | _ => true

def listFresh (as : List Action) : Prop := ∀ a ∈ as, a.fresh = true

/-! ### ownership is by uid: "the Usage and its user exist throughout a reconcile" -/

/-- `P` holds in the state before every action of the schedule and in the state after the last -/
def Along (P : Sys → Prop) : Sys → List Action → Prop
  | sys, [] => P sys
  | sys, a :: as => P sys ∧ Along P (sys.exec a).1 as

instance Along.dec (P : Sys → Prop) [DecidablePred P] : (sys : Sys) → (as : List Action) → Decidable (Along P sys as)
  | sys, [] => inferInstanceAs (Decidable (P sys))
  | sys, a :: as => @instDecidableAnd _ _ _ (Along.dec P (sys.exec a).1 as)

/-- the Usage `n` is stored as the object with uid `V`, names `b` (a resolved reference) as its
user, and the resource `b` refers to is stored as the object with uid `U` -/
def Held (n : String) (V : Nat) (b : RSpec) (U : Nat) (sys : Sys) : Prop :=
  (∃ y ∈ sys.store.usages, y.name = n ∧ y.uid = V ∧ y.by_ = some b) ∧
  (sys.store.getR (groupOf b.av) b.kind b.name).map (·.uid) = some U

instance (n : String) (V : Nat) (b : RSpec) (U : Nat) : DecidablePred (Held n V b U) :=
  fun sys => by unfold Held; exact inferInstance

/-- `RespectOwnerRefs` (reconciler.go): the option acts on a current object that is a Usage by
GROUP and KIND - any served version (fix D30) -/
def composerRespects (av kind : String) : Bool :=
  groupOf av == "apiextensions.crossplane.io" && kind == "Usage"

/-! ### several workers: reconciles of Usages of different resources -/

/-- the reconcile has read its Usage -/
def Pc.holds : Pc → Bool
  | .getUsage => false
  | _ => true

/-- the reconcile holds a Usage whose spec.of is resolved: it works on an index key -/
def Thread.keyed (t : Thread) : Bool := t.pc.holds && t.u.of.name != ""

/-- **per-resource serialisation**: no two in-flight reconciles hold Usages of the same used
resource (same rendered index key). MaxConcurrentReconciles = 1 is the special case of at most
one thread; with more workers this is what a work queue keyed by the USED resource would give
(controller-runtime's queue is keyed by the Usage: it does NOT give it - D16). -/
def keySerial (sys : Sys) : Prop :=
  ∀ t1 ∈ sys.threads, ∀ t2 ∈ sys.threads, t1.uname ≠ t2.uname → t1.keyed = true → t2.keyed = true →
    indexValue t1.u.of.av t1.u.of.kind t1.u.of.name ≠ indexValue t2.u.of.av t2.u.of.kind t2.u.of.name

instance : DecidablePred keySerial := fun sys => by unfold keySerial; exact inferInstance

/-- `P` holds in the state BEFORE every action of the schedule -/
def Before (P : Sys → Prop) : Sys → List Action → Prop
  | _, [] => True
  | sys, a :: as => P sys ∧ Before P (sys.exec a).1 as

instance Before.dec (P : Sys → Prop) [DecidablePred P] : (sys : Sys) → (as : List Action) → Decidable (Before P sys as)
  | _, [] => inferInstanceAs (Decidable True)
  | sys, a :: as => @instDecidableAnd _ _ _ (Before.dec P (sys.exec a).1 as)

/-! ### identifiers as the API server admits them (domain of the index key's injectivity) -/

/-- no upper-case letter: API groups (DNS subdomains, "" for the core group) and object names
(RFC 1123 subdomains / path segments of custom resources) as the API server validates them -/
def lowerId (s : String) : Prop := ∀ c ∈ s.toList, c.isUpper = false

instance (s : String) : Decidable (lowerId s) := by unfold lowerId; exact inferInstance

/-- a Kind: starts with an upper-case letter and contains no dot (CamelCase; the dot-freeness is
enforced for CRDs - DNS-1035 label after lower-casing -, the capital is the API convention) -/
def kindId (s : String) : Prop := (∃ c cs, s.toList = c :: cs ∧ c.isUpper = true) ∧ '.' ∉ s.toList

end Xp.C19

import Xp.Base.Prog
import Xp.Gen.C08Consts
/-
C08 model: the deletion (`meta.WasDeleted`) branches of

  internal/controller/apiextensions/claim/reconciler.go        (claimRec)
  internal/controller/apiextensions/composite/reconciler.go    (xrRec)
  internal/controller/apiextensions/definition/reconciler.go   (definedRec)
  internal/controller/apiextensions/offered/reconciler.go      (offeredRec)
  internal/controller/pkg/revision/{reconciler,dependency}.go  (revRec)
  internal/controller/apiextensions/usage/reconciler.go        (usageRec)

call by call as `Xp.Prog` programs over an abstract API server (objects with
finalizers, deletionTimestamp, resourceVersion, owner references) plus the
controller engine reduced to its set of running controllers, and a small-step
system (`Sys`) in which any in-flight reconcile may take its next API call with
any fault outcome, interleaved with user deletions, Kubernetes garbage
collection steps and third-party finalizer removals.

Modelling decisions (see props/C08.json):
* `client.Update(obj)` of an object the reconcile read earlier is modelled as
  "resourceVersion precondition + the delta the code applied" (`removeFin`,
  `lockRemove`, `unlabel`, `setStatus`); the equivalence with a full replace relies
  on resourceVersion determining the content, which the correspondence checks.
* Only the deletion branches are programs; a reconcile that reads a live object
  returns `Res.oos` (out of scope). Field sync (C07) and binding (C06) are absent;
  `Act.create` stands for whatever they (or a user) may create and is excluded from
  the alphabet of the trace theorems (`NoCreate`), see the known finding in Props.
* Status conditions are abstract tokens; they matter only because a changed
  status bumps the resourceVersion.
* Third parties also EDIT objects (`Act.edit`: a claim's delete policy or XR reference, an
  XR's claim reference, a Usage's composite label or using resource): the in-flight
  reconciles then hold stale copies and their writes are rejected by the resourceVersion
  precondition.  The state-based constraint of a finalizer removal is therefore stated for
  the moment the removal is APPLIED (stored resourceVersion = the request's).
* Reads through an informer cache may LAG (`Act.lagStep`): the reply is computed from any
  store the run has been in (`Sys.past`).  A cache that is older than the initial store
  (an object "not yet in the cache") is the same thing as a creation step and is excluded
  with it (`NoCreate`), see the witnesses in Props.
-/
namespace Xp.C08

inductive Kind where
  | claim | xr | xrd | crd | rev | lock | usage | res
  /-- `res2`: the same Kind as `res` in another API group; `res3`: another Kind of the same
  group (objects of the three kinds may share a name) -/
  | res2 | res3
  deriving DecidableEq, Repr, Inhabited

structure Key where
  kind : Kind
  name : String
  deriving DecidableEq, Repr, Inhabited

structure ORef where
  uid : Nat
  ctrl : Bool
  block : Bool
  deriving DecidableEq, Repr

/-- One API object, reduced to what the teardown logic reads or writes.
`ref`: claim → name of its XR (`spec.resourceRef`), XR → "ns/name" of the claim it is
bound to (`spec.claimRef`), XRD → name of the composite CRD, usage → name of the
*using* resource (`spec.by`).  `of`: XRD → name of the claim CRD, usage → name of the
*used* resource.  `flag`: claim → `compositeDeletePolicy = Foreground`, usage → carries
the `crossplane.io/composite` label.  `inuse`: the `crossplane.io/in-use` label. -/
structure Obj where
  key : Key
  uid : Nat
  rv : Nat
  fins : List String
  del : Bool
  owners : List ORef
  conds : List (String × String)
  paused : Bool
  ref : String
  of : String
  flag : Bool
  inuse : Bool
  pkgs : List String
  /-- package revision: `spec.desiredState = Inactive` -/
  inactive : Bool := false
  /-- package revision: `spec.skipDependencyResolution = true` -/
  skipDeps : Bool := false
  /-- usage: (apiVersion, kind) of the using resource `spec.by` -/
  refKind : Kind := .res
  /-- usage: (apiVersion, kind) of the used resource `spec.of` -/
  ofKind : Kind := .res
  deriving DecidableEq, Repr

structure St where
  objs : List Obj
  nextRv : Nat
  running : List String
  deriving Repr

/-! ### object store primitives -/

def find (s : St) (k : Key) : Option Obj := s.objs.find? (fun o => o.key = k)

def put (s : St) (o : Obj) : St :=
  { s with objs := s.objs.map (fun x => if x.key = o.key then o else x) }

def erase (s : St) (k : Key) : St :=
  { s with objs := s.objs.filter (fun o => o.key ≠ k) }

def fgFin : String := "foregroundDeletion"

/-- simstore `commit` + `finalizeIfDone`: a write that changes nothing is a no-op (no
resourceVersion bump); otherwise the object gets a fresh resourceVersion and, if it
is terminating and has no finalizer left, disappears. Returns the object as stored
(or as it was when it disappeared). -/
def commit (s : St) (o o' : Obj) : St × Obj :=
  if o' = o then (s, o) else
    let o'' := { o' with rv := s.nextRv }
    let s' := { s with nextRv := s.nextRv + 1 }
    if o''.del && o''.fins.isEmpty then (erase s' o.key, o'') else (put s' o'', o'')

/-- `Delete` of one stored object (no preconditions) whose finalizers will be `fins`.
Deleting an object that is already terminating changes nothing (and keeps the
resourceVersion) unless a finalizer is added. -/
def deleteWith (s : St) (o : Obj) (fins : List String) : St :=
  if fins.isEmpty then erase s o.key
  else if o.del && fins == o.fins then s
  else put { s with nextRv := s.nextRv + 1 } { o with fins := fins, del := true, rv := s.nextRv }

/-- Foreground adds the `foregroundDeletion` finalizer. -/
def deleteObj (s : St) (o : Obj) (fg : Bool) : St :=
  deleteWith s o (if fg && !o.fins.contains fgFin then o.fins ++ [fgFin] else o.fins)

def deleteKey (s : St) (k : Key) (fg : Bool) : St :=
  match find s k with
  | none => s
  | some o => deleteObj s o fg

/-- insertion sort by name (structural, so that concrete runs reduce in the kernel) -/
def insertByName (o : Obj) : List Obj → List Obj
  | [] => [o]
  | x :: xs => if o.key.name ≤ x.key.name then o :: x :: xs else x :: insertByName o xs

def sortByName : List Obj → List Obj
  | [] => []
  | x :: xs => insertByName x (sortByName xs)

/-- `List` of one kind: the server returns the items ordered by (namespace, name) -/
def ofKind (s : St) (kd : Kind) : List Obj :=
  sortByName (s.objs.filter (fun o => o.key.kind = kd))

def Obj.controlledBy (o : Obj) (uid : Nat) : Bool := o.owners.any (fun r => r.ctrl && r.uid == uid)

/-! ### requests -/

inductive Req where
  | get (k : Key)
  | list (kd : Kind)
  | listUsagesOf (kd : Kind) (n : String)
  | setStatus (k : Key) (rv : Nat) (conds : List (String × String))
  | removeFin (k : Key) (rv : Nat) (fin : String)
  | delete (k : Key) (fg : Bool)
  | deleteAll (kd : Kind)
  | lockRemove (rv : Nat) (pkg : String)
  | unlabel (k : Key) (rv : Nat)
  | stop (ctrl : String)
  | cacheDelete (n : String)
  deriving DecidableEq, Repr

inductive Resp where
  | ok
  | obj (o : Obj)
  | list (l : List Obj)
  | notFound
  | conflict
  | err
  deriving DecidableEq, Repr

def lockKey : Key := ⟨.lock, Xp.Gen.c08LockName⟩

/-- a resourceVersion-guarded modification of one object -/
def withObj (s : St) (k : Key) (rv : Nat) (f : Obj → Obj) : St × Resp :=
  match find s k with
  | none => (s, .notFound)
  | some o =>
    if o.rv ≠ rv then (s, .conflict)
    else let r := commit s o (f o); (r.1, .obj r.2)

def exec (s : St) : Req → St × Resp
  | .get k => (s, match find s k with | some o => .obj o | none => .notFound)
  | .list kd => (s, .list (ofKind s kd))
  | .listUsagesOf kd n => (s, .list ((ofKind s .usage).filter (fun u => u.of = n ∧ u.ofKind = kd)))
  | .setStatus k rv conds => withObj s k rv (fun o => { o with conds := conds })
  | .removeFin k rv fin => withObj s k rv (fun o => { o with fins := o.fins.filter (· ≠ fin) })
  | .delete k fg =>
    match find s k with
    | none => (s, .notFound)
    | some o => (deleteObj s o fg, .ok)
  | .deleteAll kd => ((ofKind s kd).foldl (fun acc o => deleteKey acc o.key false) s, .ok)
  | .lockRemove rv pkg => withObj s lockKey rv (fun o => { o with pkgs := o.pkgs.filter (· ≠ pkg) })
  | .unlabel k rv => withObj s k rv (fun o => { o with inuse := false })
  | .stop c => ({ s with running := s.running.filter (· ≠ c) }, .ok)
  | .cacheDelete _ => (s, .ok)

def Req.isWrite : Req → Bool
  | .get _ | .list _ | .listUsagesOf _ _ | .stop _ | .cacheDelete _ => false
  | _ => true

/-- reads: the calls an informer cache can answer -/
def Req.isRead : Req → Bool
  | .get _ | .list _ | .listUsagesOf _ _ => true
  | _ => false

/-- reply seen by the controller when the call was not applied -/
def errResp (o : Outcome) (r : Req) : Resp :=
  match o with
  | .conflict => if r.isWrite then .conflict else .err
  | _ => .err

def sem : Sem St Req Resp := ⟨exec, errResp⟩

/-! ### environment -/

/-- one round of Kubernetes garbage collection (simstore `GCStep`) -/
def gcStep (s : St) : St :=
  let uids := s.objs.map (·.uid)
  let alive (o : Obj) : List ORef := o.owners.filter (fun r => uids.contains r.uid)
  let blocked : List Nat := ((s.objs.flatMap alive).filter (·.block)).map (·.uid)
  let orphans := s.objs.filter (fun o => !o.owners.isEmpty && (alive o).isEmpty)
  let s1 := orphans.foldl (fun acc o =>
      match find acc o.key with
      | none => acc
      | some c =>
        if !c.fins.isEmpty then
          (if c.del then acc else put { acc with nextRv := acc.nextRv + 1 } { c with del := true, rv := acc.nextRv })
        else erase acc c.key) s
  s1.objs.foldl (fun acc o =>
      match find acc o.key with
      | none => acc
      | some c =>
        if c.del && c.fins.contains fgFin && !blocked.contains c.uid then
          let c' := { c with fins := c.fins.filter (· ≠ fgFin), rv := acc.nextRv }
          let acc' := { acc with nextRv := acc.nextRv + 1 }
          if c'.fins.isEmpty then erase acc' c.key else put acc' c'
        else acc) s1

/-- a third party removes one of its finalizers -/
def envUnfin (s : St) (k : Key) (f : String) : St :=
  match find s k with
  | none => s
  | some o => (commit s o { o with fins := o.fins.filter (· ≠ f) }).1

/-- kinds whose `ref` / `flag` a third party may edit (claim: `spec.resourceRef`,
`spec.compositeDeletePolicy`; XR: `spec.claimRef`; Usage: `spec.by`, the composite label) -/
def editable : Kind → Bool
  | .claim | .xr | .usage => true
  | _ => false

inductive Edit where
  | flip
  | ref (v : String)
  deriving DecidableEq, Repr

def Edit.app (e : Edit) (o : Obj) : Obj :=
  match e with
  | .flip => { o with flag := !o.flag }
  | .ref v => { o with ref := v }

/-- a third party edits an object (a changed object gets a fresh resourceVersion) -/
def envEdit (s : St) (k : Key) (e : Edit) : St :=
  if editable k.kind then
    match find s k with
    | none => s
    | some o => (commit s o (e.app o)).1
  else s

/-- the process dies: every dynamically started controller dies with it -/
def crash (s : St) : St := { s with running := [] }

/-! ### the reconcilers -/

inductive Res where
  | ok | requeue | err | oos | crashed
  deriving DecidableEq, Repr

abbrev P := Prog Req Resp Res

def setCond (cs : List (String × String)) (t v : String) : List (String × String) :=
  if cs.any (fun c => c.1 = t) then cs.map (fun c => if c.1 = t then (t, v) else c) else cs ++ [(t, v)]

def Obj.cond (o : Obj) (t v : String) : Obj := { o with conds := setCond o.conds t v }

def Resp.cls : Resp → String
  | .notFound => "notFound"
  | .conflict => "conflict"
  | _ => "other"

/-- `return reconcile.Result{…}, errors.Wrap(r.client.Status().Update(ctx, o), …)`;
`k` is the key the reconcile was asked for (the object it fetched by that name). -/
def statusThen (k : Key) (o : Obj) (r : Res) : P :=
  .call (.setStatus k o.rv o.conds) fun
    | .obj _ => .ret r
    | _ => .ret .err

open Xp.Gen

/-- claim: UnpublishConnection (no-op), RemoveFinalizer, final status update -/
def claimFinalize (k : Key) (cm : Obj) : P :=
  if cm.fins.contains c08ClaimFinalizer then
    .call (.removeFin k cm.rv c08ClaimFinalizer) fun
      | .obj cm' => statusThen k (cm'.cond "Synced" "Success") .ok
      | .notFound => statusThen k (cm.cond "Synced" "Success") .ok
      | r => statusThen k (cm.cond "Synced" ("err:removeFin:" ++ r.cls)) .requeue
  else statusThen k (cm.cond "Synced" "Success") .ok

/-- claim: `if meta.WasDeleted(cm) { … }` -/
def claimDeleted (k : Key) (cm : Obj) (xr : Option Obj) : P :=
  let cm := cm.cond "Ready" "Deleting"
  match xr with
  | none => claimFinalize k cm
  | some x =>
    if x.del && cm.flag then statusThen k cm .requeue
    else .call (.delete ⟨.xr, cm.ref⟩ cm.flag) fun
      | .ok => if cm.flag then .ret .requeue else claimFinalize k cm
      | .notFound => if cm.flag then .ret .requeue else claimFinalize k cm
      | r => statusThen k (cm.cond "Synced" ("err:deleteXR:" ++ r.cls)) .requeue

def claimBound (k : Key) (cm : Obj) (xr : Option Obj) : P :=
  match xr with
  | some x =>
    if x.ref ≠ "" ∧ x.ref ≠ k.name then statusThen k (cm.cond "Synced" "err:unbound") .ok
    else if cm.del then claimDeleted k cm xr else .ret .oos
  | none => if cm.del then claimDeleted k cm none else .ret .oos

def claimGot (k : Key) (cm : Obj) : P :=
  if cm.paused then statusThen k (cm.cond "Synced" "Paused") .ok
  else if cm.ref = "" then claimBound k cm none
  else .call (.get ⟨.xr, cm.ref⟩) fun
    | .obj x => claimBound k cm (some x)
    | .notFound => claimBound k cm none
    | r => statusThen k (cm.cond "Synced" ("err:getXR:" ++ r.cls)) .requeue

def claimRec (n : String) : P :=
  .call (.get ⟨.claim, n⟩) fun
    | .obj cm => claimGot ⟨.claim, n⟩ cm
    | .notFound => .ret .ok
    | _ => .ret .err

/-- composite resource (XR) reconciler, deletion branch -/
def xrRec (n : String) : P :=
  let k : Key := ⟨.xr, n⟩
  .call (.get k) fun
    | .obj x =>
      if x.paused then statusThen k (x.cond "Synced" "Paused") .ok
      else if !x.del then .ret .oos
      else
        let x := x.cond "Ready" "Deleting"
        if x.fins.contains c08XRFinalizer then
          .call (.removeFin k x.rv c08XRFinalizer) fun
            | .obj x' => statusThen k (x'.cond "Synced" "Success") .ok
            | .notFound => statusThen k (x.cond "Synced" "Success") .ok
            | .conflict => .ret .requeue
            | r => statusThen k (x.cond "Synced" ("err:removeFin:" ++ r.cls)) .requeue
        else statusThen k (x.cond "Synced" "Success") .ok
    | .notFound => .ret .ok
    | _ => .ret .err

/-- XRD controllers, "CRD is gone or not ours": stop the controller, drop the finalizer.
`cur` is the XRD as returned by the status update (current resourceVersion and finalizers). -/
def xrdFinish (k : Key) (cur : Obj) (ctrl fin : String) : P :=
  .call (.stop ctrl) fun
    | .ok =>
      if cur.fins.contains fin then
        .call (.removeFin k cur.rv fin) fun
          | .obj _ => .ret .ok
          | .notFound => .ret .ok
          | .conflict => .ret .requeue
          | _ => .ret .err
      else .ret .ok
    | _ => .ret .err

/-- XRD controllers, no instance left: stop the controller, then delete the CRD -/
def xrdStopDelete (ctrl : String) (crd : Key) : P :=
  .call (.stop ctrl) fun
    | .ok => .call (.delete crd false) fun
        | .ok => .ret .requeue
        | .notFound => .ret .requeue
        | _ => .ret .err
    | _ => .ret .err

def compositeCtrl (xrd : String) : String := c08CompositeControllerPrefix ++ xrd
def claimCtrl (xrd : String) : String := c08ClaimControllerPrefix ++ xrd

/-- `definition` reconciler (composite CRD + XR controller), deletion branch. `d` is the
XRD as first read (its uid and CRD names cannot change), `d'` the copy the status update
returned. -/
def definedRec (n : String) : P :=
  let k : Key := ⟨.xrd, n⟩
  .call (.get k) fun
    | .obj d =>
      if !d.del then .ret .oos else
      .call (.setStatus k d.rv (setCond d.conds "Established" "TerminatingComposite")) fun
        | .obj d' =>
          .call (.get ⟨.crd, d.ref⟩) fun
            | .obj c =>
              if !c.controlledBy d.uid then xrdFinish k d' (compositeCtrl n) c08DefinedFinalizer
              else .call (.deleteAll .xr) fun
                | .ok => .call (.list .xr) fun
                    | .list [] => xrdStopDelete (compositeCtrl n) ⟨.crd, d.ref⟩
                    | .list _ => .ret .requeue
                    | _ => .ret .err
                | _ => .ret .err
            | .notFound => xrdFinish k d' (compositeCtrl n) c08DefinedFinalizer
            | _ => .ret .err
        | .conflict => .ret .requeue
        | _ => .ret .err
    | .notFound => .ret .ok
    | _ => .ret .err

def deleteEach : List Obj → P
  | [] => .ret .requeue
  | o :: rest => .call (.delete o.key false) fun
      | .ok => deleteEach rest
      | .notFound => deleteEach rest
      | _ => .ret .err

/-- `offered` reconciler (claim CRD + claim controller), deletion branch -/
def offeredRec (n : String) : P :=
  let k : Key := ⟨.xrd, n⟩
  .call (.get k) fun
    | .obj d =>
      if !d.del then .ret .oos else
      .call (.setStatus k d.rv (setCond d.conds "Offered" "TerminatingClaim")) fun
        | .obj d' =>
          .call (.get ⟨.crd, d.of⟩) fun
            | .obj c =>
              if !c.controlledBy d.uid then xrdFinish k d' (claimCtrl n) c08OfferedFinalizer
              else .call (.list .claim) fun
                | .list [] => xrdStopDelete (claimCtrl n) ⟨.crd, d.of⟩
                -- the items of a claim list are claims
                | .list l => deleteEach (l.filter (fun o => o.key.kind = .claim))
                | _ => .ret .err
            | .notFound => xrdFinish k d' (claimCtrl n) c08OfferedFinalizer
            | _ => .ret .err
        | .conflict => .ret .requeue
        | _ => .ret .err
    | .notFound => .ret .ok
    | _ => .ret .err

def revFinalize (k : Key) (pr : Obj) : P :=
  if pr.fins.contains c08RevisionFinalizer then
    .call (.removeFin k pr.rv c08RevisionFinalizer) fun
      | .obj _ => .ret .ok
      | .notFound => .ret .ok
      | .conflict => .ret .requeue
      | _ => .ret .err
  else .ret .ok

/-- package revision reconciler, deletion branch: cache.Delete, lock.RemoveSelf, RemoveFinalizer.
Whether the revision is in the Lock is a matter of history, not of its current spec: the
branch does NOT look at `pr.inactive` or `pr.skipDeps` (a revision marked Inactive whose
deactivation never completed, or one whose `skipDependencyResolution` was switched on after
its dependencies were resolved, is still in the Lock). -/
def revRec (n : String) : P :=
  let k : Key := ⟨.rev, n⟩
  .call (.get k) fun
    | .obj pr =>
      if pr.paused then statusThen k (pr.cond "Synced" "Paused") .ok
      else if !pr.del then .ret .oos
      else .call (.cacheDelete n) fun
        | .ok => .call (.get lockKey) fun
            | .obj l =>
              if l.pkgs.contains n then
                .call (.lockRemove l.rv n) fun
                  | .obj _ => revFinalize k pr
                  | .conflict => .ret .requeue
                  | _ => .ret .err
              else revFinalize k pr
            | .notFound => revFinalize k pr
            | _ => .ret .err
        | _ => .ret .err
    | .notFound => .ret .ok
    | _ => .ret .err

def usageFinalize (k : Key) (u : Obj) : P :=
  if u.fins.contains c08UsageFinalizer then
    .call (.removeFin k u.rv c08UsageFinalizer) fun
      | .obj _ => .ret .ok
      | .notFound => .ret .ok
      | .conflict => .ret .requeue
      | _ => .ret .err
  else .ret .ok

def usageUsed (k : Key) (u : Obj) : P :=
  .call (.get ⟨u.ofKind, u.of⟩) fun
    | .obj used => .call (.listUsagesOf u.ofKind u.of) fun
        | .list l =>
          if l.length < 2 then
            .call (.unlabel ⟨u.ofKind, u.of⟩ used.rv) fun
              | .obj _ => usageFinalize k u
              | .conflict => .ret .requeue
              | _ => .ret .err
          else usageFinalize k u
        | _ => .ret .err
    | .notFound => usageFinalize k u
    | _ => .ret .err

/-- Usage reconciler, deletion branch -/
def usageRec (n : String) : P :=
  let k : Key := ⟨.usage, n⟩
  .call (.get k) fun
    | .obj u =>
      if !u.del then .ret .oos
      else if u.ref ≠ "" ∧ u.flag then
        .call (.get ⟨u.refKind, u.ref⟩) fun
          | .obj _ => .ret .requeue
          | .notFound => usageUsed k u
          | _ => .ret .err
      else usageUsed k u
    | .notFound => .ret .ok
    | _ => .ret .err

inductive Ctl where
  | claim | xr | defined | offered | rev | usage
  deriving DecidableEq, Repr

def program : Ctl → String → P
  | .claim, n => claimRec n
  | .xr, n => xrRec n
  | .defined, n => definedRec n
  | .offered, n => offeredRec n
  | .rev, n => revRec n
  | .usage, n => usageRec n

/-! ### the interleaved system -/

/-- an in-flight reconcile: which controller and key it serves and what it has seen so
far (ghost), and what is left of it -/
structure Thread where
  ctl : Ctl
  name : String
  hist : List (Req × Resp)
  prog : P

structure Sys where
  st : St
  ths : List Thread
  /-- every store the run has been in (oldest first): what a lagging informer cache may
  still show -/
  past : List St := []

inductive Act where
  | spawn (c : Ctl) (n : String)
  | step (i : Nat) (o : Outcome)
  | del (k : Key)
  | gc
  | unfin (k : Key) (f : String)
  /-- a third party edits an object (see `envEdit`) -/
  | edit (k : Key) (e : Edit)
  /-- reconcile `i` takes its next call; if it is a read it is answered from an informer
  cache that shows the store as it was before schedule step `j` (`past[j]`); a write goes
  to the API server (= `step i .ok`) -/
  | lagStep (i : Nat) (j : Nat)
  /-- an object appears (a user, or a reconcile outside the modelled deletion branches,
  e.g. a live claim re-creating its XR). NOT part of the alphabet the trace theorems
  quantify over; present so that the need for that restriction can be stated. -/
  | create (o : Obj)
  deriving Repr

def Thread.dead (t : Thread) : Thread := { t with prog := .ret .crashed }

/-- reconcile `i` (thread `t`, about to issue `r`) sees reply `x`; the store becomes `st` -/
def Sys.reply (s : Sys) (i : Nat) (t : Thread) (r : Req) (k : Resp → P) (st : St) (x : Resp) : Sys :=
  { s with st := st, ths := s.ths.set i { t with hist := t.hist ++ [(r, x)], prog := k x } }

/-- one schedule step (without the book-keeping of `past`) -/
def Sys.act1 (s : Sys) : Act → Sys
  | .spawn c n => { s with ths := s.ths ++ [⟨c, n, [], program c n⟩] }
  | .step i o =>
    match s.ths[i]? with
    | none => s
    | some t =>
      match t.prog with
      | .ret _ => s
      | .call r k =>
        match o with
        | .ok => s.reply i t r k (exec s.st r).1 (exec s.st r).2
        | .fail => s.reply i t r k s.st (errResp .fail r)
        | .conflict => s.reply i t r k s.st (errResp .conflict r)
        | .crashBefore => { s with st := crash s.st, ths := s.ths.map Thread.dead }
        | .crashAfter => { s with st := crash (exec s.st r).1, ths := s.ths.map Thread.dead }
  | .lagStep i j =>
    match s.ths[i]? with
    | none => s
    | some t =>
      match t.prog with
      | .ret _ => s
      | .call r k =>
        if r.isRead then
          match s.past[j]? with
          | some p => s.reply i t r k s.st (exec p r).2
          | none => s.reply i t r k s.st (exec s.st r).2
        else s.reply i t r k (exec s.st r).1 (exec s.st r).2
  | .del k => { s with st := deleteKey s.st k false }
  | .gc => { s with st := gcStep s.st }
  | .unfin k f => { s with st := envUnfin s.st k f }
  | .edit k e => { s with st := envEdit s.st k e }
  | .create o => if (find s.st o.key).isSome then s else { s with st := { s.st with objs := s.st.objs ++ [o] } }

/-- one schedule step; the store it started from joins `past` (so that `past[j]` is the
store just before schedule step `j`) -/
def Sys.act (s : Sys) (a : Act) : Sys := { s.act1 a with past := s.past ++ [s.st] }

def Act.isCreate : Act → Bool
  | .create _ => true
  | _ => false

def Sys.run (s : Sys) : List Act → Sys
  | [] => s
  | a :: rest => (s.act a).run rest

/-- the configuration reached from store `st0` with no reconcile in flight -/
def reach (st0 : St) (acts : List Act) : Sys := Sys.run { st := st0, ths := [] } acts

/-- the schedule contains no creation step: it is made of reconciles of the six modelled
deletion branches (each call with any fault outcome, each read fresh or from a lagging
cache), user deletions, third-party edits, garbage collection steps, finalizer removals
and crashes -/
def NoCreate (acts : List Act) : Prop := ∀ a ∈ acts, a.isCreate = false

/-- every stored resourceVersion was issued before the next one -/
def WF (s : St) : Prop := ∀ o ∈ s.objs, o.rv < s.nextRv

/-! ### the property as a predicate on (state, controller, request about to be applied) -/

def present (s : St) (k : Key) : Bool := (find s k).isSome

def noneOf (s : St) (kd : Kind) : Bool := s.objs.all (fun o => o.key.kind != kd)

/-- the CRD `crd` is gone or is not controlled by the object with this uid -/
def crdNotOurs (s : St) (crd : String) (uid : Nat) : Bool :=
  match find s ⟨.crd, crd⟩ with
  | none => true
  | some c => !c.controlledBy uid

/-- the XR a stored claim references is gone, or (policy not Foreground) already being deleted -/
def claimXRGone (s : St) (cm : Obj) : Bool :=
  cm.ref == "" ||
  match find s ⟨.xr, cm.ref⟩ with
  | none => true
  | some x => x.del && !cm.flag

/-- `safeReq s c n r`: request `r`, about to be applied to state `s` by a reconcile of
controller `c` for key `n`, respects the teardown order.  A finalizer removal of a claim
or Usage carries the resourceVersion `rv` it was computed from: if the stored object has
another one (a third party edited it meanwhile) the API server rejects the write and
nothing is applied. -/
def safeReq (s : St) (c : Ctl) (n : String) : Req → Bool
  | .removeFin k rv fin =>
    match c with
    | .claim => fin != c08ClaimFinalizer || (match find s k with | none => true | some cm => cm.rv != rv || claimXRGone s cm)
    | .defined => fin != c08DefinedFinalizer || (match find s k with | none => true | some d => crdNotOurs s d.ref d.uid)
    | .offered => fin != c08OfferedFinalizer || (match find s k with | none => true | some d => crdNotOurs s d.of d.uid)
    | .rev => fin != c08RevisionFinalizer || (match find s lockKey with | none => true | some l => !l.pkgs.contains k.name)
    | .usage => fin != c08UsageFinalizer ||
        (match find s k with | none => true | some u => u.rv != rv || !(u.flag && u.ref != "") || !present s ⟨u.refKind, u.ref⟩)
    | .xr => true
  | .delete k _ =>
    match c with
    | .defined => k.kind != .crd || (noneOf s .xr && !s.running.contains (compositeCtrl n))
    | .offered => k.kind != .crd || (noneOf s .claim && !s.running.contains (claimCtrl n))
    | _ => true
  | .stop _ =>
    match c with
    | .defined => (match find s ⟨.xrd, n⟩ with | none => true | some d => crdNotOurs s d.ref d.uid || noneOf s .xr)
    | .offered => (match find s ⟨.xrd, n⟩ with | none => true | some d => crdNotOurs s d.of d.uid || noneOf s .claim)
    | _ => true
  | _ => true

/-- the next request of in-flight reconcile `i` violates the ordering constraint in the
current store -/
def Sys.violatesAt (s : Sys) (i : Nat) : Bool :=
  match s.ths[i]? with
  | none => false
  | some t =>
    match t.prog with
    | .call r _ => !safeReq s.st t.ctl t.name r
    | .ret _ => false

/-! ### what one reconcile has seen: histories and the local ordering constraints -/

abbrev Hist := List (Req × Resp)

/-- every request the program issues when run under fault plan `plan` from store `s`
(with any server semantics `sm`), paired with the history of requests and replies the
reconcile had seen when it issued it -/
def issued (sm : Sem St Req Resp) (plan : Plan) : Nat → Hist → P → St → List (Hist × Req)
  | _, _, .ret _, _ => []
  | k, h, .call r c, s =>
    match plan k with
    | .ok => (h, r) :: issued sm plan (k+1) (h ++ [(r, (sm.exec s r).2)]) (c (sm.exec s r).2) (sm.exec s r).1
    | .fail => (h, r) :: issued sm plan (k+1) (h ++ [(r, sm.errResp .fail r)]) (c (sm.errResp .fail r)) s
    | .conflict => (h, r) :: issued sm plan (k+1) (h ++ [(r, sm.errResp .conflict r)]) (c (sm.errResp .conflict r)) s
    | .crashBefore => [(h, r)]
    | .crashAfter => [(h, r)]

/-- `a` occurs in `h` strictly before `b` -/
def Before (h : Hist) (a b : Req × Resp) : Prop := ∃ h1 h2 h3, h = h1 ++ a :: h2 ++ b :: h3

/-- the reconcile has seen that the XR of claim `cm` is gone: it read it as NotFound, or
(policy not Foreground) its Delete was acknowledged -/
def XRGoneSeen (h : Hist) (cm : Obj) : Prop :=
  cm.ref = "" ∨ (Req.get ⟨.xr, cm.ref⟩, Resp.notFound) ∈ h ∨
  (cm.flag = false ∧ ((Req.delete ⟨.xr, cm.ref⟩ false, Resp.ok) ∈ h ∨ (Req.delete ⟨.xr, cm.ref⟩ false, Resp.notFound) ∈ h))

/-- the reconcile has read the CRD as NotFound or as not controlled by `uid` -/
def CRDNotOursSeen (h : Hist) (crd : String) (uid : Nat) : Prop :=
  (Req.get ⟨.crd, crd⟩, Resp.notFound) ∈ h ∨ ∃ c, (Req.get ⟨.crd, crd⟩, Resp.obj c) ∈ h ∧ c.controlledBy uid = false

/-- the reconcile has seen that revision `n` is not in the Lock -/
def NotInLockSeen (h : Hist) (n : String) : Prop :=
  (Req.get lockKey, Resp.notFound) ∈ h ∨ (∃ l, (Req.get lockKey, Resp.obj l) ∈ h ∧ n ∉ l.pkgs) ∨
  ∃ rv l, (Req.lockRemove rv n, Resp.obj l) ∈ h

/-- `guardH c n h r`: what a reconcile of controller `c` for key `n` must have seen (`h`)
when it issues request `r`. -/
def guardH (c : Ctl) (n : String) (h : Hist) : Req → Prop
  | .removeFin k rv fin =>
    match c with
    | .claim => fin = c08ClaimFinalizer → k = ⟨.claim, n⟩ ∧ ∃ cm, (Req.get ⟨.claim, n⟩, Resp.obj cm) ∈ h ∧ rv = cm.rv ∧ XRGoneSeen h cm
    | .defined => fin = c08DefinedFinalizer → k = ⟨.xrd, n⟩ ∧ ∃ d, (Req.get ⟨.xrd, n⟩, Resp.obj d) ∈ h ∧ CRDNotOursSeen h d.ref d.uid
    | .offered => fin = c08OfferedFinalizer → k = ⟨.xrd, n⟩ ∧ ∃ d, (Req.get ⟨.xrd, n⟩, Resp.obj d) ∈ h ∧ CRDNotOursSeen h d.of d.uid
    | .rev => fin = c08RevisionFinalizer → k = ⟨.rev, n⟩ ∧ NotInLockSeen h n
    | .usage => fin = c08UsageFinalizer → k = ⟨.usage, n⟩ ∧ ∃ u, (Req.get ⟨.usage, n⟩, Resp.obj u) ∈ h ∧ rv = u.rv ∧
        (u.ref = "" ∨ u.flag = false ∨ (Req.get ⟨u.refKind, u.ref⟩, Resp.notFound) ∈ h)
    | .xr => True
  | .delete k _ =>
    match c with
    | .defined => k.kind = .crd →
        Before h (Req.list .xr, Resp.list []) (Req.stop (compositeCtrl n), Resp.ok)
    | .offered => k.kind = .crd →
        Before h (Req.list .claim, Resp.list []) (Req.stop (claimCtrl n), Resp.ok)
    | _ => k.kind ≠ .crd
  | .stop ctl =>
    match c with
    | .defined => ctl = compositeCtrl n ∧ ∃ d, (Req.get ⟨.xrd, n⟩, Resp.obj d) ∈ h ∧
        (CRDNotOursSeen h d.ref d.uid ∨ (Req.list .xr, Resp.list []) ∈ h)
    | .offered => ctl = claimCtrl n ∧ ∃ d, (Req.get ⟨.xrd, n⟩, Resp.obj d) ∈ h ∧
        (CRDNotOursSeen h d.of d.uid ∨ (Req.list .claim, Resp.list []) ∈ h)
    | _ => False
  | _ => True

/-- `Always φ h p`: on every path of `p` (every possible reply to every call), each
request is issued only when `φ` holds of the history so far. -/
def Always (φ : Hist → Req → Prop) : Hist → P → Prop
  | _, .ret _ => True
  | h, .call r k => φ h r ∧ ∀ x, Always φ (h ++ [(r, x)]) (k x)

end Xp.C08
